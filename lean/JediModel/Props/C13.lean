import JediModel.Model.ObjCfg
import JediModel.Lemmas.ObjModel
/-! # C13 — Interpreter reflects live objects; safe mode runs no user descriptors

Property theorems only.  The model (`Model/ObjModel`) is instantiated with the tables and guard
expressions the translator extracted from the source (`Gen.C13`).  Three facts about the shape of
the source decide whether the FULL statement can hold at all; they are flags of the configuration
(`cfgWith meta hasIter bool`), the translator reports their current values and the theorems are
stated for both values, so that they stay checkable before and after a fix:

* `metaHitReportsGet`  — `getattr_static` reports `__get__` of a hit found on the metaclass
* `hasIterExecutes`    — `has_iter` calls `iter(obj)`
* `boolExecutes`       — `py__bool__` calls `bool(obj)` -/
namespace JediModel.Props.C13
open JediModel.ObjModel
open JediModel.Gen

/-- the builtin container types whose `[]` / iteration run no user code (their exact type) -/
def builtinContainers : List String :=
  ["str", "list", "tuple", "bytes", "bytearray", "dict", "set", "frozenset", "range"]

/-! ## the static lookup -/

/-- `getattr_static` hands out objects stored in the instance `__dict__`, in a class `__dict__`
along the MRO, or in a metaclass `__dict__` — never the result of a `__get__` call.  (In the
model the function has no trace component at all: it only reads dictionaries.) -/
theorem static_lookup_is_static (cfg : Cfg) (t : Target) (a : String) (e : Entry) (g : Bool)
    (h : getattrStatic cfg t a = some (e, g)) :
    e.name = a ∧ ((∃ d, t.inst = some d ∧ e ∈ d) ∨ (∃ d ∈ t.mro, e ∈ d) ∨ (∃ d ∈ t.metaMro, e ∈ d)) := by
  unfold getattrStatic at h
  simp only at h
  have hinst : ∀ i, (if t.isType = true then none
      else if instanceDictReadable t.mro = true then t.inst.bind fun x => findIn x a else none) = some i →
      i.name = a ∧ ∃ d, t.inst = some d ∧ i ∈ d := by
    intro i hi
    split at hi
    · cases hi
    · split at hi
      · cases hd : t.inst with
        | none => simp [hd] at hi
        | some d =>
          simp only [hd, Option.bind_some] at hi
          exact ⟨(findIn_mem hi).2, d, rfl, (findIn_mem hi).1⟩
      · cases hi
  generalize (if t.isType = true then none
      else if instanceDictReadable t.mro = true then t.inst.bind fun x => findIn x a else none) = instR at h hinst
  cases instR with
  | some i =>
    have hi' := hinst i rfl
    cases hk : mroLookup t.mro a with
    | some k =>
      have hk' := mroLookup_mem hk
      simp only [hk] at h
      split at h <;> cases h
      · exact ⟨hk'.2, Or.inr (Or.inl hk'.1)⟩
      · exact ⟨hi'.1, Or.inl hi'.2⟩
    | none =>
      simp only [hk] at h
      cases h
      exact ⟨hi'.1, Or.inl hi'.2⟩
  | none =>
    cases hk : mroLookup t.mro a with
    | some k =>
      have hk' := mroLookup_mem hk
      simp only [hk] at h
      cases h
      exact ⟨hk'.2, Or.inr (Or.inl hk'.1)⟩
    | none =>
      simp only [hk] at h
      split at h
      · cases hm : mroLookup t.metaMro a with
        | none => simp [hm] at h
        | some m =>
          simp only [hm, Option.map_some, Option.some.injEq, Prod.mk.injEq] at h
          have hm' := mroLookup_mem hm
          rw [← h.1]
          exact ⟨hm'.2, Or.inr (Or.inr hm'.1)⟩
      · cases h

example : getattrStatic genCfg
    { isType := false, inst := some [⟨"x", .plain, 1⟩], mro := [[⟨"x", .prop false, 2⟩]], metaMro := [] } "x"
    = some (⟨"x", .prop false, 2⟩, true) := by decide

/-- For instances the static lookup chooses exactly the entry CPython's `getattr` chooses
(`hd`: the instance `__dict__` is not shadowed by a class attribute named `__dict__`). -/
theorem static_agrees_on_entry (cfg : Cfg) (t : Target) (a : String)
    (hi : t.isType = false) (hd : instanceDictReadable t.mro = true) :
    (getattrStatic cfg t a).map (·.1) = (pyGetattr t a).found := by
  unfold getattrStatic pyGetattr pyGetattrInstance
  simp only [hi, hd, if_true, Bool.false_eq_true, if_false]
  cases hk : mroLookup t.mro a <;> cases hin : t.inst.bind (findIn · a) <;>
    simp [GetResult.miss, GetResult.direct, GetResult.invoke]
  · rename_i k
    by_cases hg : k.tag.hasGet = true <;> by_cases hs : k.tag.hasSet = true <;>
      simp [hg, hs]
  · rename_i k i
    by_cases hg : k.tag.hasGet = true <;> by_cases hs : k.tag.hasSet = true <;>
      simp [hg, hs]

example : instanceDictReadable [[⟨"p", .getData, 2⟩], [⟨"__dict__", .builtinDescr "getset_descriptor" true, 3⟩]]
    = true := by decide

/-- For classes the same holds when no *data descriptor of the metaclass* carries the name. -/
theorem static_agrees_on_entry_class_partial (cfg : Cfg) (t : Target) (a : String)
    (hi : t.isType = true)
    (hm : ∀ m, mroLookup t.metaMro a = some m → (m.tag.hasGet && m.tag.hasSet) = false) :
    (getattrStatic cfg t a).map (·.1) = (pyGetattr t a).found := by
  unfold getattrStatic pyGetattr pyGetattrType
  simp only [hi, if_true]
  cases hk : mroLookup t.mro a <;> cases hmm : mroLookup t.metaMro a
  · simp [GetResult.miss]
  · rename_i m
    have := hm m hmm
    cases hg : m.tag.hasGet <;> simp_all [GetResult.direct, GetResult.invoke]
  · rename_i k
    cases hg : k.tag.hasGet <;> simp [hg, GetResult.direct, GetResult.invokeNoInstance]
  · rename_i k m
    have := hm m hmm
    cases hg : k.tag.hasGet <;> cases hg2 : m.tag.hasGet <;>
      simp_all [GetResult.direct, GetResult.invokeNoInstance]

/- FULL (false, see witness): `static_agrees_on_entry` for classes without `hm`. -/
/-- counter-witness: class attribute `p = 1`, metaclass property `p`: `getattr(A, 'p')` runs the
metaclass property, the static lookup answers the class attribute. -/
theorem static_agrees_on_entry_class_counter :
    ∃ (t : Target) (a : String), t.isType = true ∧
      (getattrStatic genCfg t a).map (·.1) ≠ (pyGetattr t a).found :=
  ⟨{ isType := true, inst := none, mro := [[⟨"p", .plain, 1⟩]], metaMro := [[⟨"p", .prop false, 2⟩]] },
   "p", by decide⟩

/-! ## safe mode runs no user `__get__` through attribute names -/

/-- The decision table: in safe mode a *real* name (one whose inference is `getattr(obj, name)`)
is produced only for an attribute that exists and is not flagged as a descriptor. -/
theorem get_real_only_if_plain (m i b : Bool)
    (has isDescr annP annV checkHas isInstance inDir d : Bool)
    (h : filterGet (cfgWith m i b) has isDescr annP annV checkHas false isInstance inDir = .realName d) :
    has = true ∧ isDescr = false ∧ d = false := by
  cases has <;> cases isDescr <;> cases annP <;> cases annV <;> cases checkHas <;> cases isInstance <;>
    cases inDir <;>
    simp [filterGet, cfgWith, C13.getAbsentCond, C13.getEmptyCond, C13.getNotInDirCond] at h ⊢ <;>
    first | exact h | exact h.symm

example : filterGet genCfg true false false false true false true true = .realName false := by decide

/-- whenever CPython's lookup on an instance runs a user `__get__`, `is_allowed_getattr` flags the
name as a descriptor (second component) — in either mode -/
theorem flagged_of_trace (m i b : Bool) (t : Target) (a : String) (safe dynHas : Bool)
    (hi : t.isType = false) (h : (pyGetattr t a).trace ≠ []) :
    (isAllowedGetattr (cfgWith m i b) t a safe dynHas).2.1 = true := by
  have hprop : C13.allowedDescriptorAccess.contains "property" = false := by decide
  have key : ∀ k : Entry, k.tag.userGet = true →
      (cfgWith m i b).isDescriptorCond k.tag.hasGet (typeIn (cfgWith m i b).allowedDescr k.tag) = true := by
    intro k hk
    have h1 := Tag.hasGet_of_userGet hk
    have h2 : typeIn C13.allowedDescriptorAccess k.tag = false := typeIn_of_userGet hk hprop
    simp [cfgWith, C13.isDescriptorCond, h1, h2]
  unfold pyGetattr pyGetattrInstance at h
  unfold isAllowedGetattr getattrStatic
  simp only [hi, Bool.false_eq_true, if_false] at h ⊢
  generalize t.inst.bind (findIn · a) = ib at h ⊢
  generalize instanceDictReadable t.mro = rd
  cases hk : mroLookup t.mro a with
  | none => cases ib <;> simp [hk, GetResult.miss, GetResult.direct] at h
  | some k =>
    simp only [hk] at h
    by_cases hu : k.tag.userGet = true
    · have hkey := key k hu
      have hg := Tag.hasGet_of_userGet hu
      cases ib <;> cases rd <;> cases hs : k.tag.hasSet <;>
        simp_all [GetResult.direct, GetResult.invoke]
    · exfalso
      cases ib <;> cases hg : k.tag.hasGet <;> cases hs : k.tag.hasSet <;>
        simp_all [GetResult.direct, GetResult.invoke]

/-- FULL for instances, every flag value: with `allow_unsafe_executions = False`, getting a name
from the filter of an instance and inferring it calls no user-defined `__get__` — property getter,
data or non-data descriptor, on the class or any of its bases. -/
theorem safe_no_user_get (m i b : Bool) (t : Target) (a : String)
    (isInstance inDir dynHas annValues : Bool) (hi : t.isType = false) :
    (filterGetInfer (cfgWith m i b) t a false isInstance inDir dynHas annValues).2 = [] := by
  unfold filterGetInfer
  simp only
  split
  · rename_i d hout
    simp only
    unfold filterGetOutcome at hout
    have hf := flagged_of_trace m i b t a (!false) dynHas hi
    generalize isAllowedGetattr (cfgWith m i b) t a (!false) dynHas = r at hout hf
    obtain ⟨has, isDescr, ann⟩ := r
    simp only at hout hf
    have hreal := get_real_only_if_plain m i b has isDescr ann annValues true isInstance inDir d hout
    by_cases htr : (pyGetattr t a).trace = []
    · exact htr
    · have := hf htr
      simp [hreal.2.1] at this
  · rfl

example : (filterGetInfer genCfg
    { isType := false, inst := some [], mro := [[⟨"p", .prop false, 2⟩, ⟨"x", .plain, 3⟩]], metaMro := [] }
    "p" false true true false false) = (.emptyName, []) := by decide

/-- and in unsafe mode the same query does run the getter (the model's trace is not vacuous) -/
theorem unsafe_runs_getter_witness : (filterGetInfer genCfg
    { isType := false, inst := some [], mro := [[⟨"p", .prop false, 2⟩, ⟨"x", .plain, 3⟩]], metaMro := [] }
    "p" true true true false false) = (.realName true, [2]) := by decide

/-! ### classes: attributes found on the class, its bases, the metaclass -/

/-- whenever `type.__getattribute__` runs a user `__get__` for a class, and no user-`__get__`
entry of the *metaclass* carries the name, `is_allowed_getattr` flags the name -/
theorem flagged_of_trace_class (m i b : Bool) (t : Target) (a : String) (safe dynHas : Bool)
    (hi : t.isType = true)
    (hmeta : ∀ e, mroLookup t.metaMro a = some e → e.tag.userGet = false)
    (h : (pyGetattr t a).trace ≠ []) :
    (isAllowedGetattr (cfgWith m i b) t a safe dynHas).2.1 = true := by
  have hprop : C13.allowedDescriptorAccess.contains "property" = false := by decide
  have key : ∀ k : Entry, k.tag.userGet = true →
      (cfgWith m i b).isDescriptorCond k.tag.hasGet (typeIn (cfgWith m i b).allowedDescr k.tag) = true := by
    intro k hk
    have h1 := Tag.hasGet_of_userGet hk
    have h2 : typeIn C13.allowedDescriptorAccess k.tag = false := typeIn_of_userGet hk hprop
    simp [cfgWith, C13.isDescriptorCond, h1, h2]
  unfold pyGetattr pyGetattrType at h
  unfold isAllowedGetattr getattrStatic
  simp only [hi, if_true] at h ⊢
  cases hk : mroLookup t.mro a with
  | none =>
    exfalso
    cases hm : mroLookup t.metaMro a with
    | none => simp [hk, hm, GetResult.miss] at h
    | some me =>
      have hu := hmeta me hm
      simp only [hk, hm] at h
      cases hg : me.tag.hasGet <;> cases hs : me.tag.hasSet <;>
        simp_all [GetResult.direct, GetResult.invoke]
  | some k =>
    by_cases hu : k.tag.userGetNoInstance = true
    · have hkey := key k (Tag.userGet_of_userGetNoInstance hu)
      have hg := Tag.hasGet_of_userGet (Tag.userGet_of_userGetNoInstance hu)
      simp only
      rw [if_pos hkey]
    · exfalso
      cases hm : mroLookup t.metaMro a with
      | none =>
        simp only [hk, hm] at h
        cases hg : k.tag.hasGet <;> simp_all [GetResult.direct, GetResult.invokeNoInstance]
      | some me =>
        have hu' := hmeta me hm
        simp only [hk, hm] at h
        cases hg : k.tag.hasGet <;> cases hg2 : me.tag.hasGet <;> cases hs : me.tag.hasSet <;>
          simp_all [GetResult.direct, GetResult.invoke, GetResult.invokeNoInstance]

/- FULL (false on the code as it is, see the two witnesses below):
   theorem safe_no_user_get_class (t : Target) (a : String) … (hi : t.isType = true) :
     (filterGetInfer genCfg t a false isInstance inDir dynHas annValues).2 = []            -/

/-- PARTIAL for classes (every flag value): no user `__get__` runs in safe mode provided the name
is not a user-`__get__` descriptor (property, data / non-data descriptor) **of the metaclass**.
Attributes of the class itself and of its bases are covered at full strength. -/
theorem safe_no_user_get_class_partial (m i b : Bool) (t : Target) (a : String)
    (isInstance inDir dynHas annValues : Bool) (hi : t.isType = true)
    (hmeta : ∀ e, mroLookup t.metaMro a = some e → e.tag.userGet = false) :
    (filterGetInfer (cfgWith m i b) t a false isInstance inDir dynHas annValues).2 = [] := by
  unfold filterGetInfer
  simp only
  split
  · rename_i d hout
    simp only
    unfold filterGetOutcome at hout
    have hf := flagged_of_trace_class m i b t a (!false) dynHas hi hmeta
    generalize isAllowedGetattr (cfgWith m i b) t a (!false) dynHas = r at hout hf
    obtain ⟨has, isDescr, ann⟩ := r
    simp only at hout hf
    have hreal := get_real_only_if_plain m i b has isDescr ann annValues true isInstance inDir d hout
    by_cases htr : (pyGetattr t a).trace = []
    · exact htr
    · have := hf htr
      simp [hreal.2.1] at this
  · rfl

example : ∀ e, mroLookup [[⟨"__name__", .builtinDescr "getset_descriptor" true, 7⟩]] "__name__" = some e →
    e.tag.userGet = false := by decide

/-- counter-witness 1 (while `getattr_static` answers `is_get_descriptor = False` for every
metaclass hit): a property of the metaclass, `A.mp` — safe mode produces a real name and
inferring it runs the getter. -/
theorem safe_no_user_get_class_counter_meta_property (i b : Bool) :
    (filterGetInfer (cfgWith false i b)
      { isType := true, inst := none, mro := [[⟨"x", .plain, 1⟩]], metaMro := [[⟨"mp", .prop false, 2⟩]] }
      "mp" false false true false false) = (.realName false, [2]) := by
  cases i <;> cases b <;> decide

/-- once the metaclass hit reports its `__get__`, that input is refused … -/
theorem meta_property_refused_when_flagged (i b : Bool) :
    (filterGetInfer (cfgWith true i b)
      { isType := true, inst := none, mro := [[⟨"x", .plain, 1⟩]], metaMro := [[⟨"mp", .prop false, 2⟩]] }
      "mp" false false true false false) = (.emptyName, []) := by
  cases i <;> cases b <;> decide

/-- counter-witness 2 (either value of the flag): a *data* descriptor of the metaclass that
shadows a plain class attribute of the same name — the static lookup answers the class
attribute, `getattr` runs the metaclass descriptor. -/
theorem safe_no_user_get_class_counter_meta_shadow (m i b : Bool) :
    (filterGetInfer (cfgWith m i b)
      { isType := true, inst := none, mro := [[⟨"p", .plain, 1⟩]], metaMro := [[⟨"p", .prop false, 2⟩]] }
      "p" false false true false false) = (.realName false, [2]) := by
  cases m <;> cases i <;> cases b <;> decide

/-! ## item access and iteration -/

theorem allowed_getitem_types_are_builtin_containers :
    ∀ n ∈ C13.allowedGetitemTypes, n ∈ builtinContainers := by decide

/-- FULL: in safe mode `py__simple_getitem__` subscripts the live object only if its exact type is
one of the listed builtin containers, and never runs a user `__getitem__`. -/
theorem safe_no_item_iter_getitem (m i b : Bool) (ty : Ty) :
    (pySimpleGetitem (cfgWith m i b) ty true).2 = [] ∧
    ((pySimpleGetitem (cfgWith m i b) ty true).1 = true →
      ∃ n, ty = .builtin n ∧ n ∈ C13.allowedGetitemTypes ∧ n ∈ builtinContainers) := by
  cases ty with
  | builtin n =>
    by_cases hmem : n ∈ C13.allowedGetitemTypes
    · have hn := hmem
      refine ⟨?_, fun _ => ⟨n, rfl, hmem, allowed_getitem_types_are_builtin_containers n hmem⟩⟩
      simp [pySimpleGetitem, cfgWith, C13.getitemRefuses, tyIn, hmem, subscriptEvents]
    · simp [pySimpleGetitem, cfgWith, C13.getitemRefuses, tyIn, hmem]
  | user u => simp [pySimpleGetitem, cfgWith, C13.getitemRefuses, tyIn]

example : pySimpleGetitem genCfg (.builtin "dict") true = (true, []) := by decide
example : pySimpleGetitem genCfg (.user ⟨1, true, false, false, false, false⟩) true = (false, []) := by decide
/-- unsafe mode does run it (the events are not vacuous) -/
theorem unsafe_getitem_witness :
    pySimpleGetitem genCfg (.user ⟨1, true, false, false, false, false⟩) false = (true, [.getitem]) := by
  decide

/-- FULL: `MixedObject.py__simple_getitem__` reaches the live object only for the listed builtin
types, in either mode -/
theorem mixed_getitem_only_builtin (m i b : Bool) (ty : Ty) (allowUnsafe : Bool) :
    (mixedSimpleGetitem (cfgWith m i b) ty allowUnsafe).2 = [] ∧
    ((mixedSimpleGetitem (cfgWith m i b) ty allowUnsafe).1 = true →
      ∃ n, ty = .builtin n ∧ n ∈ C13.allowedGetitemTypes) := by
  cases ty with
  | builtin n =>
    by_cases hmem : n ∈ C13.allowedGetitemTypes
    · have hn := hmem
      refine ⟨?_, fun _ => ⟨n, rfl, hmem⟩⟩
      cases allowUnsafe <;>
        simp [mixedSimpleGetitem, pySimpleGetitem, cfgWith, C13.getitemRefuses,
          C13.mixedGetitemUsesCompiled, tyIn, hmem, subscriptEvents]
    · simp [mixedSimpleGetitem, cfgWith, C13.mixedGetitemUsesCompiled, tyIn, hmem]
  | user u => simp [mixedSimpleGetitem, cfgWith, C13.mixedGetitemUsesCompiled, tyIn]

/-- FULL (either mode — the function has no `safe` switch): `py__iter__list` iterates the live
object only if its exact type is a listed builtin container; the only user code it can run is a
user `__get__` met while fetching the attribute `__iter__` itself. -/
theorem safe_no_item_iter_iterlist (m i b : Bool) (ty : Ty) (ia : GetResult) (ann : Bool) :
    (∀ ev ∈ (pyIterList (cfgWith m i b) ty ia ann).2, ∃ id ∈ ia.trace, ev = .get id) ∧
    ((pyIterList (cfgWith m i b) ty ia ann).1 = .items →
      ∃ n, ty = .builtin n ∧ n ∈ C13.allowedGetitemTypes) := by
  unfold pyIterList
  cases hf : ia.found with
  | none => simp
  | some e =>
    cases ann
    · cases ty with
      | builtin n =>
        by_cases hmem : n ∈ C13.allowedGetitemTypes
        · have hn := hmem
          simp [cfgWith, C13.iterListRefuses, tyIn, hmem, loopEvents]
        · simp [cfgWith, C13.iterListRefuses, tyIn, hmem]
      | user u => simp [cfgWith, C13.iterListRefuses, tyIn]
    · simp

example : pyIterList genCfg (.builtin "list") ⟨some ⟨"__iter__", .plain, 1⟩, true, []⟩ false = (.items, []) := by
  decide
example : pyIterList genCfg (.user ⟨1, false, true, true, false, false⟩)
    ⟨some ⟨"__iter__", .plain, 1⟩, true, []⟩ false = (.refused, []) := by decide

/- FULL (false on the code as it is, see witness):
   theorem safe_no_item_iter_pyiter (ty : Ty) (ia : GetResult) (ann : Bool) :
     ∀ ev ∈ compiledPyIter genCfg ty ia ann, ev.isProtocol = false                         -/

/-- `CompiledValue.py__iter__` = `has_iter()` + `py__iter__list()`.  If `has_iter` does not call
`iter(obj)`, iterating a compiled value runs no user `__iter__` / `__next__` / `__getitem__`. -/
theorem safe_no_item_iter_pyiter_of_static_has_iter (m b : Bool) (ty : Ty) (ia : GetResult) (ann : Bool) :
    ∀ ev ∈ compiledPyIter (cfgWith m false b) ty ia ann, ev.isProtocol = false := by
  intro ev hev
  unfold compiledPyIter hasIter at hev
  simp only [cfgWith, Bool.false_eq_true, if_false, List.nil_append] at hev
  obtain ⟨id, _, rfl⟩ := (safe_no_item_iter_iterlist m false b ty ia ann).1 ev hev
  rfl

/-- PARTIAL for the code as it is (`has_iter` calls `iter(obj)`): holds for objects whose type
has no user-defined `__iter__`. -/
theorem safe_no_item_iter_pyiter_partial (m i b : Bool) (ty : Ty) (ia : GetResult) (ann : Bool)
    (h : iterCallEvents ty = []) :
    ∀ ev ∈ compiledPyIter (cfgWith m i b) ty ia ann, ev.isProtocol = false := by
  intro ev hev
  unfold compiledPyIter hasIter at hev
  rw [h, List.append_nil] at hev
  rcases List.mem_append.mp hev with h1 | h2
  · split at h1
    · obtain ⟨id, _, rfl⟩ := List.mem_map.mp h1
      rfl
    · cases h1
  · obtain ⟨id, _, rfl⟩ := (safe_no_item_iter_iterlist m i b ty ia ann).1 ev h2
    rfl

/-- counter-witness while `has_iter` calls `iter(obj)`: `for x in obj` on an instance of a class
with a user `__iter__` runs it, whatever the mode. -/
theorem safe_no_item_iter_pyiter_counter (m b : Bool) :
    compiledPyIter (cfgWith m true b) (.user ⟨1, false, true, false, false, false⟩)
      ⟨some ⟨"__iter__", .builtinDescr "function" false, 5⟩, true, []⟩ false = [.iter] := by
  cases m <;> cases b <;> decide

/- FULL (false on the code as it is, see witness):
   theorem safe_no_bool_len (ty : Ty) : pyBool genCfg ty = []                                -/

theorem safe_no_bool_len_of_guarded (m i : Bool) (ty : Ty) : pyBool (cfgWith m i false) ty = [] := by
  simp [pyBool, cfgWith]

theorem safe_no_bool_len_partial (m i b : Bool) (ty : Ty) (h : boolCallEvents ty = []) :
    pyBool (cfgWith m i b) ty = [] := by
  unfold pyBool; split <;> simp [h]

example : boolCallEvents (.builtin "list") = [] := rfl

/-- counter-witness while `py__bool__` is `bool(obj)`: `obj or 1` / `if obj:` run a user
`__bool__` (or `__len__`). -/
theorem safe_no_bool_len_counter (m i : Bool) :
    pyBool (cfgWith m i true) (.user ⟨1, false, false, false, true, false⟩) = [.bool] ∧
    pyBool (cfgWith m i true) (.user ⟨1, false, false, false, false, true⟩) = [.len] := by
  cases m <;> cases i <;> decide

/-! ## completions are a superset of `dir(obj)` -/

/-- FULL, either mode, instance or not: every name of `dir(obj)` is offered by
`CompiledValueFilter.values()` — the table can empty a name, it never drops one. -/
theorem dir_superset (m i b : Bool) (infos : List DirInfo) (allowUnsafe isInstance : Bool) :
    ∀ info ∈ infos, info.name ∈ filterValues (cfgWith m i b) infos allowUnsafe isInstance := by
  intro info hmem
  unfold filterValues
  rw [List.mem_flatMap]
  refine ⟨info, hmem, ?_⟩
  cases h1 : info.has <;> cases h2 : info.isDescr <;> cases h3 : info.annPresent <;>
    cases h4 : info.annValues <;> cases allowUnsafe <;> cases isInstance <;>
    simp [filterGet, cfgWith, C13.getAbsentCond, C13.getEmptyCond, C13.getNotInDirCond]

/-- … and offers nothing else -/
theorem values_subset_dir (m i b : Bool) (infos : List DirInfo) (allowUnsafe isInstance : Bool) :
    ∀ n ∈ filterValues (cfgWith m i b) infos allowUnsafe isInstance, n ∈ infos.map (·.name) := by
  intro n hn
  unfold filterValues at hn
  rw [List.mem_flatMap] at hn
  obtain ⟨info, hmem, hin⟩ := hn
  rw [List.mem_map]
  refine ⟨info, hmem, ?_⟩
  split at hin <;> simp_all

example : filterValues genCfg [⟨"p", true, true, false, false⟩, ⟨"x", true, false, false, false⟩] false true
    = ["p", "x"] := by decide

/-! ## the same, spelled out for the source as it is (`genCfg`) -/

theorem safe_no_user_get_gen (t : Target) (a : String) (isInstance inDir dynHas annValues : Bool)
    (hi : t.isType = false) :
    (filterGetInfer genCfg t a false isInstance inDir dynHas annValues).2 = [] :=
  safe_no_user_get _ _ _ t a isInstance inDir dynHas annValues hi

theorem safe_no_user_get_class_partial_gen (t : Target) (a : String)
    (isInstance inDir dynHas annValues : Bool) (hi : t.isType = true)
    (hmeta : ∀ e, mroLookup t.metaMro a = some e → e.tag.userGet = false) :
    (filterGetInfer genCfg t a false isInstance inDir dynHas annValues).2 = [] :=
  safe_no_user_get_class_partial _ _ _ t a isInstance inDir dynHas annValues hi hmeta

theorem safe_no_item_iter_gen (ty : Ty) (ia : GetResult) (ann : Bool) :
    (pySimpleGetitem genCfg ty true).2 = [] ∧
    ((pySimpleGetitem genCfg ty true).1 = true → ∃ n, ty = .builtin n ∧ n ∈ C13.allowedGetitemTypes) ∧
    (∀ ev ∈ (pyIterList genCfg ty ia ann).2, ∃ id ∈ ia.trace, ev = .get id) ∧
    ((pyIterList genCfg ty ia ann).1 = .items → ∃ n, ty = .builtin n ∧ n ∈ C13.allowedGetitemTypes) := by
  have h1 := safe_no_item_iter_getitem C13.metaHitReportsGet C13.hasIterExecutes C13.boolExecutes ty
  have h2 := safe_no_item_iter_iterlist C13.metaHitReportsGet C13.hasIterExecutes C13.boolExecutes ty ia ann
  refine ⟨h1.1, ?_, h2.1, h2.2⟩
  intro h
  obtain ⟨n, hn, hm, _⟩ := h1.2 h
  exact ⟨n, hn, hm⟩

theorem dir_superset_gen (infos : List DirInfo) (allowUnsafe isInstance : Bool) :
    ∀ info ∈ infos, info.name ∈ filterValues genCfg infos allowUnsafe isInstance :=
  dir_superset _ _ _ infos allowUnsafe isInstance

end JediModel.Props.C13

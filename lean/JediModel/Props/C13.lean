import JediModel.Gen.C13
import JediModel.Lemmas.ObjModel
/-! # C13 — Interpreter reflects live objects; safe mode runs no user descriptors

Property theorems only.  The model (`Model/ObjModel`) is instantiated with the tables and guard
expressions the translator extracted from the source (`Gen.C13`).  Three facts about the shape of
the source decide whether the FULL statement can hold at all; they are flags of the configuration
(`cfgWith meta hasIter bool`), the translator reports their current values and the theorems are
stated for both values, so that they stay checkable before and after a fix:

* `metaHitReportsGet`  — `getattr_static` reports `__get__` of a hit found on the metaclass
* `hasIterExecutes`    — `has_iter` calls `iter(obj)`
* `boolExecutes`       — `py__bool__` calls `bool(obj)` -/
namespace JediModel.Props.C13
open JediModel.ObjModel
open JediModel.Gen

/-- the configuration read from the source, with the three shape flags left open -/
def cfgWith (metaFlag hasIterFlag boolFlag : Bool) : Cfg :=
  { allowedDescr := C13.allowedDescriptorAccess
    allowedGetitem := C13.allowedGetitemTypes
    isDescriptorCond := C13.isDescriptorCond
    getAbsentCond := C13.getAbsentCond
    getEmptyCond := C13.getEmptyCond
    getNotInDirCond := C13.getNotInDirCond
    getitemRefuses := C13.getitemRefuses
    iterListRefuses := C13.iterListRefuses
    mixedUsesCompiled := C13.mixedGetitemUsesCompiled
    metaHitReportsGet := metaFlag
    hasIterExecutes := hasIterFlag
    boolExecutes := boolFlag }

/-- the source as it is -/
def genCfg : Cfg := cfgWith C13.metaHitReportsGet C13.hasIterExecutes C13.boolExecutes

/-- the builtin container types whose `[]` / iteration run no user code (their exact type) -/
def builtinContainers : List String :=
  ["str", "list", "tuple", "bytes", "bytearray", "dict", "set", "frozenset", "range"]

/-! ## the static lookup -/

/-- `getattr_static` hands out objects stored in the instance `__dict__`, in a class `__dict__`
along the MRO, or in a metaclass `__dict__` — never the result of a `__get__` call.  (In the
model the function has no trace component at all: it only reads dictionaries.) -/
theorem static_lookup_is_static (cfg : Cfg) (t : Target) (a : String) (e : Entry) (g : Bool)
    (h : getattrStatic cfg t a = some (e, g)) :
    e.name = a ∧ ((∃ d, t.inst = some d ∧ e ∈ d) ∨ (∃ d ∈ t.mro, e ∈ d) ∨ (∃ d ∈ t.metaMro, e ∈ d)) := by
  unfold getattrStatic at h
  simp only at h
  have hinst : ∀ i, (if t.isType = true then none
      else if instanceDictReadable t.mro = true then t.inst.bind fun x => findIn x a else none) = some i →
      i.name = a ∧ ∃ d, t.inst = some d ∧ i ∈ d := by
    intro i hi
    split at hi
    · cases hi
    · split at hi
      · cases hd : t.inst with
        | none => simp [hd] at hi
        | some d =>
          simp only [hd, Option.bind_some] at hi
          exact ⟨(findIn_mem hi).2, d, rfl, (findIn_mem hi).1⟩
      · cases hi
  generalize (if t.isType = true then none
      else if instanceDictReadable t.mro = true then t.inst.bind fun x => findIn x a else none) = instR at h hinst
  cases instR with
  | some i =>
    have hi' := hinst i rfl
    cases hk : mroLookup t.mro a with
    | some k =>
      have hk' := mroLookup_mem hk
      simp only [hk] at h
      split at h <;> cases h
      · exact ⟨hk'.2, Or.inr (Or.inl hk'.1)⟩
      · exact ⟨hi'.1, Or.inl hi'.2⟩
    | none =>
      simp only [hk] at h
      cases h
      exact ⟨hi'.1, Or.inl hi'.2⟩
  | none =>
    cases hk : mroLookup t.mro a with
    | some k =>
      have hk' := mroLookup_mem hk
      simp only [hk] at h
      cases h
      exact ⟨hk'.2, Or.inr (Or.inl hk'.1)⟩
    | none =>
      simp only [hk] at h
      split at h
      · cases hm : mroLookup t.metaMro a with
        | none => simp [hm] at h
        | some m =>
          simp only [hm, Option.map_some, Option.some.injEq, Prod.mk.injEq] at h
          have hm' := mroLookup_mem hm
          rw [← h.1]
          exact ⟨hm'.2, Or.inr (Or.inr hm'.1)⟩
      · cases h

example : getattrStatic genCfg
    { isType := false, inst := some [⟨"x", .plain, 1⟩], mro := [[⟨"x", .prop false, 2⟩]], metaMro := [] } "x"
    = some (⟨"x", .prop false, 2⟩, true) := by decide

/-- For instances the static lookup chooses exactly the entry CPython's `getattr` chooses
(`hd`: the instance `__dict__` is not shadowed by a class attribute named `__dict__`). -/
theorem static_agrees_on_entry (cfg : Cfg) (t : Target) (a : String)
    (hi : t.isType = false) (hd : instanceDictReadable t.mro = true) :
    (getattrStatic cfg t a).map (·.1) = (pyGetattr t a).found := by
  unfold getattrStatic pyGetattr pyGetattrInstance
  simp only [hi, hd, if_true, Bool.false_eq_true, if_false]
  cases hk : mroLookup t.mro a <;> cases hin : t.inst.bind (findIn · a) <;>
    simp [GetResult.miss, GetResult.direct, GetResult.invoke]
  · rename_i k
    by_cases hg : k.tag.hasGet = true <;> by_cases hs : k.tag.hasSet = true <;>
      simp [hg, hs, GetResult.direct, GetResult.invoke]
  · rename_i k i
    by_cases hg : k.tag.hasGet = true <;> by_cases hs : k.tag.hasSet = true <;>
      simp [hg, hs, GetResult.direct, GetResult.invoke]

example : instanceDictReadable [[⟨"p", .getData, 2⟩], [⟨"__dict__", .builtinDescr "getset_descriptor" true, 3⟩]]
    = true := by decide

/-- For classes the same holds when no *data descriptor of the metaclass* carries the name. -/
theorem static_agrees_on_entry_class_partial (cfg : Cfg) (t : Target) (a : String)
    (hi : t.isType = true)
    (hm : ∀ m, mroLookup t.metaMro a = some m → (m.tag.hasGet && m.tag.hasSet) = false) :
    (getattrStatic cfg t a).map (·.1) = (pyGetattr t a).found := by
  unfold getattrStatic pyGetattr pyGetattrType
  simp only [hi, if_true]
  cases hk : mroLookup t.mro a <;> cases hmm : mroLookup t.metaMro a
  · simp [GetResult.miss]
  · rename_i m
    have := hm m hmm
    cases hg : m.tag.hasGet <;> simp_all [GetResult.direct, GetResult.invoke]
  · rename_i k
    cases hg : k.tag.hasGet <;> simp [hg, GetResult.direct, GetResult.invokeNoInstance]
  · rename_i k m
    have := hm m hmm
    cases hg : k.tag.hasGet <;> cases hg2 : m.tag.hasGet <;>
      simp_all [GetResult.direct, GetResult.invokeNoInstance]

/- FULL (false, see witness): `static_agrees_on_entry` for classes without `hm`. -/
/-- counter-witness: class attribute `p = 1`, metaclass property `p`: `getattr(A, 'p')` runs the
metaclass property, the static lookup answers the class attribute. -/
theorem static_agrees_on_entry_class_counter :
    ∃ (t : Target) (a : String), t.isType = true ∧
      (getattrStatic genCfg t a).map (·.1) ≠ (pyGetattr t a).found :=
  ⟨{ isType := true, inst := none, mro := [[⟨"p", .plain, 1⟩]], metaMro := [[⟨"p", .prop false, 2⟩]] },
   "p", by decide⟩

/-! ## safe mode runs no user `__get__` through attribute names -/

/-- The decision table: in safe mode a *real* name (one whose inference is `getattr(obj, name)`)
is produced only for an attribute that exists and is not flagged as a descriptor. -/
theorem get_real_only_if_plain (m i b : Bool)
    (has isDescr annP annV checkHas isInstance inDir d : Bool)
    (h : filterGet (cfgWith m i b) has isDescr annP annV checkHas false isInstance inDir = .realName d) :
    has = true ∧ isDescr = false ∧ d = false := by
  cases has <;> cases isDescr <;> cases annP <;> cases annV <;> cases checkHas <;> cases isInstance <;>
    cases inDir <;>
    simp [filterGet, cfgWith, C13.getAbsentCond, C13.getEmptyCond, C13.getNotInDirCond] at h ⊢ <;>
    first | exact h | exact h.symm

example : filterGet genCfg true false false false true false true true = .realName false := by decide

/-- whenever CPython's lookup on an instance runs a user `__get__`, `is_allowed_getattr` flags the
name as a descriptor (second component) — in either mode -/
theorem flagged_of_trace (m i b : Bool) (t : Target) (a : String) (safe dynHas : Bool)
    (hi : t.isType = false) (h : (pyGetattr t a).trace ≠ []) :
    (isAllowedGetattr (cfgWith m i b) t a safe dynHas).2.1 = true := by
  have hprop : C13.allowedDescriptorAccess.contains "property" = false := by decide
  have key : ∀ k : Entry, k.tag.userGet = true →
      (cfgWith m i b).isDescriptorCond k.tag.hasGet (typeIn (cfgWith m i b).allowedDescr k.tag) = true := by
    intro k hk
    have h1 := Tag.hasGet_of_userGet hk
    have h2 : typeIn C13.allowedDescriptorAccess k.tag = false := typeIn_of_userGet hk hprop
    simp [cfgWith, C13.isDescriptorCond, h1, h2]
  unfold pyGetattr pyGetattrInstance at h
  unfold isAllowedGetattr getattrStatic
  simp only [hi, Bool.false_eq_true, if_false] at h ⊢
  generalize t.inst.bind (findIn · a) = ib at h ⊢
  generalize instanceDictReadable t.mro = rd
  cases hk : mroLookup t.mro a with
  | none => cases ib <;> simp [hk, GetResult.miss, GetResult.direct] at h
  | some k =>
    simp only [hk] at h
    by_cases hu : k.tag.userGet = true
    · have hkey := key k hu
      have hg := Tag.hasGet_of_userGet hu
      cases ib <;> cases rd <;> cases hs : k.tag.hasSet <;>
        simp_all [GetResult.direct, GetResult.invoke]
    · exfalso
      cases ib <;> cases hg : k.tag.hasGet <;> cases hs : k.tag.hasSet <;>
        simp_all [GetResult.direct, GetResult.invoke]

/-- FULL for instances, every flag value: with `allow_unsafe_executions = False`, getting a name
from the filter of an instance and inferring it calls no user-defined `__get__` — property getter,
data or non-data descriptor, on the class or any of its bases. -/
theorem safe_no_user_get (m i b : Bool) (t : Target) (a : String)
    (isInstance inDir dynHas annValues : Bool) (hi : t.isType = false) :
    (filterGetInfer (cfgWith m i b) t a false isInstance inDir dynHas annValues).2 = [] := by
  unfold filterGetInfer
  simp only
  split
  · rename_i d hout
    simp only
    unfold filterGetOutcome at hout
    have hf := flagged_of_trace m i b t a (!false) dynHas hi
    generalize isAllowedGetattr (cfgWith m i b) t a (!false) dynHas = r at hout hf
    obtain ⟨has, isDescr, ann⟩ := r
    simp only at hout hf
    have hreal := get_real_only_if_plain m i b has isDescr ann annValues true isInstance inDir d hout
    by_cases htr : (pyGetattr t a).trace = []
    · exact htr
    · have := hf htr
      simp [hreal.2.1] at this
  · rfl

end JediModel.Props.C13

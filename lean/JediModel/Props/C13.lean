import JediModel.Model.ObjCfg
import JediModel.Lemmas.ObjModel
/-! # C13 — Interpreter reflects live objects; safe mode runs no user descriptors

Property theorems only.  The model (`Model/ObjModel`) is instantiated with the tables and guard
expressions the translator extracted from the source (`genCfg`, `Model/ObjCfg`); the hand-written
parts of the model (`getattrStatic`, `hasIter`, `pyIterList`) transcribe functions whose exact
shape the translator checks (TieBroken otherwise).

All statements are FULL.  The three defects that used to restrict them — a data descriptor of the
metaclass shadowing a class attribute in `getattr_static`, `has_iter` calling `iter(obj)`,
`py__bool__` calling `bool(obj)` on any object — are repaired in the source; the inputs that were
kernel-checked counter-witnesses are now kernel-checked witnesses of the repaired behaviour
(`…_meta_shadow_refused`, `…_user_iter_not_run`, `…_user_bool_len_not_run`). -/
namespace JediModel.Props.C13
open JediModel.ObjModel
open JediModel.Gen

/-- the builtin container types whose `[]` / iteration run no user code (their exact type) -/
def builtinContainers : List String :=
  ["str", "list", "tuple", "bytes", "bytearray", "dict", "set", "frozenset", "range"]

/-! ## the static lookup -/

/-- `getattr_static` hands out objects stored in the instance `__dict__`, in a class `__dict__`
along the MRO, or in a metaclass `__dict__` — never the result of a `__get__` call.  (In the
model the function has no trace component at all: it only reads dictionaries.) -/
theorem static_lookup_is_static (t : Target) (a : String) (e : Entry) (g : Bool)
    (h : getattrStatic t a = some (e, g)) :
    e.name = a ∧ ((∃ d, t.inst = some d ∧ e ∈ d) ∨ (∃ d ∈ t.mro, e ∈ d) ∨ (∃ d ∈ t.metaMro, e ∈ d)) := by
  unfold getattrStatic at h
  simp only at h
  have hinst : ∀ i, (if t.isType = true then none
      else if instanceDictReadable t.mro = true then t.inst.bind fun x => findIn x a else none) = some i →
      i.name = a ∧ ∃ d, t.inst = some d ∧ i ∈ d := by
    intro i hi
    split at hi
    · cases hi
    · split at hi
      · cases hd : t.inst with
        | none => simp [hd] at hi
        | some d =>
          simp only [hd, Option.bind_some] at hi
          exact ⟨(findIn_mem hi).2, d, rfl, (findIn_mem hi).1⟩
      · cases hi
  have hmeta : ∀ m, (if t.isType = true then mroLookup t.metaMro a else none) = some m →
      m.name = a ∧ ∃ d ∈ t.metaMro, m ∈ d := by
    intro m hm
    split at hm
    · exact ⟨(mroLookup_mem hm).2, (mroLookup_mem hm).1⟩
    · cases hm
  have hklass : ∀ k, mroLookup t.mro a = some k → k.name = a ∧ ∃ d ∈ t.mro, k ∈ d :=
    fun k hk => ⟨(mroLookup_mem hk).2, (mroLookup_mem hk).1⟩
  generalize (if t.isType = true then none
      else if instanceDictReadable t.mro = true then t.inst.bind fun x => findIn x a else none) = instR
    at h hinst
  generalize (if t.isType = true then mroLookup t.metaMro a else none) = metaR at h hmeta
  generalize mroLookup t.mro a = klassR at h hklass
  have fin_i : ∀ i, instR = some i → e = i →
      e.name = a ∧ ((∃ d, t.inst = some d ∧ e ∈ d) ∨ (∃ d ∈ t.mro, e ∈ d) ∨ (∃ d ∈ t.metaMro, e ∈ d)) :=
    fun i hi he => by subst he; exact ⟨(hinst _ hi).1, Or.inl (hinst _ hi).2⟩
  have fin_k : ∀ k, klassR = some k → e = k →
      e.name = a ∧ ((∃ d, t.inst = some d ∧ e ∈ d) ∨ (∃ d ∈ t.mro, e ∈ d) ∨ (∃ d ∈ t.metaMro, e ∈ d)) :=
    fun k hk he => by subst he; exact ⟨(hklass _ hk).1, Or.inr (Or.inl (hklass _ hk).2)⟩
  have fin_m : ∀ m, metaR = some m → e = m →
      e.name = a ∧ ((∃ d, t.inst = some d ∧ e ∈ d) ∨ (∃ d ∈ t.mro, e ∈ d) ∨ (∃ d ∈ t.metaMro, e ∈ d)) :=
    fun m hm he => by subst he; exact ⟨(hmeta _ hm).1, Or.inr (Or.inr (hmeta _ hm).2)⟩
  cases instR <;> cases klassR <;> cases metaR <;> simp only [Option.map_some, Option.map_none] at h
  all_goals first
    | (cases h; done)
    | (simp only [Option.some.injEq, Prod.mk.injEq] at h
       first
        | exact fin_i _ rfl h.1.symm
        | exact fin_k _ rfl h.1.symm
        | exact fin_m _ rfl h.1.symm)
    | (split at h <;> (try split at h) <;> simp only [Option.some.injEq, Prod.mk.injEq] at h <;>
        first
        | exact fin_i _ rfl h.1.symm
        | exact fin_k _ rfl h.1.symm
        | exact fin_m _ rfl h.1.symm)

example : getattrStatic
    { isType := false, inst := some [⟨"x", .plain, 1⟩], mro := [[⟨"x", .prop false, 2⟩]], metaMro := [] } "x"
    = some (⟨"x", .prop false, 2⟩, true) := by decide

/-- For instances the static lookup chooses exactly the entry CPython's `getattr` chooses
(`hd`: the instance `__dict__` is not shadowed by a class attribute named `__dict__`). -/
theorem static_agrees_on_entry (t : Target) (a : String)
    (hi : t.isType = false) (hd : instanceDictReadable t.mro = true) :
    (getattrStatic t a).map (·.1) = (pyGetattr t a).found := by
  unfold getattrStatic pyGetattr pyGetattrInstance
  simp only [hi, hd, if_true, Bool.false_eq_true, if_false]
  cases hk : mroLookup t.mro a <;> cases hin : t.inst.bind (findIn · a) <;>
    simp [GetResult.miss, GetResult.direct, GetResult.invoke]
  · rename_i k
    by_cases hg : k.tag.hasGet = true <;> by_cases hs : k.tag.hasSet = true <;>
      simp [hg, hs]
  · rename_i k i
    by_cases hg : k.tag.hasGet = true <;> by_cases hs : k.tag.hasSet = true <;>
      simp [hg, hs]

example : instanceDictReadable [[⟨"p", .getData, 2⟩], [⟨"__dict__", .builtinDescr "getset_descriptor" true, 3⟩]]
    = true := by decide

/-- FULL for classes: the static lookup chooses exactly the entry `type.__getattribute__`
chooses — class attribute, base class attribute, metaclass attribute, and the metaclass data
descriptor that takes priority over a class attribute of the same name. -/
theorem static_agrees_on_entry_class (t : Target) (a : String) (hi : t.isType = true) :
    (getattrStatic t a).map (·.1) = (pyGetattr t a).found := by
  unfold getattrStatic pyGetattr pyGetattrType
  simp only [hi, if_true]
  cases hk : mroLookup t.mro a <;> cases hmm : mroLookup t.metaMro a
  · simp [GetResult.miss]
  · rename_i m
    cases hg : m.tag.hasGet <;> cases hs : m.tag.hasSet <;> simp [hg, hs, GetResult.direct, GetResult.invoke]
  · rename_i k
    cases hg : k.tag.hasGet <;> simp [hg, GetResult.direct, GetResult.invokeNoInstance]
  · rename_i k m
    cases hg : k.tag.hasGet <;> cases hg2 : m.tag.hasGet <;> cases hs : m.tag.hasSet <;>
      simp [hg, hg2, hs, GetResult.direct, GetResult.invoke, GetResult.invokeNoInstance]

example : (pyGetattr
    { isType := true, inst := none, mro := [[⟨"p", .plain, 1⟩]], metaMro := [[⟨"p", .getNonData, 2⟩]] }
    "p").found = some ⟨"p", .plain, 1⟩ := by decide

/-- the former counter-witness — class attribute `p = 1`, metaclass property `p` —:
`getattr(A, 'p')` runs the metaclass property and the static lookup now answers that property,
flagged as a get-descriptor. -/
theorem static_agrees_on_entry_class_meta_shadow :
    getattrStatic
      { isType := true, inst := none, mro := [[⟨"p", .plain, 1⟩]], metaMro := [[⟨"p", .prop false, 2⟩]] }
      "p" = some (⟨"p", .prop false, 2⟩, true) ∧
    pyGetattr
      { isType := true, inst := none, mro := [[⟨"p", .plain, 1⟩]], metaMro := [[⟨"p", .prop false, 2⟩]] }
      "p" = ⟨some ⟨"p", .prop false, 2⟩, true, [2]⟩ := by
  decide

/-! ## safe mode runs no user `__get__` through attribute names -/

/-- The decision table: in safe mode a *real* name (one whose inference is `getattr(obj, name)`)
is produced only for an attribute that exists and is not flagged as a descriptor. -/
theorem get_real_only_if_plain (has isDescr annP annV checkHas isInstance inDir d : Bool)
    (h : filterGet genCfg has isDescr annP annV checkHas false isInstance inDir = .realName d) :
    has = true ∧ isDescr = false ∧ d = false := by
  cases has <;> cases isDescr <;> cases annP <;> cases annV <;> cases checkHas <;> cases isInstance <;>
    cases inDir <;>
    simp [filterGet, genCfg, C13.getAbsentCond, C13.getEmptyCond, C13.getNotInDirCond] at h ⊢ <;>
    first | exact h | exact h.symm

example : filterGet genCfg true false false false true false true true = .realName false := by decide

/-- an entry with a user `__get__` is flagged by `is_allowed_getattr` once the static lookup
reports `__get__` for it -/
theorem descriptorCond_of_userGet (k : Entry) (hk : k.tag.userGet = true) :
    genCfg.isDescriptorCond k.tag.hasGet (typeIn genCfg.allowedDescr k.tag) = true := by
  have hprop : C13.allowedDescriptorAccess.contains "property" = false := by decide
  have h1 := Tag.hasGet_of_userGet hk
  have h2 : typeIn C13.allowedDescriptorAccess k.tag = false := typeIn_of_userGet hk hprop
  simp [genCfg, C13.isDescriptorCond, h1, h2]

example : (⟨"p", .prop false, 2⟩ : Entry).tag.userGet = true := rfl

/-- whenever CPython's lookup on an instance runs a user `__get__`, `is_allowed_getattr` flags the
name as a descriptor (second component) — in either mode -/
theorem flagged_of_trace (t : Target) (a : String) (safe dynHas : Bool)
    (hi : t.isType = false) (h : (pyGetattr t a).trace ≠ []) :
    (isAllowedGetattr genCfg t a safe dynHas).2.1 = true := by
  have key := descriptorCond_of_userGet
  unfold pyGetattr pyGetattrInstance at h
  unfold isAllowedGetattr getattrStatic
  simp only [hi, Bool.false_eq_true, if_false] at h ⊢
  generalize t.inst.bind (findIn · a) = ib at h ⊢
  generalize instanceDictReadable t.mro = rd
  cases hk : mroLookup t.mro a with
  | none => cases ib <;> simp [hk, GetResult.miss, GetResult.direct] at h
  | some k =>
    simp only [hk] at h
    by_cases hu : k.tag.userGet = true
    · have hkey := key k hu
      have hg := Tag.hasGet_of_userGet hu
      cases ib <;> cases rd <;> cases hs : k.tag.hasSet <;>
        simp_all [GetResult.direct, GetResult.invoke]
    · exfalso
      cases ib <;> cases hg : k.tag.hasGet <;> cases hs : k.tag.hasSet <;>
        simp_all [GetResult.direct, GetResult.invoke]

example : (pyGetattr
    { isType := false, inst := some [], mro := [[⟨"p", .prop false, 2⟩]], metaMro := [] } "p").trace = [2] := by
  decide

/-- FULL for instances: with `allow_unsafe_executions = False`, getting a name from the filter of
an instance and inferring it calls no user-defined `__get__` — property getter, data or non-data
descriptor, on the class or any of its bases. -/
theorem safe_no_user_get (t : Target) (a : String)
    (isInstance inDir dynHas annValues : Bool) (hi : t.isType = false) :
    (filterGetInfer genCfg t a false isInstance inDir dynHas annValues).2 = [] := by
  unfold filterGetInfer
  simp only
  split
  · rename_i d hout
    simp only
    unfold filterGetOutcome at hout
    have hf := flagged_of_trace t a (!false) dynHas hi
    generalize isAllowedGetattr genCfg t a (!false) dynHas = r at hout hf
    obtain ⟨has, isDescr, ann⟩ := r
    simp only at hout hf
    have hreal := get_real_only_if_plain has isDescr ann annValues true isInstance inDir d hout
    by_cases htr : (pyGetattr t a).trace = []
    · exact htr
    · have := hf htr
      simp [hreal.2.1] at this
  · rfl

example : (filterGetInfer genCfg
    { isType := false, inst := some [], mro := [[⟨"p", .prop false, 2⟩, ⟨"x", .plain, 3⟩]], metaMro := [] }
    "p" false true true false false) = (.emptyName, []) := by decide

/-- and in unsafe mode the same query does run the getter (the model's trace is not vacuous) -/
theorem unsafe_runs_getter_witness : (filterGetInfer genCfg
    { isType := false, inst := some [], mro := [[⟨"p", .prop false, 2⟩, ⟨"x", .plain, 3⟩]], metaMro := [] }
    "p" true true true false false) = (.realName true, [2]) := by decide

/-! ### classes: attributes found on the class, its bases, the metaclass -/

/-- whenever `type.__getattribute__` runs a user `__get__` for a class — of an attribute of the
class, of a base, or of the metaclass — `is_allowed_getattr` flags the name -/
theorem flagged_of_trace_class (t : Target) (a : String) (safe dynHas : Bool)
    (hi : t.isType = true) (h : (pyGetattr t a).trace ≠ []) :
    (isAllowedGetattr genCfg t a safe dynHas).2.1 = true := by
  have key := descriptorCond_of_userGet
  unfold pyGetattr pyGetattrType at h
  unfold isAllowedGetattr getattrStatic
  simp only [hi, if_true] at h ⊢
  cases hm : mroLookup t.metaMro a with
  | none =>
    cases hk : mroLookup t.mro a with
    | none => simp [hk, hm, GetResult.miss] at h
    | some k =>
      simp only [hk, hm] at h
      by_cases hu : k.tag.userGetNoInstance = true
      · have hkey := key k (Tag.userGet_of_userGetNoInstance hu)
        simp only
        rw [if_pos hkey]
      · exfalso
        cases hg : k.tag.hasGet <;> simp_all [GetResult.direct, GetResult.invokeNoInstance]
  | some me =>
    cases hk : mroLookup t.mro a with
    | none =>
      simp only [hk, hm] at h
      by_cases hu : me.tag.userGet = true
      · have hkey := key me hu
        have hg := Tag.hasGet_of_userGet hu
        simp only [Option.map_some]
        rw [hg] at hkey ⊢
        rw [if_pos hkey]
      · exfalso
        cases hg : me.tag.hasGet <;> cases hs : me.tag.hasSet <;>
          simp_all [GetResult.direct, GetResult.invoke]
    | some k =>
      simp only [hk, hm] at h
      cases hd : (me.tag.hasGet && me.tag.hasSet) with
      | true =>
        have hu : me.tag.userGet = true := by
          by_cases hu : me.tag.userGet = true
          · exact hu
          · exfalso; simp_all [GetResult.invoke]
        have hkey := key me hu
        have hg := Tag.hasGet_of_userGet hu
        rw [hg] at hkey
        simp only [hd, if_true]
        rw [if_pos hkey]
      | false =>
        simp only [hd, Bool.false_eq_true, if_false] at h ⊢
        by_cases hu : k.tag.userGetNoInstance = true
        · have hkey := key k (Tag.userGet_of_userGetNoInstance hu)
          rw [if_pos hkey]
        · exfalso
          cases hg : k.tag.hasGet <;> simp_all [GetResult.direct, GetResult.invokeNoInstance]

example : (pyGetattr
    { isType := true, inst := none, mro := [[⟨"x", .plain, 1⟩]], metaMro := [[⟨"mp", .prop false, 2⟩]] }
    "mp").trace = [2] := by decide

/-- FULL for classes: no user `__get__` runs in safe mode, whether the name is an attribute of the
class itself, of one of its bases, or a property / data / non-data descriptor **of the metaclass**
(also one that shadows a class attribute of the same name). -/
theorem safe_no_user_get_class (t : Target) (a : String)
    (isInstance inDir dynHas annValues : Bool) (hi : t.isType = true) :
    (filterGetInfer genCfg t a false isInstance inDir dynHas annValues).2 = [] := by
  unfold filterGetInfer
  simp only
  split
  · rename_i d hout
    simp only
    unfold filterGetOutcome at hout
    have hf := flagged_of_trace_class t a (!false) dynHas hi
    generalize isAllowedGetattr genCfg t a (!false) dynHas = r at hout hf
    obtain ⟨has, isDescr, ann⟩ := r
    simp only at hout hf
    have hreal := get_real_only_if_plain has isDescr ann annValues true isInstance inDir d hout
    by_cases htr : (pyGetattr t a).trace = []
    · exact htr
    · have := hf htr
      simp [hreal.2.1] at this
  · rfl

example : (filterGetInfer genCfg
    { isType := true, inst := none, mro := [[⟨"x", .plain, 1⟩]], metaMro := [[⟨"mp", .prop false, 2⟩]] }
    "x" false false true false false) = (.realName false, []) := by decide

/-- instance or class: safe mode runs no user `__get__` through an attribute name -/
theorem safe_no_user_get_any (t : Target) (a : String) (isInstance inDir dynHas annValues : Bool) :
    (filterGetInfer genCfg t a false isInstance inDir dynHas annValues).2 = [] := by
  cases hi : t.isType
  · exact safe_no_user_get t a isInstance inDir dynHas annValues hi
  · exact safe_no_user_get_class t a isInstance inDir dynHas annValues hi

/-- a property of the metaclass, `A.mp`: refused in safe mode (empty name, nothing runs) -/
theorem safe_no_user_get_class_meta_property_refused :
    (filterGetInfer genCfg
      { isType := true, inst := none, mro := [[⟨"x", .plain, 1⟩]], metaMro := [[⟨"mp", .prop false, 2⟩]] }
      "mp" false false true false false) = (.emptyName, []) := by
  decide

/-- the former counter-witness: a *data* descriptor of the metaclass that shadows a plain class
attribute of the same name — `getattr(A, 'p')` would run the metaclass descriptor (second line,
unsafe mode); safe mode now answers an empty name and runs nothing. -/
theorem safe_no_user_get_class_meta_shadow_refused :
    (filterGetInfer genCfg
      { isType := true, inst := none, mro := [[⟨"p", .plain, 1⟩]], metaMro := [[⟨"p", .prop false, 2⟩]] }
      "p" false false true false false) = (.emptyName, []) ∧
    (filterGetInfer genCfg
      { isType := true, inst := none, mro := [[⟨"p", .plain, 1⟩]], metaMro := [[⟨"p", .prop false, 2⟩]] }
      "p" true false true false false) = (.realName true, [2]) := by
  decide

/-! ## item access and iteration -/

theorem allowed_getitem_types_are_builtin_containers :
    ∀ n ∈ C13.allowedGetitemTypes, n ∈ builtinContainers := by decide

/-- FULL: in safe mode `py__simple_getitem__` subscripts the live object only if its exact type is
one of the listed builtin containers, and never runs a user `__getitem__`. -/
theorem safe_no_item_iter_getitem (ty : Ty) :
    (pySimpleGetitem genCfg ty true).2 = [] ∧
    ((pySimpleGetitem genCfg ty true).1 = true →
      ∃ n, ty = .builtin n ∧ n ∈ C13.allowedGetitemTypes ∧ n ∈ builtinContainers) := by
  cases ty with
  | builtin n =>
    by_cases hmem : n ∈ C13.allowedGetitemTypes
    · have hn := hmem
      refine ⟨?_, fun _ => ⟨n, rfl, hmem, allowed_getitem_types_are_builtin_containers n hmem⟩⟩
      simp [pySimpleGetitem, genCfg, C13.getitemRefuses, tyIn, hmem, subscriptEvents]
    · simp [pySimpleGetitem, genCfg, C13.getitemRefuses, tyIn, hmem]
  | user u => simp [pySimpleGetitem, genCfg, C13.getitemRefuses, tyIn]

example : pySimpleGetitem genCfg (.builtin "dict") true = (true, []) := by decide
example : pySimpleGetitem genCfg (.user ⟨1, .user, .absent, .absent, .absent, .absent⟩) true = (false, []) := by
  decide
/-- unsafe mode does run it (the events are not vacuous) -/
theorem unsafe_getitem_witness :
    pySimpleGetitem genCfg (.user ⟨1, .user, .absent, .absent, .absent, .absent⟩) false = (true, [.getitem]) := by
  decide

/-- FULL: `MixedObject.py__simple_getitem__` reaches the live object only for the listed builtin
types, in either mode -/
theorem mixed_getitem_only_builtin (ty : Ty) (allowUnsafe : Bool) :
    (mixedSimpleGetitem genCfg ty allowUnsafe).2 = [] ∧
    ((mixedSimpleGetitem genCfg ty allowUnsafe).1 = true →
      ∃ n, ty = .builtin n ∧ n ∈ C13.allowedGetitemTypes) := by
  cases ty with
  | builtin n =>
    by_cases hmem : n ∈ C13.allowedGetitemTypes
    · have hn := hmem
      refine ⟨?_, fun _ => ⟨n, rfl, hmem⟩⟩
      cases allowUnsafe <;>
        simp [mixedSimpleGetitem, pySimpleGetitem, genCfg, C13.getitemRefuses,
          C13.mixedGetitemUsesCompiled, tyIn, hmem, subscriptEvents]
    · simp [mixedSimpleGetitem, genCfg, C13.mixedGetitemUsesCompiled, tyIn, hmem]
  | user u => simp [mixedSimpleGetitem, genCfg, C13.mixedGetitemUsesCompiled, tyIn]

example : mixedSimpleGetitem genCfg (.builtin "list") true = (true, []) := by decide

/-- FULL (either mode — the function has no `safe` switch): `py__iter__list` runs no user code at
all — `__iter__` is looked up statically on the type and only asked for its annotation — and it
iterates the live object only if its exact type is a listed builtin container. -/
theorem safe_no_item_iter_iterlist (ty : Ty) (it : Slot) (ann : Bool) :
    (pyIterList genCfg ty it ann).2 = [] ∧
    ((pyIterList genCfg ty it ann).1 = .items →
      ∃ n, ty = .builtin n ∧ n ∈ C13.allowedGetitemTypes) := by
  unfold pyIterList
  cases ann
  · cases ty with
    | builtin n =>
      by_cases hmem : n ∈ C13.allowedGetitemTypes
      · have hn := hmem
        cases it <;> simp [genCfg, C13.iterListRefuses, tyIn, hmem, loopEvents]
      · cases it <;> simp [genCfg, C13.iterListRefuses, tyIn, hmem]
    | user u => cases it <;> simp [genCfg, C13.iterListRefuses, tyIn]
  · cases it <;> simp

example : pyIterList genCfg (.builtin "list") (.builtin "wrapper_descriptor") false = (.items, []) := by
  decide
example : pyIterList genCfg (.user ⟨1, .absent, .user, .user, .absent, .absent⟩) .user false = (.refused, []) := by
  decide

/-- FULL: `CompiledValue.py__iter__` = `has_iter()` + `py__iter__list()` runs no user `__iter__` /
`__next__` / `__getitem__` and no user `__get__` — for every type, whatever `__iter__` is. -/
theorem safe_no_item_iter_pyiter (ty : Ty) (it : Slot) (ann : Bool) :
    compiledPyIter genCfg ty it ann = [] :=
  (safe_no_item_iter_iterlist ty it ann).1

/-- the former counter-witness: `for x in obj` on an instance of a class with a user `__iter__`
(and `__next__`) — `has_iter` answers `True` without calling anything, `py__iter__list` refuses,
although a real loop over the object would run both methods. -/
theorem safe_no_item_iter_pyiter_user_iter_not_run :
    compiledPyIter genCfg (.user ⟨1, .absent, .user, .user, .absent, .absent⟩) .user false = [] ∧
    hasIter .user .absent = true ∧
    loopEvents (.user ⟨1, .absent, .user, .user, .absent, .absent⟩) = [.iter, .next] := by
  decide

/-- what `has_iter` answers: `__iter__` on the type (unless it is `None`), else the sequence
protocol (`__getitem__`); an instance attribute or `__getattr__` play no role (they are not part
of the model's input at all). -/
theorem has_iter_protocols (it gi : Slot) :
    hasIter it gi = ((it ≠ .absent ∧ it ≠ .noneVal) ∨ (it = .absent ∧ gi ≠ .absent) : Bool) := by
  cases it <;> cases gi <;> simp [hasIter]

example : hasIter .absent .user = true ∧ hasIter .noneVal .user = false ∧ hasIter .absent .absent = false := by
  decide

/-- FULL: in safe mode `py__bool__` runs no user `__bool__` / `__len__`; it calls `bool(obj)`
only when the method `bool()` would use is a builtin one (slot wrapper) or there is none. -/
theorem safe_no_bool_len (ty : Ty) :
    (pyBool genCfg ty true).2 = [] ∧
    ((pyBool genCfg ty true).1 = true → boolCallEvents ty = []) := by
  have key : hasBuiltinBool genCfg ty = true → boolCallEvents ty = [] := by
    cases ty with
    | builtin n => intro _; rfl
    | user u =>
      obtain ⟨id, gi, it, nx, b, l⟩ := u
      cases b <;> cases l <;>
        simp [hasBuiltinBool, genCfg, C13.boolLookupOrder, C13.builtinMethodTypes, Ty.slot,
          boolCallEvents, Slot.runsUser]
  unfold pyBool
  cases hb : hasBuiltinBool genCfg ty
  · simp [genCfg, C13.boolRefuses]
  · simp [genCfg, C13.boolRefuses, key hb]

example : pyBool genCfg (.builtin "list") true = (true, []) := by decide
/-- a subclass of a builtin container inherits the builtin `__len__`: still evaluated -/
example : pyBool genCfg (.user ⟨1, .absent, .absent, .absent, .absent, .builtin "wrapper_descriptor"⟩) true
    = (true, []) := by decide
/-- an object with neither method is true without running anything -/
example : pyBool genCfg (.user ⟨1, .absent, .absent, .absent, .absent, .absent⟩) true = (true, []) := by decide

/-- the former counter-witnesses: `obj or 1` / `if obj:` on an object with a user `__bool__`
(first), a user `__len__` and no `__bool__` (second) — refused in safe mode (`None`: unknown);
unsafe mode still evaluates `bool(obj)` and runs them (third, fourth). -/
theorem safe_no_bool_len_user_bool_len_not_run :
    pyBool genCfg (.user ⟨1, .absent, .absent, .absent, .user, .absent⟩) true = (false, []) ∧
    pyBool genCfg (.user ⟨1, .absent, .absent, .absent, .absent, .user⟩) true = (false, []) ∧
    pyBool genCfg (.user ⟨1, .absent, .absent, .absent, .user, .absent⟩) false = (true, [.bool]) ∧
    pyBool genCfg (.user ⟨1, .absent, .absent, .absent, .absent, .user⟩) false = (true, [.len]) := by
  decide

/-! ### the same statement over the class dictionaries of `type(obj).__mro__` (several bases) -/

/-- FULL, all MROs (any number of bases, any order of builtin containers and user classes): in
safe mode `py__bool__` runs no user `__bool__` / `__len__`, and it reaches `bool(obj)` only when
CPython's `bool(obj)` — `__bool__` anywhere along the MRO first, only then `__len__` — runs no
user code.  Depends on the loop nesting and on the order of the names read from the source. -/
theorem safe_no_bool_len_mro (mro : List ClassSlots) :
    (pyBoolMro genCfg mro true).2 = [] ∧
    ((pyBoolMro genCfg mro true).1 = true → boolCallEventsMro mro = []) := by
  have key : hasBuiltinBoolMro genCfg mro = true → boolCallEventsMro mro = [] := by
    simp only [hasBuiltinBoolMro, genCfg, C13.boolWalkMroOuter, C13.boolLookupOrder,
      hasBuiltinBoolNames, boolCallEventsMro, Bool.false_eq_true, if_false]
    cases lookupSpecial mro "__bool__" with
    | some s => cases s <;> simp [slotIsBuiltinMethod, Slot.runsUser]
    | none =>
      cases lookupSpecial mro "__len__" with
      | some s => cases s <;> simp [slotIsBuiltinMethod, Slot.runsUser]
      | none => simp
  unfold pyBoolMro
  cases hb : hasBuiltinBoolMro genCfg mro
  · simp [genCfg, C13.boolRefuses]
  · simp [genCfg, C13.boolRefuses, key hb]

/-- `class R(list, Mixin)` with `Mixin.__bool__`: refused in safe mode -/
example : pyBoolMro genCfg
    [[], [("__len__", .builtin "wrapper_descriptor")], [("__bool__", .user)], []] true = (false, []) := by
  decide
/-- `class R(list, Plain)`: the builtin `__len__` decides, `bool(obj)` is evaluated -/
example : pyBoolMro genCfg [[], [("__len__", .builtin "wrapper_descriptor")], [], []] true = (true, []) := by
  decide

/-- the walk the other way round (classes in the outer loop: the first class that has either name
decides) is NOT safe: for `class R(list, Mixin)` with `Mixin.__bool__` it sees `list.__len__`
first, reaches `bool(obj)` and runs `Mixin.__bool__` in safe mode.  Kernel-checked witness, and
the reason why the nesting is a translator-extracted constant. -/
theorem safe_no_bool_len_mro_class_walk_counter_witness :
    pyBoolMro { genCfg with boolWalkMroOuter := true }
      [[], [("__len__", .builtin "wrapper_descriptor")], [("__bool__", .user)], []] true = (true, [.bool]) ∧
    pyBoolMro { genCfg with boolWalkMroOuter := true }
      [[], [("__bool__", .user)], [("__len__", .builtin "wrapper_descriptor")], []] true = (false, []) := by
  decide

/-- unsafe mode evaluates `bool(obj)` and runs the inherited user `__bool__` / `__len__` -/
theorem unsafe_bool_mro_witness :
    pyBoolMro genCfg [[], [("__len__", .builtin "wrapper_descriptor")], [("__bool__", .user)], []] false
      = (true, [.bool]) ∧
    pyBoolMro genCfg [[("__len__", .user)], [("__len__", .builtin "wrapper_descriptor")], []] false
      = (true, [.len]) := by
  decide

set_option linter.unusedSimpArgs false in
/-- PARTIAL (hypothesis `hwf`: the dictionaries store real entries; `.absent` is the *result* "not
found", never a stored entry - the harness never sends one): the MRO-level functions refine the
flattened ones used above (`pyBool` on a user type whose `bool` / `len` slots are what the static
lookup finds). -/
theorem bool_mro_refines_flat_partial (mro : List ClassSlots) (safe : Bool) (id : Nat) (gi it nx : Slot)
    (hwf : mroStoresEntries mro = true) :
    pyBoolMro genCfg mro safe =
      pyBool genCfg (.user ⟨id, gi, it, nx, flatSlot mro "__bool__", flatSlot mro "__len__"⟩) safe := by
  have hb : ∀ s, lookupSpecial mro "__bool__" = some s → s ≠ .absent :=
    fun s h => lookupSpecial_ne_absent hwf h
  have hl : ∀ s, lookupSpecial mro "__len__" = some s → s ≠ .absent :=
    fun s h => lookupSpecial_ne_absent hwf h
  clear hwf
  cases hB : lookupSpecial mro "__bool__" with
  | some sb =>
    have := hb sb hB
    cases sb <;>
      simp_all [pyBoolMro, pyBool, hasBuiltinBoolMro, hasBuiltinBool, genCfg, C13.boolWalkMroOuter,
        C13.boolLookupOrder, hasBuiltinBoolNames, boolCallEventsMro, boolCallEvents, flatSlot, Ty.slot,
        slotIsBuiltinMethod, Slot.runsUser, List.find?, Slot.builtin_bne_absent, Slot.user_bne_absent,
          Slot.noneVal_bne_absent, Slot.other_bne_absent]
  | none =>
    cases hL : lookupSpecial mro "__len__" with
    | some sl =>
      have := hl sl hL
      cases sl <;>
        simp_all [pyBoolMro, pyBool, hasBuiltinBoolMro, hasBuiltinBool, genCfg, C13.boolWalkMroOuter,
          C13.boolLookupOrder, hasBuiltinBoolNames, boolCallEventsMro, boolCallEvents, flatSlot, Ty.slot,
          slotIsBuiltinMethod, Slot.runsUser, List.find?, Slot.builtin_bne_absent, Slot.user_bne_absent,
          Slot.noneVal_bne_absent, Slot.other_bne_absent]
    | none =>
      simp_all [pyBoolMro, pyBool, hasBuiltinBoolMro, hasBuiltinBool, genCfg, C13.boolWalkMroOuter,
        C13.boolLookupOrder, hasBuiltinBoolNames, boolCallEventsMro, boolCallEvents, flatSlot, Ty.slot,
        slotIsBuiltinMethod, Slot.runsUser, List.find?, Slot.builtin_bne_absent, Slot.user_bne_absent,
          Slot.noneVal_bne_absent, Slot.other_bne_absent]

example : mroStoresEntries [[], [("__len__", .builtin "wrapper_descriptor")], [("__bool__", .user)]] = true := by
  decide

/-- without `hwf` the two levels differ: a stored `.absent` is "found" by the walk and "not found"
in the flattened table -/
theorem bool_mro_refines_flat_counter_witness :
    pyBoolMro genCfg [[("__bool__", .absent)]] true ≠
      pyBool genCfg (.user ⟨1, .absent, .absent, .absent, flatSlot [[("__bool__", .absent)]] "__bool__",
        flatSlot [[("__bool__", .absent)]] "__len__"⟩) true := by
  decide

/-! ## completions are a superset of `dir(obj)` -/

/-- FULL, either mode, instance or not: every name of `dir(obj)` is offered by
`CompiledValueFilter.values()` — the table can empty a name, it never drops one. -/
theorem dir_superset (infos : List DirInfo) (allowUnsafe isInstance : Bool) :
    ∀ info ∈ infos, info.name ∈ filterValues genCfg infos allowUnsafe isInstance := by
  intro info hmem
  unfold filterValues
  rw [List.mem_flatMap]
  refine ⟨info, hmem, ?_⟩
  cases h1 : info.has <;> cases h2 : info.isDescr <;> cases h3 : info.annPresent <;>
    cases h4 : info.annValues <;> cases allowUnsafe <;> cases isInstance <;>
    simp [filterGet, genCfg, C13.getAbsentCond, C13.getEmptyCond, C13.getNotInDirCond]

/-- … and offers nothing else -/
theorem values_subset_dir (infos : List DirInfo) (allowUnsafe isInstance : Bool) :
    ∀ n ∈ filterValues genCfg infos allowUnsafe isInstance, n ∈ infos.map (·.name) := by
  intro n hn
  unfold filterValues at hn
  rw [List.mem_flatMap] at hn
  obtain ⟨info, hmem, hin⟩ := hn
  rw [List.mem_map]
  refine ⟨info, hmem, ?_⟩
  split at hin <;> simp_all

example : filterValues genCfg [⟨"p", true, true, false, false⟩, ⟨"x", true, false, false, false⟩] false true
    = ["p", "x"] := by decide

end JediModel.Props.C13

import JediModel.Gen.C12
import JediModel.Model.NoExec
/-! # C12 — analysing sources with Script never executes them

Theorems about the loader funnel (`import_module` → `_load_builtin_module` → `access.load_module`).
That no *other* path in jedi reaches `__import__`/`exec` is pinned by `only_import_sites` (a
table extracted from every file of the package) and observed by the audit-hook oracle. -/
namespace JediModel.Props.C12
open JediModel.NoExec

/-- `¬ load_unsafe_extensions`: every directory handed to the real importer is one of the
environment's own `sys.path` entries (and was in the search path jedi computed) -/
theorem import_only_from_env (auto : List String) (envPath sysPath names : List String) (found : Found)
    (dotted : String) (path : List String)
    (h : importModule auto false envPath sysPath names found = .realImport dotted path) :
    ∀ d ∈ path, d ∈ envPath ∧ d ∈ sysPath := by
  intro d hd
  have key : ∀ a, loadBuiltin false envPath sysPath names = .realImport dotted path →
      a ∈ path → a ∈ envPath ∧ a ∈ sysPath := by
    intro a hl ha
    simp only [loadBuiltin, Bool.false_eq_true, if_false, Action.realImport.injEq] at hl
    obtain ⟨_, rfl⟩ := hl
    simp only [List.mem_filter, List.contains_iff_mem, baseSysPath] at ha
    exact ⟨List.mem_of_mem_erase ha.2, ha.1⟩
  unfold importModule at h
  split at h
  · cases h
  · split at h
    · exact key d h hd
    · split at h
      · cases h
      · cases h
      · exact key d h hd
      · cases h

/-- a project directory reaches the importer only if the environment itself already lists it -/
theorem project_dir_not_imported (auto : List String) (envPath sysPath names : List String)
    (found : Found) (dotted : String) (path : List String) (projectDir : String)
    (hp : projectDir ∉ envPath)
    (h : importModule auto false envPath sysPath names found = .realImport dotted path) :
    projectDir ∉ path :=
  fun hm => hp (import_only_from_env auto envPath sysPath names found dotted path h _ hm).1

example : importModule ["gi"] false ["", "/usr/lib/python3", "/site"] ["/proj", "/usr/lib/python3", "/site"]
    ["gi", "repository"] .source = .realImport "gi.repository" ["/usr/lib/python3", "/site"] := by decide

/-- a finder result with source is parsed, never imported, whatever the file is called — unless
its top-level name is listed in `settings.auto_import_modules` (and then `import_only_from_env`
applies) -/
theorem python_files_parsed_only (unsafeExt : Bool) (envPath sysPath : List String) (n0 : String)
    (rest : List String) (h : n0 ∉ JediModel.Gen.C12.autoImportModules) :
    importModule JediModel.Gen.C12.autoImportModules unsafeExt envPath sysPath (n0 :: rest) .source
      = .parse := by
  simp [importModule, h]

example : "conftest" ∉ JediModel.Gen.C12.autoImportModules := by decide

/-- the default of `Project(load_unsafe_extensions=...)` is the safe mode the theorems assume -/
theorem safe_by_default : JediModel.Gen.C12.loadUnsafeDefault = false := by decide

/-- the only calls of `__import__` / `importlib.import_module` / `exec` / `eval` / `compile` /
`runpy` in the whole package are `access.load_module`'s `__import__` and jedi's own function
named `import_module` (a new dynamic import anywhere in jedi breaks this theorem) -/
theorem only_import_sites : JediModel.Gen.C12.dynamicImportSites =
    ["jedi/inference/compiled/access.py:__import__", "jedi/inference/imports.py:import_module"] := by
  decide

/-- `access.load_module`: whatever the import does (returns, raises ImportError, any Exception, or
a BaseException that propagates) the helper's `sys.path` is afterwards the very object it was
before, and while the importer ran it was exactly the path handed over -/
theorem sys_path_restored (st : HState) (sp : PathObj) (o : ImpOutcome) :
    (guardedCall JediModel.Gen.C12.loadModuleHandlers JediModel.Gen.C12.loadModuleFinallyRestores
        st sp o).1.sysPath = st.sysPath ∧
    (guardedCall JediModel.Gen.C12.loadModuleHandlers JediModel.Gen.C12.loadModuleFinallyRestores
        st sp o).1.seenDuringCall = some sp := by
  have : JediModel.Gen.C12.loadModuleFinallyRestores = true := by decide
  simp [guardedCall, this]

/-- the same for `functions.get_module_info` (swap and restore are both guarded by
`sys_path is not None`) -/
theorem sys_path_restored_module_info (st : HState) (sp : Option PathObj) (o : ImpOutcome) :
    (getModuleInfo JediModel.Gen.C12.getModuleInfoHandlers
        JediModel.Gen.C12.getModuleInfoFinallyRestores st sp o).1.sysPath = st.sysPath := by
  have : JediModel.Gen.C12.getModuleInfoFinallyRestores = true := by decide
  cases sp <;> simp [getModuleInfo, guardedCall, this]

/-- exceptions of the real import never leave `load_module` unless they are not `Exception`s -/
theorem load_module_swallows_exceptions (st : HState) (sp : PathObj) (cls : String)
    (h : cls ≠ "KeyboardInterrupt" ∧ cls ≠ "SystemExit" ∧ cls ≠ "GeneratorExit") :
    (guardedCall JediModel.Gen.C12.loadModuleHandlers JediModel.Gen.C12.loadModuleFinallyRestores
        st sp (.raises cls)).2 = .noneReturned := by
  have hh : JediModel.Gen.C12.loadModuleHandlers.any (isSub cls) = true := by
    have : isSub cls "Exception" = true := by simp [isSub, h.1, h.2.1, h.2.2]
    have hm : "Exception" ∈ JediModel.Gen.C12.loadModuleHandlers := by decide
    exact List.any_eq_true.mpr ⟨_, hm, this⟩
  simp [guardedCall, hh]

/-! ### the host side: jedi's own lazy import of an optional dependency (`numpydoc`) -/

/-- the function around the import statement does not touch `sys.path`: the statement is resolved
against the host's own path (read from the source) -/
theorem host_import_shape :
    PathShape.ofString JediModel.Gen.C12.lazyImportPathShape = some .hostOnly := by decide

/-- one docstring look-up: whatever the finder says and whatever sys path the analysed project has,
a package executed by the host's import statement comes from the host's own `sys.path` -/
theorem host_import_only_from_host_path (shape : PathShape)
    (hs : PathShape.ofString JediModel.Gen.C12.lazyImportPathShape = some shape)
    (provides : String → Bool) (hostPath extra : List String) (st : LazyState) :
    ∀ d ∈ (lazyImport shape provides hostPath st extra).executed,
      d ∈ st.executed ∨ (d ∈ hostPath ∧ provides d = true) := by
  have : shape = .hostOnly := by
    have h := host_import_shape
    rw [hs] at h
    exact Option.some.inj h
  subst this
  intro d hd
  unfold lazyImport at hd
  split at hd
  · exact Or.inl hd
  · split at hd
    · rename_i d' hp
      simp only [List.mem_append, List.mem_singleton] at hd
      rcases hd with hd | rfl
      · exact Or.inl hd
      · simp only [provider, searchPath] at hp
        exact Or.inr ⟨List.mem_of_find?_eq_some hp, by simpa using List.find?_some hp⟩
    · exact Or.inl hd

/-- every history of look-ups made for queries on any projects, starting in a fresh process:
only directories of the host's own `sys.path` ever had their package executed -/
theorem host_import_history_only_host_path (shape : PathShape)
    (hs : PathShape.ofString JediModel.Gen.C12.lazyImportPathShape = some shape)
    (provides : String → Bool) (hostPath : List String) (extras : List (List String)) :
    ∀ d ∈ (lazyHistory shape provides hostPath {} extras).executed, d ∈ hostPath := by
  suffices H : ∀ (st : LazyState), (∀ d ∈ st.executed, d ∈ hostPath) →
      ∀ d ∈ (lazyHistory shape provides hostPath st extras).executed, d ∈ hostPath by
    exact H {} (by intro d hd; cases hd)
  induction extras with
  | nil => intro st h; simpa [lazyHistory] using h
  | cons e es ih =>
    intro st h
    simp only [lazyHistory, List.foldl_cons]
    apply ih
    intro d hd
    rcases host_import_only_from_host_path shape hs provides hostPath e st d hd with h1 | h2
    · exact h d h1
    · exact h2.1

/-- a directory of the analysed project that the host does not list itself is never executed by it -/
theorem project_dir_not_executed_by_host (shape : PathShape)
    (hs : PathShape.ofString JediModel.Gen.C12.lazyImportPathShape = some shape)
    (provides : String → Bool) (hostPath : List String) (extras : List (List String))
    (projectDir : String) (hp : projectDir ∉ hostPath) :
    projectDir ∉ (lazyHistory shape provides hostPath {} extras).executed :=
  fun hm => hp (host_import_history_only_host_path shape hs provides hostPath extras _ hm)

example : (lazyHistory .hostOnly (fun d => d == "/site" || d == "/proj") ["/lib", "/site"] {}
    [["/proj", "/lib", "/site"], ["/proj"]]).executed = ["/site"] := by decide

/-- the statement is needed as read: were the project's sys path appended to the host's for the
import (even behind it, even restored afterwards), a project that ships a package of that name
gets it executed in the host as soon as the host has none of its own -/
theorem extended_path_executes_project_witness :
    (lazyHistory .hostThenExtra (fun d => d == "/proj") ["/lib", "/site"] {}
      [["/proj", "/lib", "/site"]]).executed = ["/proj"] ∧
    "/proj" ∉ ["/lib", "/site"] := by decide

/-- at most one package is ever executed (the second statement hits `sys.modules`), for every shape -/
theorem host_import_at_most_once (shape : PathShape) (provides : String → Bool)
    (hostPath : List String) (extras : List (List String)) :
    (lazyHistory shape provides hostPath {} extras).executed.length ≤ 1 := by
  suffices H : ∀ (st : LazyState), (st.executed.length ≤ 1 ∧ (st.loadedFrom = none → st.executed = [])) →
      (lazyHistory shape provides hostPath st extras).executed.length ≤ 1 by
    exact H {} ⟨by simp, fun _ => rfl⟩
  induction extras with
  | nil => intro st h; simpa [lazyHistory] using h.1
  | cons e es ih =>
    intro st h
    simp only [lazyHistory, List.foldl_cons]
    apply ih
    unfold lazyImport
    split
    · exact h
    · rename_i hn
      split
      · simp [h.2 hn]
      · exact h

/-- the only places in the package that rebind or mutate `sys.path`: the two helper-side swaps
proved above and the REPL completer of `jedi.utils.setup_readline` (not reachable from Script) -/
theorem only_sys_path_write_sites : JediModel.Gen.C12.sysPathWriteSites =
    ["jedi/inference/compiled/access.py:load_module",
     "jedi/inference/compiled/subprocess/functions.py:get_module_info",
     "jedi/utils.py:setup_readline.JediRL.complete"] := by decide

/-- the only import statements of modules outside the standard library, jedi and parso -/
theorem only_foreign_import_sites : JediModel.Gen.C12.foreignImportSites =
    ["jedi/debug.py:<module>:colorama",
     "jedi/inference/docstrings.py:_get_numpy_doc_string_cls:numpydoc.docscrape",
     "jedi/utils.py:<module>:__main__"] ∧
    JediModel.Gen.C12.lazyImportModule = "numpydoc.docscrape" := by decide

end JediModel.Props.C12

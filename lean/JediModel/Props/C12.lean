import JediModel.Gen.C12
import JediModel.Model.NoExec
/-! # C12 — analysing sources with Script never executes them

Theorems about the loader funnel (`import_module` → `_load_builtin_module` → `access.load_module`).
That no *other* path in jedi reaches `__import__`/`exec` is pinned by `only_import_sites` (a
table extracted from every file of the package) and observed by the audit-hook oracle. -/
namespace JediModel.Props.C12
open JediModel.NoExec

/-- `¬ load_unsafe_extensions`: every directory handed to the real importer is one of the
environment's own `sys.path` entries (and was in the search path jedi computed) -/
theorem import_only_from_env (auto : List String) (envPath sysPath names : List String) (found : Found)
    (dotted : String) (path : List String)
    (h : importModule auto false envPath sysPath names found = .realImport dotted path) :
    ∀ d ∈ path, d ∈ envPath ∧ d ∈ sysPath := by
  intro d hd
  have key : ∀ a, loadBuiltin false envPath sysPath names = .realImport dotted path →
      a ∈ path → a ∈ envPath ∧ a ∈ sysPath := by
    intro a hl ha
    simp only [loadBuiltin, Bool.false_eq_true, if_false, Action.realImport.injEq] at hl
    obtain ⟨_, rfl⟩ := hl
    simp only [List.mem_filter, List.contains_iff_mem, baseSysPath] at ha
    exact ⟨List.mem_of_mem_erase ha.2, ha.1⟩
  unfold importModule at h
  split at h
  · cases h
  · split at h
    · exact key d h hd
    · split at h
      · cases h
      · cases h
      · exact key d h hd
      · cases h

/-- a project directory reaches the importer only if the environment itself already lists it -/
theorem project_dir_not_imported (auto : List String) (envPath sysPath names : List String)
    (found : Found) (dotted : String) (path : List String) (projectDir : String)
    (hp : projectDir ∉ envPath)
    (h : importModule auto false envPath sysPath names found = .realImport dotted path) :
    projectDir ∉ path :=
  fun hm => hp (import_only_from_env auto envPath sysPath names found dotted path h _ hm).1

example : importModule ["gi"] false ["", "/usr/lib/python3", "/site"] ["/proj", "/usr/lib/python3", "/site"]
    ["gi", "repository"] .source = .realImport "gi.repository" ["/usr/lib/python3", "/site"] := by decide

/-- a finder result with source is parsed, never imported, whatever the file is called — unless
its top-level name is listed in `settings.auto_import_modules` (and then `import_only_from_env`
applies) -/
theorem python_files_parsed_only (unsafeExt : Bool) (envPath sysPath : List String) (n0 : String)
    (rest : List String) (h : n0 ∉ JediModel.Gen.C12.autoImportModules) :
    importModule JediModel.Gen.C12.autoImportModules unsafeExt envPath sysPath (n0 :: rest) .source
      = .parse := by
  simp [importModule, h]

example : "conftest" ∉ JediModel.Gen.C12.autoImportModules := by decide

/-- the default of `Project(load_unsafe_extensions=...)` is the safe mode the theorems assume -/
theorem safe_by_default : JediModel.Gen.C12.loadUnsafeDefault = false := by decide

/-- the only calls of `__import__` / `importlib.import_module` / `exec` / `eval` / `compile` /
`runpy` in the whole package are `access.load_module`'s `__import__` and jedi's own function
named `import_module` (a new dynamic import anywhere in jedi breaks this theorem) -/
theorem only_import_sites : JediModel.Gen.C12.dynamicImportSites =
    ["jedi/inference/compiled/access.py:__import__", "jedi/inference/imports.py:import_module"] := by
  decide

/-- `access.load_module`: whatever the import does (returns, raises ImportError, any Exception, or
a BaseException that propagates) the helper's `sys.path` is afterwards the very object it was
before, and while the importer ran it was exactly the path handed over -/
theorem sys_path_restored (st : HState) (sp : PathObj) (o : ImpOutcome) :
    (guardedCall JediModel.Gen.C12.loadModuleHandlers JediModel.Gen.C12.loadModuleFinallyRestores
        st sp o).1.sysPath = st.sysPath ∧
    (guardedCall JediModel.Gen.C12.loadModuleHandlers JediModel.Gen.C12.loadModuleFinallyRestores
        st sp o).1.seenDuringCall = some sp := by
  have : JediModel.Gen.C12.loadModuleFinallyRestores = true := by decide
  simp [guardedCall, this]

/-- the same for `functions.get_module_info` (swap and restore are both guarded by
`sys_path is not None`) -/
theorem sys_path_restored_module_info (st : HState) (sp : Option PathObj) (o : ImpOutcome) :
    (getModuleInfo JediModel.Gen.C12.getModuleInfoHandlers
        JediModel.Gen.C12.getModuleInfoFinallyRestores st sp o).1.sysPath = st.sysPath := by
  have : JediModel.Gen.C12.getModuleInfoFinallyRestores = true := by decide
  cases sp <;> simp [getModuleInfo, guardedCall, this]

/-- exceptions of the real import never leave `load_module` unless they are not `Exception`s -/
theorem load_module_swallows_exceptions (st : HState) (sp : PathObj) (cls : String)
    (h : cls ≠ "KeyboardInterrupt" ∧ cls ≠ "SystemExit" ∧ cls ≠ "GeneratorExit") :
    (guardedCall JediModel.Gen.C12.loadModuleHandlers JediModel.Gen.C12.loadModuleFinallyRestores
        st sp (.raises cls)).2 = .noneReturned := by
  have hh : JediModel.Gen.C12.loadModuleHandlers.any (isSub cls) = true := by
    have : isSub cls "Exception" = true := by simp [isSub, h.1, h.2.1, h.2.2]
    have hm : "Exception" ∈ JediModel.Gen.C12.loadModuleHandlers := by decide
    exact List.any_eq_true.mpr ⟨_, hm, this⟩
  simp [guardedCall, hh]

end JediModel.Props.C12

import JediModel.Lemmas.PyCore
import JediModel.Lemmas.PyCoreExact
import JediModel.Gen.C02
import JediModel.Lemmas.ArgBind
import JediModel.Lemmas.FlowCache
import JediModel.Lemmas.ClassLookup
import JediModel.Lemmas.SetIter
import JediModel.Lemmas.YieldOrder
/-! # C02 — Inferred types agree with what the program does when executed

`evalC` is the concrete semantics of the PyCore fragment (validated against CPython on every
run), `mayE` the transcription of jedi's inference (validated against `Script.infer`).
Property theorems only. -/
namespace JediModel.Props.C02
open JediModel.PyCore

/-- **Soundness.** For every PyCore program, every amount of fuel, every module-level position
and every expression that the run evaluates to a value `v`: jedi's inference offers a shape that
describes `v` — same kind, same creating `def`/`class` statement, and for tuples and constructor
arguments, position by position, recursively.  Where the program would fail at run time `evalC`
is `none` and nothing is claimed.  Hypothesis `WFClasses` (static, decidable): a base class is
named by its class name, and only classes without a base define `__init__`.  The second clause
is forced — see `derived_init_hides_base_self_attribute` below (FULL statement false, replayed on
the real code). -/
theorem may_sound_partial (p : Prog) (hwf : WFClasses p = true) (fuel pos : Nat) (e : Expr) (v : Val)
    (h : evalC p fuel (.module pos) e = some v) :
    ∃ s ∈ mayE p fuel (.module pos) e, covers v s = true :=
  coversAny_iff.mp ((sound p hwf fuel).eval (.module pos) (.module pos) e v rfl h)

/-- a describing shape has the same top-level class -/
theorem covers_top (v : Val) (s : Shape) (h : covers v s = true) : s.top = v.top := by
  cases v <;> cases s <;> simp_all [covers, Val.top, Shape.top]
  all_goals first | exact h.1.symm | exact ⟨h.1.2.symm, h.2.symm⟩ | skip

/-- **The class of the run-time value is among the definitions `infer` reports, and that
definition points at the statement that really created the value.** -/
theorem may_sound_class_partial (p : Prog) (hwf : WFClasses p = true) (fuel pos : Nat) (e : Expr)
    (v : Val) (h : evalC p fuel (.module pos) e = some v) :
    v.top ∈ (mayE p fuel (.module pos) e).map Shape.top := by
  obtain ⟨s, hs, hc⟩ := may_sound_partial p hwf fuel pos e v h
  exact List.mem_map.mpr ⟨s, hs, covers_top v s hc⟩

/-- the same inside a function body whose parameters are bound to described arguments -/
theorem may_sound_in_function (p : Prog) (hwf : WFClasses p = true) (fuel id : Nat)
    (args : List Val) (as : List (List Shape)) (hargs : coversList args as = true) (e : Expr)
    (v : Val) (h : evalC p fuel (.func id args) e = some v) :
    ∃ s ∈ mayE p fuel (.func id as) e, covers v s = true :=
  coversAny_iff.mp ((sound p hwf fuel).eval (.func id args) (.func id as) e v ⟨rfl, hargs⟩ h)

/-- ... and inside a method body (`m = none`: `__init__`) with `self` and the arguments described -/
theorem may_sound_in_method (p : Prog) (hwf : WFClasses p = true) (fuel cid : Nat) (m : Option Nat)
    (sv : Val) (ss : Shape) (hs : covers sv ss = true) (args : List Val) (as : List (List Shape))
    (hargs : coversList args as = true) (e : Expr) (v : Val)
    (h : evalC p fuel (.meth cid m sv args) e = some v) :
    ∃ s ∈ mayE p fuel (.meth cid m ss as) e, covers v s = true :=
  coversAny_iff.mp ((sound p hwf fuel).eval (.meth cid m sv args) (.meth cid m ss as) e v
    ⟨rfl, rfl, hs, hargs⟩ h)

/-- **Exactness.** In a program without conditionals only one value can reach any expression,
and `infer` reports exactly that value's shape and nothing else. -/
theorem may_exact (p : Prog) (hp : p.ternFree = true) (hwf : WFClasses p = true)
    (hs : SingleAssignInit p = true) (fuel pos : Nat) (e : Expr) (v : Val)
    (he : e.ternFree = true) (h : evalC p fuel (.module pos) e = some v) :
    mayE p fuel (.module pos) e = [erase v] :=
  (exact p hp hwf hs fuel).eval (.module pos) e v he h

/-- the erased value is described by itself (so `may_exact` refines `may_sound`) -/
theorem covers_erase : (∀ v : Val, covers v (erase v) = true) := by
  intro v
  induction v using Val.rec (motive_2 := fun vs => coversList vs (eraseList vs) = true) with
  | int => rfl
  | str => rfl
  | func i => simp [erase, covers]
  | cls i => simp [erase, covers]
  | inst i vs ih => simpa [erase, covers] using ih
  | bound r c m ih => simp [erase, covers, ih]
  | tuple vs ih => simpa [erase, covers] using ih
  | nil => rfl
  | cons v vs ihv ihvs => simp [eraseList, coversList, coversAny, ihv, ihvs]

/-- FULL exactness (with conditionals) is false by design: both arms of `a if c else b` are
reported although the run takes one. -/
theorem conditional_reports_both_arms :
    (evalC [.probe (.tern true .int .str)] 5 (.module 0) (.tern true .int .str)).map Val.top
      = some .int ∧
    (mayE [.probe (.tern true .int .str)] 5 (.module 0) (.tern true .int .str)).map Shape.top
      = [.int, .str] := by
  decide

/-- FULL soundness (without `WFClasses`) is false of the unchanged code:
`class B:` / `    def __init__(self): self.a = 1` / `class D(B):` / `    a = 's'` /
`    def __init__(self): pass` / `D().a` — the run gives `'s'` (B's `__init__` never runs),
jedi's `SelfAttributeFilter` finds `self.a = 1` in `B.__init__` first and reports only `int`.
(names: B=0, D=1, a=2) -/
def witnessDerivedInit : Prog :=
  [.klass 0 none [] (some ⟨[], [(2, .int)]⟩) [],
   .klass 1 (some 0) [(2, .str)] (some ⟨[], []⟩) [],
   .probe (.attr (.call (.name 1) []) 2)]

theorem derived_init_hides_base_self_attribute :
    WFClasses witnessDerivedInit = false ∧
    (evalC witnessDerivedInit 20 (.module 2) (.attr (.call (.name 1) []) 2)).map Val.top = some .str ∧
    (mayE witnessDerivedInit 20 (.module 2) (.attr (.call (.name 1) []) 2)).map Shape.top = [.int] := by
  decide

/-! ## non-vacuity -/

/-- `class C: a = (1, 's')` / `def f(p): return p.a[1]` / `x = f(C())`: the run gives `str`,
so does jedi, exactly. (names: C=0, a=1, f=2, p=3, x=4) -/
example :
    let p : Prog := [.klass 0 none [(1, .tuple [.int, .str])] none [],
                     .defn 2 [3] (.index (.attr (.name 3) 1) 1),
                     .assign 4 (.call (.name 2) [.call (.name 0) []]),
                     .probe (.name 4)]
    p.ternFree = true ∧ WFClasses p = true ∧ SingleAssignInit p = true ∧
    (evalC p 20 (.module 3) (.name 4)).map Val.top = some .str ∧
    (mayE p 20 (.module 3) (.name 4)).map Shape.top = [.str] := by decide

/-- `class C:` / `    def __init__(self, p): self.b = (p, 1)` / `    def m(self): return self.b[0]` /
`x = C('s').m()`: constructor argument flows through `self.b` into the method result.
(names: C=0, p=1, b=2, m=3, x=4) -/
example :
    let p : Prog := [.klass 0 none [] (some ⟨[1], [(2, .tuple [.name 1, .int])]⟩)
                       [⟨3, [], .index (.attr .self 2) 0⟩],
                     .assign 4 (.call (.attr (.call (.name 0) [.str]) 3) []),
                     .probe (.name 4)]
    p.ternFree = true ∧ WFClasses p = true ∧ SingleAssignInit p = true ∧
    (evalC p 30 (.module 2) (.name 4)).map Val.top = some .str ∧
    (mayE p 30 (.module 2) (.name 4)).map Shape.top = [.str] := by decide

/-! ## Argument-to-parameter binding (`Model/ArgBind`)

`bindJ` transcribes `jedi/inference/param.py:get_executed_param_names_and_issues` (validated
against the real function on every run), `bindPy` is CPython's call-binding rule (validated
against CPython itself on every run).  The model is instantiated with the constants that
`translator/gen_c02.py` reads from the source (`Gen/C02.lean`): a source edit that changes one
of them (no `push_back`, swapped `star_count` tests, `if` instead of `while`, ...) makes this
file fail to build. -/
section Bind
open JediModel.ArgBind

/-- the model instantiated with the constants read from the source under test -/
def cfgSrc : Cfg :=
  { pushBack := JediModel.Gen.C02.pushBackInStarLoop
    tupleStarCount := JediModel.Gen.C02.starCountTuple
    dictStarCount := JediModel.Gen.C02.starCountDict
    skipUnknown := JediModel.Gen.C02.keysUsedSkipsUnknown
    resetNonMatching := JediModel.Gen.C02.resetsNonMatching
    starNamesInParamDict := JediModel.Gen.C02.starNamesInParamDict }

/-- f(a, b=D, *rest, k, **opts)   (names: a=0 b=1 rest=2 k=3 opts=4) -/
def sigExample : List Param :=
  [⟨0, .pos, false⟩, ⟨1, .pos, true⟩, ⟨2, .star, false⟩, ⟨3, .kwOnly, false⟩, ⟨4, .dstar, false⟩]

/-- **The source has the shape the model transcribes**: the parameters of the model have the
validated values and the statements `bindJ` transcribes without a parameter are in place. -/
theorem bind_source_is_modelled :
    cfgSrc = cfgRef ∧
    JediModel.Gen.C02.keyLoopIsWhile = true ∧ JediModel.Gen.C02.keyLoopAdvances = true ∧
    JediModel.Gen.C02.keyLoopSetsKeysOnly = true ∧
    JediModel.Gen.C02.unknownKeyToNonMatching = true ∧
    JediModel.Gen.C02.keywordBindsUnlessUsed = true ∧
    JediModel.Gen.C02.usedParamContinues = true ∧ JediModel.Gen.C02.normalBranchShape = true ∧
    JediModel.Gen.C02.pushBackIsCons = true ∧ JediModel.Gen.C02.keywordsAfterPositionals = true := by
  decide

/-- **jedi binds what CPython binds** (FULL statement, no extra hypothesis).  For every signature
Python's grammar allows (`WFSig`: distinct names, `Pos* Star? KwOnly* DStar?`, any defaults) and
every call `f(*pos, **kws)` with distinct keywords that CPython accepts - any number of
positional and keyword arguments, keywords spelled like `*args`/`**kwargs` included - jedi binds
every parameter to exactly what CPython binds: the same argument, the default, the same tuple
for `*args`, the same dict in the same order for `**kwargs`. -/
theorem bind_agrees (ps : List Param) (pos : List Arg) (kws : List (Name × Arg))
    (env : List (Name × Bound)) (hwf : WFSig ps = true) (hkn : (kws.map Prod.fst).Nodup)
    (h : bindPy ps pos kws = some env) :
    bindJ cfgSrc ps (callArgs pos kws) = env := by
  rw [bind_source_is_modelled.1]
  unfold bindPy at h
  split at h
  · rename_i hacc
    cases h
    simp only [accepts, Bool.and_eq_true, Bool.not_eq_true'] at hacc
    exact bindJ_eq_fill ps pos kws hwf hkn hacc.1.1.1
  · cases h

/-- the same with the argument list written out -/
theorem bind_agrees_unfolded (ps : List Param) (pos : List Arg) (kws : List (Name × Arg))
    (env : List (Name × Bound)) (hwf : WFSig ps = true) (hkn : (kws.map Prod.fst).Nodup)
    (h : bindPy ps pos kws = some env) :
    bindJ cfgSrc ps (pos.map (fun a => (none, a)) ++ kws.map (fun (k, a) => (some k, a))) = env :=
  bind_agrees ps pos kws env hwf hkn h

/-- a keyword spelled like `**kwargs` is within the theorem: `def f(a, *rest, **opts)` called
`f(A0, opts=A1, rest=A2)` (names a=0 rest=1 opts=2) -/
example : WFSig [⟨0, .pos, false⟩, ⟨1, .star, false⟩, ⟨2, .dstar, false⟩] = true ∧
    ([(2, 11), (1, 12)].map Prod.fst).Nodup ∧
    bindPy [⟨0, .pos, false⟩, ⟨1, .star, false⟩, ⟨2, .dstar, false⟩] [10] [(2, 11), (1, 12)] =
      some [(0, .arg 10), (1, .tuple []), (2, .dict [(2, 11), (1, 12)])] := by
  decide

example : WFSig sigExample = true ∧ ([(3, 13), (9, 14)].map Prod.fst).Nodup ∧
    bindPy sigExample [10, 11, 12] [(3, 13), (9, 14)] =
      some [(0, .arg 10), (1, .arg 11), (2, .tuple [12]), (3, .arg 13), (4, .dict [(9, 14)])] := by
  decide

/-- The same without looking at CPython's other reasons to reject (missing, unexpected or
repeated arguments): as long as there are not too many positional arguments, jedi's binding is
the left-to-right fill - a missing required parameter is `unknown`. -/
theorem bind_best_effort (ps : List Param) (pos : List Arg) (kws : List (Name × Arg))
    (hwf : WFSig ps = true) (hkn : (kws.map Prod.fst).Nodup)
    (hlen : tooManyPositional ps pos = false) :
    bindJ cfgSrc ps (callArgs pos kws) = fill kws (extraKws ps kws) ps pos := by
  rw [bind_source_is_modelled.1]
  exact bindJ_eq_fill ps pos kws hwf hkn hlen

/-- f(a, b=D, *rest, k, **opts) called f(A0, x=A1): CPython raises (k missing), jedi: k unknown -/
example : WFSig sigExample = true ∧
    tooManyPositional sigExample [10] = false ∧ bindPy sigExample [10] [(9, 11)] = none ∧
    bindJ cfgSrc sigExample (callArgs [10] [(9, 11)]) =
      [(0, .arg 10), (1, .default), (2, .tuple []), (3, .unknown), (4, .dict [(9, 11)])] := by
  decide

/-- **The repair matters.**  With `param_dict` holding the `*args`/`**kwargs` names too (the
source before `if not param.star_count:` - finding C02-keyword-spelled-like-star-param) the
statement is false: `def f(**kw): ...` / `f(kw=A)` - CPython: `kw = {'kw': A}`; the old code
looked the keyword up in `param_dict`, bound the parameter `kw` to `A` itself and never built
the dict.  Likewise `def g(*rest, **kw)` / `g(rest=A)`.  The source as it is now agrees with
CPython on both. (names: kw=0 rest=1; argument 7) -/
theorem bind_agrees_old_code_witness :
    WFSig [⟨0, .dstar, false⟩] = true ∧ ([(0, 7)].map Prod.fst).Nodup ∧
    bindPy [⟨0, .dstar, false⟩] [] [(0, 7)] = some [(0, .dict [(0, 7)])] ∧
    bindJ { cfgSrc with starNamesInParamDict := true } [⟨0, .dstar, false⟩] (callArgs [] [(0, 7)]) =
      [(0, .arg 7)] ∧
    bindJ cfgSrc [⟨0, .dstar, false⟩] (callArgs [] [(0, 7)]) = [(0, .dict [(0, 7)])] ∧
    WFSig [⟨1, .star, false⟩, ⟨0, .dstar, false⟩] = true ∧ ([(1, 7)].map Prod.fst).Nodup ∧
    bindPy [⟨1, .star, false⟩, ⟨0, .dstar, false⟩] [] [(1, 7)] = some [(1, .tuple []), (0, .dict [(1, 7)])] ∧
    bindJ { cfgSrc with starNamesInParamDict := true } [⟨1, .star, false⟩, ⟨0, .dstar, false⟩]
      (callArgs [] [(1, 7)]) = [(1, .arg 7), (0, .dict [])] ∧
    bindJ cfgSrc [⟨1, .star, false⟩, ⟨0, .dstar, false⟩] (callArgs [] [(1, 7)]) =
      [(1, .tuple []), (0, .dict [(1, 7)])] := by
  decide

/-- **Shape of the result**, whatever the source constants, the signature and the arguments
(well-formed or not, accepted by CPython or not): one entry per parameter, in parameter order,
under the parameter's name. -/
theorem bindJ_total (cfg : Cfg) (ps : List Param) (args : List (Option Name × Arg)) :
    (bindJ cfg ps args).map Prod.fst = ps.map (·.name) ∧ (bindJ cfg ps args).length = ps.length := by
  have h := bindJ_names cfg ps args
  exact ⟨h, by simpa using congrArg List.length h⟩

example : (bindJ cfgSrc sigExample (callArgs [10, 11, 12] [(3, 13), (9, 14)])).map Prod.fst = [0, 1, 2, 3, 4] := by
  decide

/-- **The `push_back` matters.**  `def f(a, *rest, k)` / `f(A0, A1, k=A2)`: the `*args` loop
reads `k=A2` to find the end of the positional arguments; without
`var_arg_iterator.push_back((key, argument))` that keyword is lost - `k` is unknown - while the
source as it is binds `k` to `A2` as CPython does. (names: a=0 rest=1 k=2) -/
theorem bind_without_push_back_loses_keyword :
    let ps : List Param := [⟨0, .pos, false⟩, ⟨1, .star, false⟩, ⟨2, .kwOnly, false⟩]
    bindPy ps [10, 11] [(2, 12)] = some [(0, .arg 10), (1, .tuple [11]), (2, .arg 12)] ∧
    bindJ cfgSrc ps (callArgs [10, 11] [(2, 12)]) = [(0, .arg 10), (1, .tuple [11]), (2, .arg 12)] ∧
    bindJ { cfgSrc with pushBack := false } ps (callArgs [10, 11] [(2, 12)]) =
      [(0, .arg 10), (1, .tuple [11]), (2, .unknown)] := by
  decide

end Bind

/-! ## Loop unrolling and the per-node inference cache (Model/FlowCache)

`get_yield_lazy_values` infers the yields of a generator's top-level `for` once per element of
the iterated sequence, the loop variable predefined; `infer_node` / `_infer_node_if_inferred`
decide per node whether the cached result of an earlier iteration may be served. -/
section Flow
open JediModel.FlowCache

/-- the cache policy as read from the source by the translator -/
def policySrc : Policy :=
  ⟨JediModel.Gen.C02.cacheDirectBypass,
   if JediModel.Gen.C02.cacheAncestorBypassUnconditional then .always else .ifMentions⟩

/-- **The source has the shape the model transcribes**: a node whose nearest enclosing if/for
statement has predefined names is inferred afresh; so is a node with *any* ancestor that has
predefined names (unconditionally); every element of the sequence predefines the loop variable
anew around all yields of that `for`. -/
theorem flow_source_is_modelled :
    policySrc = policyRef ∧ JediModel.Gen.C02.unrollPredefinesPerElement = true ∧
    JediModel.Gen.C02.sameForYieldsJoin = true := by
  decide

/-- **Unrolled iterations agree with execution.**  For every loop body (assignments whose
right-hand side is the loop variable, an earlier local or a constant, nested in any if/for
statements inside the unrolled `for`), every yielded local and every sequence of values: the
values jedi infers for the successive elements - with the cache living on from one iteration to
the next, whatever it holds at the start - are exactly the values the generator yields, element
by element.  No stale result of an earlier iteration is ever served. -/
theorem unrolled_loop_sound (forId : FlowId) (loopName : Name) (body : List FlowCache.Stmt) (y : Nat)
    (vs : List FlowCache.Val) (c : Cache) (hall : ∀ s ∈ body, forId ∈ s.flows) :
    unrolled policySrc forId loopName body y vs c = executed body y vs := by
  rw [flow_source_is_modelled.1]
  exact unrolled_ref forId loopName body y hall vs c

/-- `for box in boxes:` (for 1, loop variable 0) / `if ..:` (if 2) / `inner = box` / `result = inner`
/ `yield result` over two different values -/
def bodyExample : List FlowCache.Stmt := [⟨.loopVar, [2, 1], [0]⟩, ⟨.loc 0, [2, 1], [5]⟩]

example : (∀ s ∈ bodyExample, 1 ∈ s.flows) ∧
    unrolled policySrc 1 0 bodyExample 1 [7, 8] [] = [some 7, some 8] := by
  decide

/-- **The ancestor rule cannot be weakened** to "only nodes that mention a predefined name are
inferred afresh": `result = inner` does not mention the loop variable, sits in a nested `if`, is
cached in the first iteration and replayed in the second - the second value is lost. -/
theorem unrolled_loop_mention_rule_witness :
    unrolled ⟨true, .ifMentions⟩ 1 0 bodyExample 1 [7, 8] [] = [some 7, some 7] ∧
    executed bodyExample 1 [7, 8] = [some 7, some 8] := by
  decide

/-- **Nor may a node directly inside the unrolled `for` be served from the cache** -/
theorem unrolled_loop_direct_cache_witness :
    unrolled ⟨false, .always⟩ 1 0 [(⟨.loopVar, [1], [0]⟩ : FlowCache.Stmt)] 0 [7, 8] [] = [some 7, some 7] ∧
    executed [(⟨.loopVar, [1], [0]⟩ : FlowCache.Stmt)] 0 [7, 8] = [some 7, some 8] := by
  decide

end Flow

/-! ## Class-level lookup of an inherited classmethod (Model/ClassLookup) -/
namespace Lookup
open JediModel.ClassLookup

/-- the facts read from `klass.py:ClassMixin.get_filters`, `ClassFilter`, `ClassName.infer` and
`stdlib.py:ClassMethodObject.py__get__`: the filter of every MRO class carries the class the
attribute is looked up on, and that class value reaches `ClassMethodGet` unchanged -/
theorem lookup_source_is_modelled :
    JediModel.Gen.C02.classFilterCarriesLookupClass = true ∧
    JediModel.Gen.C02.classValueReachesClassmethod = true := by
  decide

/-- **An inherited classmethod is bound to the class it is reached through.**  For every
single-inheritance hierarchy (any number of classes, any depth), every class `c` and every name:
`c.name` for a classmethod defined on `c` or on any of its bases binds `cls` to exactly the class
CPython binds it to - `c` itself, never the defining base - so `return cls()` creates an instance
of the class the run creates one of. -/
theorem classmethod_bound_to_lookup_class (h : Hier) (c : ClsId) (n : Name) :
    jediBoundCls JediModel.Gen.C02.classFilterCarriesLookupClass h c n = pyBoundCls h c n := by
  rw [lookup_source_is_modelled.1]
  exact bound_ref h c n

/-- `class K0:` / `    @classmethod` / `    def make(cls): return cls()` / `class K1(K0): pass` /
`class K2(K1): pass` -/
def hierExample : Hier := [⟨none, [0]⟩, ⟨some 0, []⟩, ⟨some 1, []⟩]

example : jediBoundCls JediModel.Gen.C02.classFilterCarriesLookupClass hierExample 2 0 = some 2 ∧
    mro hierExample 2 = [2, 1, 0] := by
  decide

/-- **The filter must carry the lookup class**: with the MRO class in the filter (`ClassFilter(cls,
..)`) `K2.make()` binds `cls` to the defining class `K0` while the run binds `K2`. -/
theorem classmethod_bound_to_defining_class_witness :
    jediBoundCls false hierExample 2 0 = some 0 ∧ pyBoundCls hierExample 2 0 = some 2 := by
  decide

end Lookup

/-! ## iterating a set of iterables (`ValueSet.iterate`, Model/SetIter)

`for x in e`, comprehensions, unpacking and `*args` iterate the inferred value SET of `e`.  Each
member contributes the stream of its elements; the theorems say that position by position nothing a
member yields is lost and nothing is invented, for every number of members and all stream lengths,
with the zipping function read from the source. -/
section SetIter
open JediModel.SetIter

/-- the merge as found in the source -/
def iterateSrc {α : Type} : Option (List (List α) → List (List α)) :=
  zipperOf JediModel.Gen.C02.iterateZipper

/-- `ValueSet.iterate` merges with `itertools.zip_longest` and drops only the fillers -/
theorem iterate_source_is_modelled {α : Type} :
    (iterateSrc : Option (List (List α) → _)) = some zipLongest ∧
      JediModel.Gen.C02.iterateDropsFillers = true := ⟨rfl, rfl⟩

/-- **Nothing is lost**: the `k`-th element of ANY member of the set is in the `k`-th merged value. -/
theorem iterate_covers {α : Type} (ss : List (List α)) (s : List α) (k : Nat) (x : α)
    (hs : s ∈ ss) (hx : s[k]? = some x) :
    ∃ col, (zipLongest ss)[k]? = some col ∧ x ∈ col := by
  have hk : k < s.length := by
    rcases Nat.lt_or_ge k s.length with h | h
    · exact h
    · rw [List.getElem?_eq_none h] at hx; cases hx
  refine ⟨column k ss, zipLongest_get ss k (Nat.lt_of_lt_of_le hk (length_le_maxLen hs)), ?_⟩
  exact mem_column.mpr ⟨s, hs, hx⟩

/-- **Nothing is invented**: a value in the `k`-th merged value is the `k`-th element of a member. -/
theorem iterate_sound {α : Type} (ss : List (List α)) (k : Nat) (col : List α) (x : α)
    (hc : (zipLongest ss)[k]? = some col) (hx : x ∈ col) : ∃ s ∈ ss, s[k]? = some x := by
  rcases Nat.lt_or_ge k (maxLen ss) with h | h
  · rw [zipLongest_get ss k h] at hc
    cases hc
    exact mem_column.mp hx
  · rw [zipLongest_get_none ss k h] at hc; cases hc

/-- `iterate_values` ("ignores the ordering and just returns all values"): exactly the union of the
members' elements. -/
theorem iterate_values_eq_union {α : Type} (ss : List (List α)) (x : α) :
    x ∈ allValues (zipLongest ss) ↔ ∃ s ∈ ss, x ∈ s := by
  unfold allValues
  rw [List.mem_flatten]
  constructor
  · rintro ⟨col, hcol, hx⟩
    obtain ⟨k, hk, rfl⟩ := List.getElem_of_mem hcol
    obtain ⟨s, hs, hsx⟩ := iterate_sound ss k _ x (List.getElem?_eq_getElem hk) hx
    exact ⟨s, hs, List.mem_of_getElem? hsx⟩
  · rintro ⟨s, hs, hx⟩
    obtain ⟨k, hk, rfl⟩ := List.getElem_of_mem hx
    obtain ⟨col, hcol, hxc⟩ := iterate_covers ss s k _ hs (List.getElem?_eq_getElem hk)
    exact ⟨col, List.mem_of_getElem? hcol, hxc⟩

/-- witness: merging with `zip` stops at the shortest member - `for row in ((A(),), (B(), C()))` /
`for cell in row`: `C` is reached by the run and missing from the merged values. -/
theorem iterate_zip_shortest_loses :
    zipShortest [[1], [2, 3]] = [[1, 2]] ∧ 3 ∉ allValues (zipShortest [[1], [2, 3]]) ∧
      3 ∈ allValues (zipLongest [[1], [2, 3]]) := by decide

example : zipLongest [[1], [2, 3], []] = [[1, 2], [3]] := by decide

end SetIter

/-! ## The order of a generator's element stream (`Model/YieldOrder`)

`get_yield_lazy_values` groups the yields of a generator function (top-level yields, yields of a
simple for statement) and emits group after group; tuple unpacking / indexing of the result reads
the stream position by position. -/
section YieldOrder
open JediModel.YieldOrder

/-- **The predicted stream is the run.**  For every generator body made of plain yields and simple
for statements (each with at least one yield) in ANY interleaving, and whatever the number of
elements each for statement iterates over: the function (grouping as read from the source) does
not give up, and the stream it emits - which yield, in which iteration - is exactly the sequence
of values the run of the generator yields.  `distinctFors` says that two for statements that
follow each other are two statements (true of every syntax tree; forced, see
`yield_order_same_for_id_witness`). -/
theorem yield_order_is_run (len : Nat → Nat) (segs : List Seg) (h : distinctFors segs = true) :
    order JediModel.Gen.C02.yieldGroupsKeyed len (parents segs) = some (run len segs) := by
  have hk : JediModel.Gen.C02.yieldGroupsKeyed = false := rfl
  rw [hk]
  simp only [order, group, Bool.false_eq_true, if_false, groupAdj_parents segs h, Option.map_some,
    emit_groups]

/-- position by position: the `k`-th element jedi hands to the `k`-th target of an unpacking (or to
index `k`) is the `k`-th value the run yields - and there are exactly as many. -/
theorem yield_order_kth (len : Nat → Nat) (segs : List Seg) (h : distinctFors segs = true) :
    ∃ out, order JediModel.Gen.C02.yieldGroupsKeyed len (parents segs) = some out ∧
      out.length = (run len segs).length ∧ ∀ k : Nat, out[k]? = (run len segs)[k]? :=
  ⟨_, yield_order_is_run len segs h, rfl, fun _ => rfl⟩

example : distinctFors [.top 1, .loop 7 2 [3], .top 4, .loop 8 5 []] = true ∧
    order JediModel.Gen.C02.yieldGroupsKeyed (fun _ => 2) (parents [.top 1, .loop 7 2 [3], .top 4, .loop 8 5 []]) =
      some [(1, none), (2, some 0), (3, some 0), (2, some 1), (3, some 1), (4, none), (5, some 0), (5, some 1)] := by
  decide

/-- witness: with the groups keyed by the for statement (one dict entry for ALL top-level yields)
`yield K1(); for x in (K2(), K3()): yield x; yield K4()` is emitted as K1, K4, K2, K3 - the second
target of an unpacking gets K4 where the run gives K2. -/
theorem yield_order_keyed_witness :
    order true (fun _ => 2) (parents [.top 1, .loop 7 2 [], .top 3]) =
      some [(1, none), (3, none), (2, some 0), (2, some 1)] ∧
    run (fun _ => 2) [.top 1, .loop 7 2 [], .top 3] = [(1, none), (2, some 0), (2, some 1), (3, none)] := by
  decide

/-- witness for the hypothesis: were two consecutive loops the SAME statement, their yields would
be one group. -/
theorem yield_order_same_for_id_witness :
    order false (fun _ => 2) (parents [.loop 1 1 [], .loop 1 2 []]) ≠
      some (run (fun _ => 2) [.loop 1 1 [], .loop 1 2 []]) := by
  decide

/-- a yield behind an `if` / nested for: the order is given up (one merged value) -/
example : order false (fun _ => 2) [(1, .top), (2, .other)] = none := by decide

end YieldOrder

end JediModel.Props.C02

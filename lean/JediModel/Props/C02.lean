import JediModel.Lemmas.PyCore
import JediModel.Lemmas.PyCoreExact
/-! # C02 — Inferred types agree with what the program does when executed

`evalC` is the concrete semantics of the PyCore fragment (validated against CPython on every
run), `mayE` the transcription of jedi's inference (validated against `Script.infer`).
Property theorems only. -/
namespace JediModel.Props.C02
open JediModel.PyCore

/-- **Soundness.** For every PyCore program, every amount of fuel, every module-level position
and every expression that the run evaluates to a value `v`: jedi's inference offers a shape that
describes `v` — same kind, same creating `def`/`class` statement, and for tuples and constructor
arguments, position by position, recursively.  Where the program would fail at run time `evalC`
is `none` and nothing is claimed.  Hypothesis `WFClasses` (static, decidable): a base class is
named by its class name, and only classes without a base define `__init__`.  The second clause
is forced — see `derived_init_hides_base_self_attribute` below (FULL statement false, replayed on
the real code). -/
theorem may_sound_partial (p : Prog) (hwf : WFClasses p = true) (fuel pos : Nat) (e : Expr) (v : Val)
    (h : evalC p fuel (.module pos) e = some v) :
    ∃ s ∈ mayE p fuel (.module pos) e, covers v s = true :=
  coversAny_iff.mp ((sound p hwf fuel).eval (.module pos) (.module pos) e v rfl h)

/-- a describing shape has the same top-level class -/
theorem covers_top (v : Val) (s : Shape) (h : covers v s = true) : s.top = v.top := by
  cases v <;> cases s <;> simp_all [covers, Val.top, Shape.top]
  all_goals first | exact h.1.symm | exact ⟨h.1.2.symm, h.2.symm⟩ | skip

/-- **The class of the run-time value is among the definitions `infer` reports, and that
definition points at the statement that really created the value.** -/
theorem may_sound_class_partial (p : Prog) (hwf : WFClasses p = true) (fuel pos : Nat) (e : Expr)
    (v : Val) (h : evalC p fuel (.module pos) e = some v) :
    v.top ∈ (mayE p fuel (.module pos) e).map Shape.top := by
  obtain ⟨s, hs, hc⟩ := may_sound_partial p hwf fuel pos e v h
  exact List.mem_map.mpr ⟨s, hs, covers_top v s hc⟩

/-- the same inside a function body whose parameters are bound to described arguments -/
theorem may_sound_in_function (p : Prog) (hwf : WFClasses p = true) (fuel id : Nat)
    (args : List Val) (as : List (List Shape)) (hargs : coversList args as = true) (e : Expr)
    (v : Val) (h : evalC p fuel (.func id args) e = some v) :
    ∃ s ∈ mayE p fuel (.func id as) e, covers v s = true :=
  coversAny_iff.mp ((sound p hwf fuel).eval (.func id args) (.func id as) e v ⟨rfl, hargs⟩ h)

/-- ... and inside a method body (`m = none`: `__init__`) with `self` and the arguments described -/
theorem may_sound_in_method (p : Prog) (hwf : WFClasses p = true) (fuel cid : Nat) (m : Option Nat)
    (sv : Val) (ss : Shape) (hs : covers sv ss = true) (args : List Val) (as : List (List Shape))
    (hargs : coversList args as = true) (e : Expr) (v : Val)
    (h : evalC p fuel (.meth cid m sv args) e = some v) :
    ∃ s ∈ mayE p fuel (.meth cid m ss as) e, covers v s = true :=
  coversAny_iff.mp ((sound p hwf fuel).eval (.meth cid m sv args) (.meth cid m ss as) e v
    ⟨rfl, rfl, hs, hargs⟩ h)

/-- **Exactness.** In a program without conditionals only one value can reach any expression,
and `infer` reports exactly that value's shape and nothing else. -/
theorem may_exact (p : Prog) (hp : p.ternFree = true) (hwf : WFClasses p = true)
    (hs : SingleAssignInit p = true) (fuel pos : Nat) (e : Expr) (v : Val)
    (he : e.ternFree = true) (h : evalC p fuel (.module pos) e = some v) :
    mayE p fuel (.module pos) e = [erase v] :=
  (exact p hp hwf hs fuel).eval (.module pos) e v he h

/-- the erased value is described by itself (so `may_exact` refines `may_sound`) -/
theorem covers_erase : (∀ v : Val, covers v (erase v) = true) := by
  intro v
  induction v using Val.rec (motive_2 := fun vs => coversList vs (eraseList vs) = true) with
  | int => rfl
  | str => rfl
  | func i => simp [erase, covers]
  | cls i => simp [erase, covers]
  | inst i vs ih => simpa [erase, covers] using ih
  | bound r c m ih => simp [erase, covers, ih]
  | tuple vs ih => simpa [erase, covers] using ih
  | nil => rfl
  | cons v vs ihv ihvs => simp [eraseList, coversList, coversAny, ihv, ihvs]

/-- FULL exactness (with conditionals) is false by design: both arms of `a if c else b` are
reported although the run takes one. -/
theorem conditional_reports_both_arms :
    (evalC [.probe (.tern true .int .str)] 5 (.module 0) (.tern true .int .str)).map Val.top
      = some .int ∧
    (mayE [.probe (.tern true .int .str)] 5 (.module 0) (.tern true .int .str)).map Shape.top
      = [.int, .str] := by
  decide

/-- FULL soundness (without `WFClasses`) is false of the unchanged code:
`class B:` / `    def __init__(self): self.a = 1` / `class D(B):` / `    a = 's'` /
`    def __init__(self): pass` / `D().a` — the run gives `'s'` (B's `__init__` never runs),
jedi's `SelfAttributeFilter` finds `self.a = 1` in `B.__init__` first and reports only `int`.
(names: B=0, D=1, a=2) -/
def witnessDerivedInit : Prog :=
  [.klass 0 none [] (some ⟨[], [(2, .int)]⟩) [],
   .klass 1 (some 0) [(2, .str)] (some ⟨[], []⟩) [],
   .probe (.attr (.call (.name 1) []) 2)]

theorem derived_init_hides_base_self_attribute :
    WFClasses witnessDerivedInit = false ∧
    (evalC witnessDerivedInit 20 (.module 2) (.attr (.call (.name 1) []) 2)).map Val.top = some .str ∧
    (mayE witnessDerivedInit 20 (.module 2) (.attr (.call (.name 1) []) 2)).map Shape.top = [.int] := by
  decide

/-! ## non-vacuity -/

/-- `class C: a = (1, 's')` / `def f(p): return p.a[1]` / `x = f(C())`: the run gives `str`,
so does jedi, exactly. (names: C=0, a=1, f=2, p=3, x=4) -/
example :
    let p : Prog := [.klass 0 none [(1, .tuple [.int, .str])] none [],
                     .defn 2 [3] (.index (.attr (.name 3) 1) 1),
                     .assign 4 (.call (.name 2) [.call (.name 0) []]),
                     .probe (.name 4)]
    p.ternFree = true ∧ WFClasses p = true ∧ SingleAssignInit p = true ∧
    (evalC p 20 (.module 3) (.name 4)).map Val.top = some .str ∧
    (mayE p 20 (.module 3) (.name 4)).map Shape.top = [.str] := by decide

/-- `class C:` / `    def __init__(self, p): self.b = (p, 1)` / `    def m(self): return self.b[0]` /
`x = C('s').m()`: constructor argument flows through `self.b` into the method result.
(names: C=0, p=1, b=2, m=3, x=4) -/
example :
    let p : Prog := [.klass 0 none [] (some ⟨[1], [(2, .tuple [.name 1, .int])]⟩)
                       [⟨3, [], .index (.attr .self 2) 0⟩],
                     .assign 4 (.call (.attr (.call (.name 0) [.str]) 3) []),
                     .probe (.name 4)]
    p.ternFree = true ∧ WFClasses p = true ∧ SingleAssignInit p = true ∧
    (evalC p 30 (.module 2) (.name 4)).map Val.top = some .str ∧
    (mayE p 30 (.module 2) (.name 4)).map Shape.top = [.str] := by decide

end JediModel.Props.C02

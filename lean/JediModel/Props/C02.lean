import JediModel.Lemmas.PyCore
import JediModel.Lemmas.PyCoreExact
/-! # C02 — Inferred types agree with what the program does when executed

`evalC` is the concrete semantics of the PyCore fragment (validated against CPython on every
run), `mayE` the transcription of jedi's inference (validated against `Script.infer`).
Property theorems only. -/
namespace JediModel.Props.C02
open JediModel.PyCore

/-- **Soundness.** For every PyCore program, every amount of fuel, every module-level position
and every expression that the run evaluates to a value `v`: jedi's inference offers a shape that
describes `v` — same kind, same creating `def`/`class` statement, and for tuples, position by
position, recursively. No well-formedness hypothesis is needed: where the program would fail at
run time `evalC` is `none` and nothing is claimed. -/
theorem may_sound (p : Prog) (fuel pos : Nat) (e : Expr) (v : Val)
    (h : evalC p fuel (.module pos) e = some v) :
    ∃ s ∈ mayE p fuel (.module pos) e, covers v s = true :=
  coversAny_iff.mp ((sound p fuel).eval (.module pos) (.module pos) e v rfl h)

/-- a describing shape has the same top-level class -/
theorem covers_top (v : Val) (s : Shape) (h : covers v s = true) : s.top = v.top := by
  cases v <;> cases s <;> simp_all [covers, Val.top, Shape.top]

/-- **The class of the run-time value is among the definitions `infer` reports, and that
definition points at the statement that really created the value.** -/
theorem may_sound_class (p : Prog) (fuel pos : Nat) (e : Expr) (v : Val)
    (h : evalC p fuel (.module pos) e = some v) :
    v.top ∈ (mayE p fuel (.module pos) e).map Shape.top := by
  obtain ⟨s, hs, hc⟩ := may_sound p fuel pos e v h
  exact List.mem_map.mpr ⟨s, hs, covers_top v s hc⟩

/-- the same inside a function body whose parameters are bound to described arguments -/
theorem may_sound_in_function (p : Prog) (fuel id : Nat) (args : List Val)
    (as : List (List Shape)) (hargs : coversList args as = true) (e : Expr) (v : Val)
    (h : evalC p fuel (.func id args) e = some v) :
    ∃ s ∈ mayE p fuel (.func id as) e, covers v s = true :=
  coversAny_iff.mp ((sound p fuel).eval (.func id args) (.func id as) e v ⟨rfl, hargs⟩ h)

/-- **Exactness.** In a program without conditionals only one value can reach any expression,
and `infer` reports exactly that value's shape and nothing else. -/
theorem may_exact (p : Prog) (hp : p.ternFree = true) (fuel pos : Nat) (e : Expr) (v : Val)
    (he : e.ternFree = true) (h : evalC p fuel (.module pos) e = some v) :
    mayE p fuel (.module pos) e = [erase v] :=
  (exact p hp fuel).eval (.module pos) e v he h

/-- the erased value is described by itself (so `may_exact` refines `may_sound`) -/
theorem covers_erase : (∀ v : Val, covers v (erase v) = true) := by
  intro v
  induction v using Val.rec (motive_2 := fun vs => coversList vs (eraseList vs) = true) with
  | int => rfl
  | str => rfl
  | func i => simp [erase, covers]
  | cls i => simp [erase, covers]
  | inst i => simp [erase, covers]
  | tuple vs ih => simpa [erase, covers] using ih
  | nil => rfl
  | cons v vs ihv ihvs => simp [eraseList, coversList, coversAny, ihv, ihvs]

/-- FULL exactness (with conditionals) is false by design: both arms of `a if c else b` are
reported although the run takes one. -/
theorem conditional_reports_both_arms :
    (evalC [.probe (.tern true .int .str)] 5 (.module 0) (.tern true .int .str)).map Val.top
      = some .int ∧
    (mayE [.probe (.tern true .int .str)] 5 (.module 0) (.tern true .int .str)).map Shape.top
      = [.int, .str] := by
  decide

/-! ## non-vacuity -/

/-- `class C: a = (1, 's')` / `def f(p): return p.a[1]` / `x = f(C())`: the run gives `str`,
so does jedi, exactly. (names: C=0, a=1, f=2, p=3, x=4) -/
example :
    let p : Prog := [.klass 0 none [(1, .tuple [.int, .str])],
                     .defn 2 [3] (.index (.attr (.name 3) 1) 1),
                     .assign 4 (.call (.name 2) [.call (.name 0) []]),
                     .probe (.name 4)]
    p.ternFree = true ∧ (evalC p 20 (.module 3) (.name 4)).map Val.top = some .str ∧
    (mayE p 20 (.module 3) (.name 4)).map Shape.top = [.str] := by decide

end JediModel.Props.C02

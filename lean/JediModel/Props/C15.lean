import JediModel.Gen.C15
import JediModel.Lemmas.Recursion
import JediModel.Lemmas.Mro
import JediModel.Model.StarImports
/-! # C15 — Inference gives up instead of recursing or exploding

Property theorems only. The four limits are arbitrary naturals in the general statements (so a
changed *value* keeps them), and the source-level instances are stated over `Gen.C15.*`; the
*shape* of `push_execution`, `pop_execution`, `_memoize_default`, `_limit_value_infers` and
`ClassMixin.py__mro__` is tied
to the model by the `*_transcribed` theorems (a removed or reordered check breaks the build) and
by the correspondence streams of `harness/props/c15.py`. -/
namespace JediModel.Props.C15
open JediModel.Recursion

/-- the limits found in `jedi/inference/recursion.py` -/
def srcLimits : Limits :=
  { recursionLimit := Gen.C15.recursionLimit, totalLimit := Gen.C15.totalLimit,
    perFnLimit := Gen.C15.perFnLimit, perFnRecLimit := Gen.C15.perFnRecLimit }

/-! ## tie to the source: the statements the model transcribes -/

/-- `push_execution` consists of exactly the statements `Model.Recursion.push` transcribes, in
this order -/
theorem push_transcribed : Gen.C15.pushSteps =
    ["self._recursion_level += 1", "self._parent_execution_funcs.append(funcdef)",
     "if module_context.is_builtins_module()", "return False", "end",
     "if self._recursion_level > recursion_limit", "return True", "end",
     "if self._execution_count >= total_function_execution_limit", "return True", "end",
     "self._execution_count += 1",
     "if self._funcdef_execution_counts.setdefault(funcdef, 0) >= per_function_execution_limit",
     "if module_context.py__name__() == 'typing'", "return False", "end", "return True", "end",
     "self._funcdef_execution_counts[funcdef] += 1",
     "if self._parent_execution_funcs.count(funcdef) > per_function_recursion_limit",
     "return True", "end", "return False"] := by decide

theorem pop_transcribed : Gen.C15.popSteps =
    ["self._parent_execution_funcs.pop()", "self._recursion_level -= 1"] := by decide

theorem decorator_transcribed : Gen.C15.decoratorSteps =
    ["detector = self.inference_state.execution_recursion_detector",
     "limit_reached = detector.push_execution(self)", "return result",
     "try: if limit_reached:", "finally: detector.pop_execution()"] := by decide

theorem guard_transcribed : Gen.C15.guardTest = "node in pushed_nodes" := by decide

theorem memoize_transcribed :
    Gen.C15.memoHit = ["return memo[key]"] ∧
    Gen.C15.memoMiss = ["if default is not _NO_DEFAULT:     memo[key] = default",
      "rv = function(obj, *args, **kwargs)", "memo[key] = rv", "return rv"] := by decide

theorem node_cap_transcribed :
    Gen.C15.nodeCapTest = ["inference_state.inferred_element_counts[n] > maximum"] ∧
    Gen.C15.cappedFunctions = ["_infer_node", "infer_expr_stmt"] := by decide

/-- the limits are positive: with a zero limit nothing at all would be inferred -/
theorem limits_positive : 0 < Gen.C15.recursionLimit ∧ 0 < Gen.C15.totalLimit ∧
    0 < Gen.C15.perFnLimit ∧ 0 < Gen.C15.perFnRecLimit ∧ 0 < Gen.C15.nodeCap := by decide

/-! ## the execution budget of one query -/

/-- `exec_budget`: along ANY trace of `push_execution` / `pop_execution` calls on a fresh
detector (well bracketed or not, any interleaving, any functions), for arbitrary limits:
* at most `totalLimit` non-builtin executions are let through,
* at most `perFnLimit` executions of any one function outside builtins/`typing` are let through,
* every non-builtin execution that is let through runs at depth ≤ `recursionLimit`, and (outside
  `typing`) with at most `perFnRecLimit` occurrences of its function on the stack, itself included,
* the level counter always equals the stack height. -/
theorem exec_budget (L : Limits) (ops : List Op) :
    let r := runTrace L Det.fresh ops
    r.2.countP Ev.admittedNonBuiltin ≤ L.totalLimit ∧
    (∀ f, r.2.countP (Ev.admittedOf f) ≤ L.perFnLimit) ∧
    (∀ e lvl nested, Ev.pushed e false lvl nested ∈ r.2 → e.builtin = false →
      lvl ≤ L.recursionLimit ∧ (e.typing = false → nested ≤ L.perFnRecLimit)) ∧
    r.1.level = r.1.parents.length := by
  refine ⟨?_, ?_, ?_, ?_⟩
  · have h := runTrace_execCount L ops Det.fresh
    have := h.2 (by simp [Det.fresh])
    have := h.1
    omega
  · intro f
    have h := runTrace_counts L f ops Det.fresh
    have := h.2 (by simp [Det.fresh])
    have := h.1
    omega
  · intro e lvl nested hmem hb
    exact runTrace_admitted L ops Det.fresh e lvl nested hmem hb
  · exact runTrace_level L ops Det.fresh rfl

/-- the instance for the limits in the source: at most 200 non-builtin executions per query -/
theorem exec_budget_src (ops : List Op) :
    (runTrace srcLimits Det.fresh ops).2.countP Ev.admittedNonBuiltin ≤ Gen.C15.totalLimit :=
  (exec_budget srcLimits ops).1

example : (runTrace srcLimits Det.fresh
    ((List.replicate 4 (Op.push ⟨7, false, false⟩)) ++ [Op.pop])).2.map
      (fun | .pushed _ lim _ _ => some lim | _ => none)
    = [some false, some false, some true, some true, none] := by decide

/-- `decorator_terminates`: a program of arbitrarily (mutually, infinitely) recursive
non-builtin functions, run under `execution_recursion_decorator`, never needs more than
`recursionLimit` nested Python calls (`Err.fuel` = RecursionError/hang is unreachable),
never hits `IndexError`, restores the detector's stack, and enters at most `totalLimit`
function bodies — for every call graph `P.body`, cyclic or not, and all limits. -/
theorem decorator_terminates (L : Limits) (P : Prog) (hnb : ∀ f, P.builtin f = false) (f : Nat) :
    ∃ d' w, exec L P L.recursionLimit Det.fresh f = .ok (d', w) ∧
      d'.level = 0 ∧ d'.parents = [] ∧ w ≤ L.totalLimit := by
  obtain ⟨d', w, h, sf, hw⟩ := exec_ok L P hnb L.recursionLimit Det.fresh f (by simp [Det.fresh])
  have ht := exec_total L P L.recursionLimit Det.fresh d' f w h (by simp [Det.fresh])
  refine ⟨d', w, h, sf.1, sf.2, ?_⟩
  simp [Det.fresh] at hw
  omega

/-- a self-recursive function `f0: f0(); f0()` -/
def selfRec : Prog := { body := fun _ => [0, 0], builtin := fun _ => false, typing := fun _ => false }

example : (match exec srcLimits selfRec 15 Det.fresh 0 with | .ok (_, w) => some w | _ => none)
    = some 3 := by decide

/-- why the decorator is needed: builtins are exempt, and an exempt self-recursive function
exhausts any amount of Python stack (FULL statement without `hnb` is false) -/
theorem decorator_needs_nonbuiltin :
    (match exec srcLimits { body := fun _ => [0], builtin := fun _ => true, typing := fun _ => false }
      15 Det.fresh 0 with | .error e => some e | .ok _ => none) = some .fuel := by decide

/-! ## memoisation with a stored default -/

/-- `memo_eval_terminates_linear`: for every graph on `n` keys (cycles allowed) and every
`combine`, `_memoize_default` with a default terminates with Python nesting depth ≤ `n`, enters
each key's body at most once in total (`bodies ≤ n`), and makes at most `1 + |E|` wrapper calls. -/
theorem memo_eval_terminates_linear {Val : Type} (G : Graph Val) (n : Nat) (dflt : Val)
    (hd : G.default = some dflt) (hc : Closed G n) (v : Nat) (hv : v < n) :
    ∃ m' r w, eval G n Memo.empty v = .ok (m', r, w) ∧
      w.bodies ≤ n ∧ w.calls ≤ 1 + edges G.deps n ∧ (m' v).isSome := by
  obtain ⟨m', r, w, h, spec⟩ := eval_ok G n dflt hd hc n Memo.empty v hv
    (by rw [pot_one_empty]; exact Nat.le_refl _)
  refine ⟨m', r, w, h, ?_, ?_, spec.filled⟩
  · have := spec.bodies; rw [pot_one_empty] at this; omega
  · have := spec.calls; rw [pot_edges_empty] at this; omega

/-- and the same from any memo left behind by earlier queries on the same Script: the work is
bounded by the number of keys that are still missing -/
theorem memo_eval_incremental {Val : Type} (G : Graph Val) (n : Nat) (dflt : Val)
    (hd : G.default = some dflt) (hc : Closed G n) (m : Memo Val) (v : Nat) (hv : v < n) :
    ∃ m' r w, eval G n m v = .ok (m', r, w) ∧
      w.bodies + pot (fun _ => 1) m' n ≤ pot (fun _ => 1) m n ∧ Grows m m' := by
  have hle : pot (fun _ => 1) m n ≤ n := by
    have := pot_le (fun _ => 1) m n; rw [pot_one_empty] at this; exact this
  obtain ⟨m', r, w, h, spec⟩ := eval_ok G n dflt hd hc n m v hv hle
  exact ⟨m', r, w, h, spec.bodies, spec.grows⟩

/-- the 2-cycle `a = b; b = a` with set-valued results -/
def twoCycle : Graph (List Nat) :=
  { deps := fun v => if v = 0 then [1] else [0], combine := fun v vs => v :: vs.flatten, default := some [] }

example : Closed twoCycle 2 := by
  intro v hv c hc
  simp only [twoCycle] at hc
  split at hc <;> simp at hc <;> omega

example : (match eval twoCycle 2 Memo.empty 0 with | .ok (_, r, w) => some (r, w) | _ => none)
    = some ([0, 1], ⟨2, 3⟩) := by decide

/-- FULL (any `default`, including `_NO_DEFAULT`) is false: without a stored default a
self-referential key exhausts every amount of Python stack -/
theorem memo_no_default_diverges (fuel : Nat) (m : Memo Nat) (hm : m 0 = none) :
    eval { deps := fun _ => [0], combine := fun _ _ => 0, default := none } fuel m 0
      = .error .fuel := by
  induction fuel with
  | zero => unfold eval; simp [hm]
  | succ fuel ih => unfold eval; simp [hm, evalArgs, ih, storeDefault, finishEval]

/-! ## star imports: `ModuleMixin.star_imports` -/

section StarImports
open JediModel.StarImports

/-- the shapes found in jedi/inference/value/module.py -/
def srcStarCfg : Cfg := { «default» := Gen.C15.starDefault, skipSelf := Gen.C15.starSkipSelf }

/-- `star_imports` consists of exactly the statements `Model.StarImports.body` transcribes, under
the memoiser with the re-entry default `[]` -/
theorem star_imports_transcribed :
    Gen.C15.starDecorators = ["inference_state_method_cache([])"] ∧
    Gen.C15.starSteps = ["modules = []", "module_context = self.as_context()",
      "for i in self.tree_node.iter_imports()", "if i.is_star_import()",
      "new = Importer(self.inference_state, import_path=i.get_paths()[-1], module_context=module_context, level=i.level).follow()",
      "for module in new", "if isinstance(module, ModuleValue)", "modules += module.star_imports()",
      "end", "end", "modules += new", "end", "end", "return modules"] := ⟨rfl, rfl⟩

theorem star_closed (cfg : Cfg) (imports : Nat → List Nat) (n : Nat)
    (hc : ∀ v, v < n → ∀ c ∈ imports v, c < n) : Closed (graph cfg imports) n := by
  intro v hv c hcm
  simp only [graph, List.mem_filter] at hcm
  exact hc v hv c hcm.1

/-- `star_imports_terminates`: for ANY star-import relation on `n` modules (self imports, cycles of
any length, several cycles), whatever the test in front of the recursive call, as long as the
memoiser stores a default before the body runs: `module.star_imports()` returns with Python nesting
≤ `n`, enters at most `n` bodies and makes at most `1 + |star imports|` calls. -/
theorem star_imports_terminates (cfg : Cfg) (dflt : List Nat) (hd : cfg.default = some dflt)
    (imports : Nat → List Nat) (n : Nat) (hc : ∀ v, v < n → ∀ c ∈ imports v, c < n) (v : Nat) (hv : v < n) :
    ∃ m' r w, starEval cfg imports n Memo.empty v = .ok (m', r, w) ∧
      w.bodies ≤ n ∧ w.calls ≤ 1 + edges imports n := by
  obtain ⟨m', r, w, h, hb, hcalls, _⟩ :=
    memo_eval_terminates_linear (graph cfg imports) n dflt hd (star_closed cfg imports n hc) v hv
  refine ⟨m', r, w, h, hb, Nat.le_trans hcalls ?_⟩
  have : ∀ k, edges (graph cfg imports).deps k ≤ edges imports k := by
    intro k
    induction k with
    | zero => exact Nat.le_refl _
    | succ k ih =>
      have h1 : edges (graph cfg imports).deps (k + 1)
          = edges (graph cfg imports).deps k + ((imports k).filter (recurses cfg k)).length := rfl
      have h2 : edges imports (k + 1) = edges imports k + (imports k).length := rfl
      have := List.length_filter_le (recurses cfg k) (imports k)
      omega
  have := this n
  omega

/-- the source instance: the shapes read from module.py -/
theorem star_imports_terminates_src (imports : Nat → List Nat) (n : Nat)
    (hc : ∀ v, v < n → ∀ c ∈ imports v, c < n) (v : Nat) (hv : v < n) :
    ∃ m' r w, starEval srcStarCfg imports n Memo.empty v = .ok (m', r, w) ∧
      w.bodies ≤ n ∧ w.calls ≤ 1 + edges imports n :=
  star_imports_terminates srcStarCfg [] (by decide) imports n hc v hv

example : (match starEval srcStarCfg (ringImports 3) 3 Memo.empty 0 with
    | .ok (_, r, w) => some (r, w) | _ => none) = some ([0, 2, 1], ⟨3, 4⟩) := by decide

/-- the seeded shape: no stored default, the test only excludes the module itself; two modules
that star-import each other -/
def mutualNoDefault : Graph (List Nat) := graph { «default» := none, skipSelf := true } (ringImports 2)

/-- FULL (any memoiser argument) is false: without a stored default a test that only excludes the
module itself does not stop a cycle through two modules - every amount of stack is exhausted -/
theorem star_imports_no_default_diverges (fuel : Nat) (m : Memo (List Nat))
    (hm : ∀ k, k < 2 → m k = none) (v : Nat) (hv : v < 2) :
    eval mutualNoDefault fuel m v = .error .fuel := by
  have d0 : mutualNoDefault.deps 0 = [1] := rfl
  have d1 : mutualNoDefault.deps 1 = [0] := rfl
  have dn : mutualNoDefault.default = none := rfl
  induction fuel generalizing v with
  | zero => unfold eval; simp [hm v hv]
  | succ fuel ih =>
    have h0 := ih 0 (by decide)
    have h1 := ih 1 (by decide)
    have : v = 0 ∨ v = 1 := by omega
    rcases this with h | h <;> subst h <;> unfold eval
    · simp [hm, d0, storeDefault, dn, evalArgs, h1, finishEval]
    · simp [hm, d1, storeDefault, dn, evalArgs, h0, finishEval]

/-- and termination is all the memoiser gives: the listing itself is not de-duplicated, on `k`
nested diamonds of star imports it has `2^(k+2) - 4` entries for `3k+1` modules
(kernel-checked for k = 1..4; see known finding C15-star-import-diamonds-exponential) -/
theorem star_imports_exponential_witness :
    (List.range 4).map (fun k =>
      match starEval srcStarCfg diamondImports (3 * (k + 1) + 1) Memo.empty (3 * (k + 1)) with
      | .ok (_, r, _) => r.length | _ => 0) = [4, 12, 28, 60] := by decide

end StarImports

/-! ## the on-stack guard alone -/

/-- `guard_only_depth`: with only `execution_allowed` (no memo) evaluation of any graph on `n`
nodes still terminates, with nesting depth ≤ `n` … -/
theorem guard_only_depth (deps : Nat → List Nat) (n : Nat)
    (hc : ∀ v, v < n → ∀ c ∈ deps v, c < n) (v : Nat) (hv : v < n) :
    ∃ w, evalGuard deps n [] v = .ok ([], w) :=
  evalGuard_ok deps n hc n [] v hv (by rw [free_nil]; exact Nat.le_refl _)

/-- the chain of diamonds `k -> k-1, k-1` -/
def diamonds : Nat → List Nat := fun v => if v = 0 then [] else [v - 1, v - 1]

/-- … but the work is exponential (2^(n)-1 bodies for the diamond chain of n nodes), while the
memo makes it linear: this is why the memo matters for the polynomial-growth half of C15 -/
theorem guard_only_exponential_witness :
    (match evalGuard diamonds 10 [] 9 with | .ok (_, w) => some w | _ => none) = some 1023 ∧
    (match eval { deps := diamonds, combine := fun _ _ => (), default := some () } 10 Memo.empty 9
      with | .ok (_, _, w) => some w.bodies | _ => none) = some 10 := by decide

/-! ## the per-context cap of `_limit_value_infers` -/

/-- `node_cap`: over any sequence of calls of a `_limit_value_infers`-wrapped function on one
`InferenceState`, the wrapped function is entered at most `max 1 M` times for a context `n`,
where `M` bounds the `maximum` of the calls on `n` -/
theorem node_cap (cap factor n M : Nat) (hM : 1 ≤ M) (calls : List (Nat × Bool))
    (hmax : ∀ p ∈ calls, p.1 = n → maxOf cap factor p.2 ≤ M) :
    enteredFor n calls (limitRun cap factor Counts.empty calls).2 ≤ M := by
  have := limitRun_cap cap factor n M hM calls hmax Counts.empty
  omega

/-- source instance: a non-builtin context is entered at most 300 times per Script -/
theorem node_cap_src (n : Nat) (calls : List (Nat × Bool)) (hg : ∀ p ∈ calls, p.1 = n → p.2 = false) :
    enteredFor n calls (limitRun Gen.C15.nodeCap Gen.C15.nodeCapBuiltinFactor Counts.empty calls).2
      ≤ Gen.C15.nodeCap := by
  apply node_cap _ _ _ _ (by decide)
  intro p hp hn
  simp [maxOf, hg p hp hn]

example : (limitRun 2 100 Counts.empty [(5, false), (5, false), (5, false), (6, false)]).2
    = [true, true, false, true] := by decide

/-- FULL for `cap = 0` is false (the `KeyError` branch enters the body without looking at the
cap), hence the `1 ≤ M` above -/
theorem node_cap_zero_witness : (limitRun 0 100 Counts.empty [(5, false)]).2 = [true] := by decide

/-! ## the listing of base classes: `ClassMixin.py__mro__`

The polynomial-growth half of C15 for a chain or tree of n *class* definitions: every query on an
instance walks `py__mro__` of its class; the listing must not repeat classes that are reachable
through several bases. -/

/-- `py__mro__` consists of exactly the statements `Model.Mro` transcribes, is memoised by the
generator cache, and — the line everything below depends on — the element appended to the
de-duplication list, the element tested against it and the element yielded are all the loop
variable of the innermost loop -/
theorem mro_transcribed :
    Gen.C15.mroSteps =
      ["mro = [self]", "yield self", "for lazy_cls in self.py__bases__()",
       "for cls in lazy_cls.infer()", "try", "mro_method = cls.py__mro__",
       "except AttributeError", "else", "for cls_new in mro_method()",
       "if cls_new not in mro", "mro.append(cls_new)", "yield cls_new",
       "end", "end", "end", "end", "end"] ∧
    Gen.C15.mroDecorators = ["inference_state_method_generator_cache()"] ∧
    Gen.C15.mroSeenList = "mro" ∧
    Gen.C15.mroAppended = Gen.C15.mroYielded ∧ Gen.C15.mroTested = Gen.C15.mroYielded ∧
    Gen.C15.mroLoopVar = Gen.C15.mroYielded := by decide

open JediModel.Mro in
/-- `mro_linear`: over ANY inheritance relation on `n` classes (several bases, repeated bases,
shared ancestors at any depth), a `py__mro__` listing that completes contains no class twice and
only classes of the hierarchy: its length is at most `n` — for every class and every nesting depth -/
theorem mro_linear (bases : Nat → List Nat) (n : Nat) (hc : Closed bases n)
    (fuel c : Nat) (hcn : c < n) (l : List Nat) (h : mro bases fuel c = .ok l) :
    l.Nodup ∧ (∀ x ∈ l, x < n) ∧ l.length ≤ n := by
  unfold mro outOf at h
  split at h
  · simp at h
  · rename_i s hs
    simp at h
    subst h
    have := (mroWith_spec bases n hc fuel c s hcn hs).1
    exact ⟨this.nodup, this.below, this.length_le⟩

open JediModel.Mro in
/-- `mro_work_poly`: the body of `py__mro__` of a class with `k` inferred bases runs its inner loop at
most `k·n` times and compares at most `k·n²` list cells; all bodies of a hierarchy together (each
runs once per inference state: generator cache) need at most `|E|·n` iterations -/
theorem mro_work_poly (bases : Nat → List Nat) (n : Nat) (hc : Closed bases n) (fuel : Nat) :
    (∀ c s, c < n → mroWith recordYielded bases fuel c = .ok s →
      s.steps ≤ (bases c).length * n ∧ s.scan ≤ (bases c).length * (n * n)) ∧
    totalSteps recordYielded bases fuel n ≤ inheritEdges bases n * n :=
  ⟨fun c s hcn h => (mroWith_spec bases n hc fuel c s hcn h).2,
   totalSteps_le bases n hc fuel n (Nat.le_refl n)⟩

open JediModel.Mro in
/-- `mro_terminates`: in an acyclic hierarchy (bases are defined before the class) nesting depth
`c + 1` suffices for class `c`, the listing completes and is at most `n` long -/
theorem mro_terminates (bases : Nat → List Nat) (hdag : ∀ c, ∀ b ∈ bases c, b < c) (n c : Nat)
    (hcn : c < n) : ∃ l, mro bases n c = .ok l ∧ l.length ≤ n := by
  obtain ⟨s, hs⟩ := mroWith_ok recordYielded bases hdag n c hcn
  have hc : Closed bases n := fun c hc b hb => by have := hdag c b hb; omega
  have h : mro bases n c = .ok s.out := by simp [mro, outOf, hs]
  exact ⟨s.out, h, (mro_linear bases n hc n c hcn s.out h).2.2⟩

/-- a diamond on top of a diamond: 7 classes -/
example : (match JediModel.Mro.mro JediModel.Mro.diamondBases 7 6 with | .ok l => some l | _ => none)
    = some [6, 4, 3, 1, 0, 2, 5] := by decide

/-- length of the listing and cells compared for the top class of `k` nested diamonds -/
def diamondListing (record : Nat → Nat → Nat) (k : Nat) : Option (Nat × Nat) :=
  match JediModel.Mro.mroWith record JediModel.Mro.diamondBases (3 * k + 1) (3 * k) with
  | .ok s => some (s.out.length, s.scan)
  | .error _ => none

set_option maxRecDepth 4000 in
/-- FULL for an arbitrary recorded element is false: recording the direct base instead of the
yielded class (`mro.append(cls)`) lists `2^(k+2) - 3` entries for `k` nested diamonds (3k+1
classes) and compares ~4^k cells, where the source lists `3k + 1` -/
theorem mro_dedup_needed_witness :
    (List.range 4).map (fun k => (diamondListing JediModel.Mro.recordBase k).map (·.1))
      = [some (2 ^ 2 - 3), some (2 ^ 3 - 3), some (2 ^ 4 - 3), some (2 ^ 5 - 3)] ∧
    (List.range 4).map (fun k => (diamondListing JediModel.Mro.recordYielded k).map (·.1))
      = [some 1, some 4, some 7, some 10] ∧
    diamondListing JediModel.Mro.recordBase 3 = some (29, 406) ∧
    diamondListing JediModel.Mro.recordYielded 3 = some (10, 115) := by decide

/-- FULL without acyclicity is false for the *model* (its fuel runs out on a self-inheriting class);
in the code the generator cache's sentinel cuts the cycle — oracle streams `gencache` and `e2e` -/
theorem mro_cycle_needs_sentinel (fuel : Nat) :
    JediModel.Mro.mro (fun _ => [0]) fuel 0 = .error .fuel := by
  induction fuel with
  | zero => rfl
  | succ fuel ih =>
    simp only [JediModel.Mro.mro] at ih ⊢
    unfold JediModel.Mro.mroWith
    simp only [JediModel.Mro.outer]
    rw [ih]
    rfl

/-! ## together -/

/-- `bounded_work`: a query that starts `calls` capped inferences spread over `k` distinct
contexts `ctxs`, none of them builtin, enters at most `k * nodeCap` wrapped bodies — a bound that
is linear in the size of the analysed program and independent of its shape. -/
theorem bounded_work (ctxs : List Nat) (calls : List (Nat × Bool))
    (hg : ∀ p ∈ calls, p.2 = false) :
    (ctxs.map (fun n => enteredFor n calls
      (limitRun Gen.C15.nodeCap Gen.C15.nodeCapBuiltinFactor Counts.empty calls).2)).sum
      ≤ ctxs.length * Gen.C15.nodeCap := by
  induction ctxs with
  | nil => simp
  | cons n rest ih =>
    simp only [List.map_cons, List.sum_cons, List.length_cons]
    have := node_cap_src n calls (fun p hp _ => hg p hp)
    rw [Nat.add_mul]
    omega

end JediModel.Props.C15

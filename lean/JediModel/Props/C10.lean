import JediModel.Gen.C10
import JediModel.Lemmas.Imports
import JediModel.Model.StarChain
/-! # C10 — imports resolve to what Python's import system would load

Specification side: `resolveName` (= `importlib._bootstrap._resolve_name`), `pyFind`/`pyImport`
(= `PathFinder`/`FileFinder` on a file-system model, validated against the real importlib by the
correspondence stream `find`), `pyFromImport`.  jedi side: `Importer.init`, `importModuleByNames`,
`inferFromImport`, `transformPathToDotted`. -/
namespace JediModel.Props.C10
open JediModel.SysPath JediModel.Imports
open JediModel.Gen.C10 (dottedSepFix pathSuffixes)

/-! ## relative level rewriting -/

/-- Whenever `importlib._bootstrap._resolve_name` succeeds, jedi's `Importer.__init__` rewrites the
relative import to exactly that absolute dotted path and searches the normal sys path. -/
theorem level_rewrite_eq_resolve_name (importPath : List String) (level : Nat) (pkg : List String)
    (file : Option Parts) (project : Parts) (r : List String) (hl : 1 ≤ level)
    (h : resolveName pkg level importPath = .ok r) :
    (Importer.init importPath level pkg file project).importPath = r ∧
    (Importer.init importPath level pkg file project).fixedSysPath = none ∧
    (Importer.init importPath level pkg file project).inferPossible = true := by
  unfold resolveName at h
  split at h
  · cases h
  split at h
  · cases h
  next h1 h2 =>
    injection h with h
    have hle : level ≤ pkg.length := by omega
    have hne : level ≠ 0 := by omega
    unfold Importer.init
    simp only [hne, if_false, hle, if_true]
    refine ⟨?_, by simp, by simp⟩
    rw [← h]
    by_cases h1' : level > 1
    · simp [h1']
    · have : level = 1 := by omega
      simp [this]

/-- Whenever `_resolve_name` raises (no parent package / beyond top-level package), jedi is in its
heuristic branch: the search path is fixed to one directory or inference is given up; it never
silently treats the import as absolute.
(STRICT reading "resolves to nothing" is false by design: jedi deliberately still resolves relative
to the directory of the file; Python raises ImportError there, which the property does not judge.) -/
theorem level_heuristic_when_resolve_fails (importPath : List String) (level : Nat) (pkg : List String)
    (file : Option Parts) (project : Parts) (e : ResolveErr) (hl : 1 ≤ level)
    (h : resolveName pkg level importPath = .error e) :
    (Importer.init importPath level pkg file project).fixedSysPath.isSome = true ∨
    (Importer.init importPath level pkg file project).inferPossible = false := by
  have hgt : ¬ level ≤ pkg.length := by
    unfold resolveName at h
    split at h
    · next h0 => simp at h0; subst h0; simp; omega
    split at h
    · omega
    · cases h
  have hne : level ≠ 0 := by omega
  unfold Importer.init
  simp only [hne, if_false, hgt]
  generalize levelToBaseImportPath file.isNone project
    (match file with | none => project | some f => dirname f) level = r
  obtain ⟨a, b⟩ := r
  cases b <;> simp

/-! ## the walk over the dotted name -/

/-- **Module discovery is delegated to the finders, entirely.**  In `import_module` the pair
`(file_io_or_ns, is_pkg)` has exactly two producers and both are `get_module_info` calls (the real
importlib finders of the target interpreter, run in the helper); neither `import_module` nor a helper
it calls before it has a file looks at the file system itself.  So the `find` parameter of the walk
below IS importlib - a "fast path" that probes `<dir>/<name>.py` (or any other own rule about which
of a module and a same-named package wins) makes this statement false. -/
theorem module_lookup_only_through_finders :
    JediModel.Gen.C10.moduleInfoProducers = ["get_module_info", "get_module_info"] ∧
      JediModel.Gen.C10.importModuleFileProbes = [] := by decide


/-- With importlib's finder as `find` (and no stale cache entry) the fold of
`import_module_by_names` is Python's import of the whole dotted name: same module, and nothing as
soon as one component cannot be found or a parent is not a package. -/
theorem walk_eq_pyImport (fs : FS) (sp : List Parts) (names : List String) :
    importModuleByNames (pyFind fs) (fun _ => none) sp names = (pyImport fs sp names).toList := by
  cases names with
  | nil => simp [importModuleByNames, walkFrom, pyImport]
  | cons n rest =>
    unfold importModuleByNames walkFrom pyImport
    simp only [List.flatMap_cons, List.flatMap_nil, List.append_nil, importModule]
    cases hf : pyFind fs n sp with
    | none => simp
    | some g => simp [walkFrom_single]

/-- `Importer.follow` for an absolute import (or a relative one rewritten by
`level_rewrite_eq_resolve_name`): exactly what Python imports on that search path -/
theorem follow_eq_pyImport (fs : FS) (sp : List Parts) (names : List String) (hn : names ≠ []) :
    ({ importPath := names, fixedSysPath := none, inferPossible := true } : Importer).follow
      (pyFind fs) (fun _ => none) sp = (pyImport fs sp names).toList := by
  unfold Importer.follow
  have : names.isEmpty = false := by cases names <;> simp_all
  simp [this, walk_eq_pyImport]

/-- nothing is found as soon as the first component is missing -/
theorem walk_nothing_of_first_missing (fs : FS) (sp : List Parts) (n : String) (rest : List String)
    (h : pyFind fs n sp = none) :
    importModuleByNames (pyFind fs) (fun _ => none) sp (n :: rest) = [] := by
  rw [walk_eq_pyImport]; simp [pyImport, h]

/-! ## from-import: attribute of the package first, then the sub-module -/

theorem from_import_eq_python (follow : List String → List Found) (imp : List String → Option Found)
    (defines : Found → String → Bool) (path : List String) (name : String)
    (h : ∀ p, follow p = (imp p).toList) :
    inferFromImport follow defines path name = (pyFromImport imp defines path name).toList := by
  unfold inferFromImport pyFromImport
  rw [h path, h (path ++ [name])]
  cases imp path with
  | none => simp
  | some m =>
    by_cases hd : defines m name = true
    · simp [hd]
    · simp [hd]
      cases imp (path ++ [name]) <;> simp

/-! ## file path → dotted name -/

/-- `p` is a directory prefix of the string `mp`, not merely a string prefix -/
def DirBoundary (p mp : List Char) : Prop :=
  (mp.drop p.length).head? = some '/' ∨ p.getLast? = some '/'

/-
FULL (false on the unchanged code, `dottedSepFix = false`; see `dotted_string_prefix_witness`, F4):
  every candidate produced for a sys.path entry `p` spells the path of the file below `p`.
-/

/-- Every candidate name produced for a sys.path entry `p` is the list of path components of the
file below the directory `p` — provided `p` is a directory prefix (hypothesis forced by F4; with
the repair `sepFix = true` it holds by construction, see `dotted_solution_boundary_of_fix`). -/
theorem dotted_solution_spells_path_partial (sepFix : Bool) (mp p : List Char) (s : List (List Char))
    (h : solutionFor sepFix mp p = some (some s)) (hb : DirBoundary p mp) :
    ∃ rest, (mp = p ++ '/' :: rest ∨ (p.getLast? = some '/' ∧ mp = p ++ rest)) ∧
      s = (splitSlash rest).map stripStubs ∧ (∀ c ∈ splitSlash rest, c ≠ []) := by
  unfold solutionFor at h
  by_cases hpre : p.isPrefixOf mp = true
  · have hmp : mp = p ++ mp.drop p.length :=
      (List.prefix_iff_eq_append.mp (List.isPrefixOf_iff_prefix.mp hpre)).symm
    simp only [hpre, if_true] at h
    by_cases hs : (mp.drop p.length).head? = some '/'
    · simp only [hs, if_true, not_true_eq_false, false_and, and_false, if_false] at h
      split at h
      · cases h
      split at h
      · cases h
      rename_i hne hany
      simp only [Option.some.injEq] at h
      obtain ⟨c, cs, hcs⟩ : ∃ c cs, mp.drop p.length = c :: cs := by
        cases hd : mp.drop p.length with
        | nil => simp [hd] at hs
        | cons c cs => exact ⟨c, cs, rfl⟩
      have hc : c = '/' := by rw [hcs] at hs; simpa using hs
      rw [hcs] at h hany
      simp only [List.drop_succ_cons, List.drop_zero] at h hany
      refine ⟨cs, Or.inl ?_, h.symm, ?_⟩
      · rw [hmp, hcs, hc]
      · intro x hx hx0
        apply hany
        simp only [List.any_eq_true, decide_eq_true_eq]
        exact ⟨x, hx, hx0⟩
    · have hlast : p.getLast? = some '/' := by
        rcases hb with hb | hb
        · exact absurd hb hs
        · exact hb
      simp only [hs, if_false] at h
      split at h
      · cases h
      split at h
      · cases h
      split at h
      · cases h
      rename_i hfix hne hany
      simp only [Option.some.injEq] at h
      refine ⟨mp.drop p.length, Or.inr ⟨hlast, hmp⟩, h.symm, ?_⟩
      intro x hx hx0
      apply hany
      simp only [List.any_eq_true, decide_eq_true_eq]
      exact ⟨x, hx, hx0⟩
  · simp only [hpre] at h
    cases h

/-- with the repair, every accepted sys.path entry is a directory prefix -/
theorem dotted_solution_boundary_of_fix (mp p : List Char) (s : List (List Char))
    (h : solutionFor true mp p = some (some s)) : DirBoundary p mp := by
  unfold solutionFor at h
  split at h
  · simp only at h
    split at h
    · cases h
    next hfix =>
      simp only [true_and, not_and, Decidable.not_not] at hfix
      by_cases hs : (mp.drop p.length).head? = some '/'
      · exact Or.inl hs
      · exact Or.inr (hfix hs)
  · cases h

/-- The code as found in the source (`Gen.C10.dottedSepFix`): every candidate spells the path below
its sys.path entry, under the directory-boundary hypothesis unless the source has the repair. -/
theorem dotted_solution_spells_path (mp p : List Char) (s : List (List Char))
    (h : solutionFor dottedSepFix mp p = some (some s))
    (hb : dottedSepFix = true ∨ DirBoundary p mp) :
    ∃ rest, (mp = p ++ '/' :: rest ∨ (p.getLast? = some '/' ∧ mp = p ++ rest)) ∧
      s = (splitSlash rest).map stripStubs ∧ (∀ c ∈ splitSlash rest, c ≠ []) := by
  rcases hb with hb | hb
  · rw [hb] at h
    exact dotted_solution_spells_path_partial true mp p s h (dotted_solution_boundary_of_fix mp p s h)
  · exact dotted_solution_spells_path_partial _ mp p s h hb

/-- `sorted(solutions, key=len)[0]`: an element of the list, of minimal length, and the first such -/
theorem firstShortest_spec (l : List (List (List Char))) (s : List (List Char))
    (h : firstShortest l = some s) :
    s ∈ l ∧ (∀ t ∈ l, s.length ≤ t.length) := by
  induction l generalizing s with
  | nil => simp [firstShortest] at h
  | cons a rest ih =>
    unfold firstShortest at h
    cases hr : firstShortest rest with
    | none =>
      rw [hr] at h
      injection h with h; subst h
      have : rest = [] := by
        cases rest with
        | nil => rfl
        | cons b r' =>
          unfold firstShortest at hr
          cases h2 : firstShortest r' <;> simp [h2] at hr
          split at hr <;> cases hr
      subst this
      simp
    | some t =>
      rw [hr] at h
      have ⟨htm, htmin⟩ := ih t hr
      simp only at h
      split at h
      · next hlt =>
        injection h with h; subst h
        refine ⟨List.mem_cons_of_mem _ htm, ?_⟩
        intro u hu
        rcases List.mem_cons.mp hu with rfl | hu
        · omega
        · exact htmin u hu
      · next hge =>
        injection h with h; subst h
        refine ⟨List.mem_cons_self, ?_⟩
        intro u hu
        rcases List.mem_cons.mp hu with rfl | hu
        · exact Nat.le_refl _
        · have := htmin u hu; omega

/-- the answer of `transform_path_to_dotted` is one of the candidates, and a shortest one -/
theorem dotted_is_shortest_candidate (sepFix : Bool) (sysPath : List (List Char)) (mp : List Char)
    (s : List (List Char)) (h : firstShortest (iterSolutions sepFix mp sysPath) = some s) :
    s ∈ iterSolutions sepFix mp sysPath ∧ ∀ t ∈ iterSolutions sepFix mp sysPath, s.length ≤ t.length :=
  firstShortest_spec _ _ h

/-! ### F4: the unrestricted statement is false on the unchanged code -/

private def exFS : FS :=
  { isFile := fun p => p = ["/", "foo", "bar", "baz.py"],
    isDir := fun p => p ∈ [["/"], ["/", "foo"], ["/", "foo", "ba"], ["/", "foo", "bar"]] }

/-- Counter-witness (kernel-checked): with `sys.path = ['/foo/ba', '/foo']` the file
`/foo/bar/baz.py` gets the dotted name `r.baz` (the entry `/foo/ba` is a string prefix of
`/foo/bar`), which does not import, while `bar.baz` imports exactly that file.  With the
separator test of the proposed repair the answer is `bar.baz`. -/
theorem dotted_string_prefix_witness :
    transformPathToDotted false pathSuffixes ["/foo/ba".toList, "/foo".toList]
        ["/", "foo", "bar", "baz.py"] = (some ["r".toList, "baz".toList], false) ∧
    pyImport exFS [["/", "foo", "ba"], ["/", "foo"]] ["r", "baz"] = none ∧
    pyImport exFS [["/", "foo", "ba"], ["/", "foo"]] ["bar", "baz"] =
      some (.mod ["/", "foo", "bar", "baz.py"]) ∧
    transformPathToDotted true pathSuffixes ["/foo/ba".toList, "/foo".toList]
        ["/", "foo", "bar", "baz.py"] = (some ["bar".toList, "baz".toList], false) := by
  refine ⟨by decide, by decide, by decide, by decide⟩

/-! ## chains of star imports (`ModuleMixin.star_imports`) -/
section StarChains
open JediModel.StarChain

/-- The decisive shape read from the source: the recursion into a star-imported module is
`module.star_imports()`, i.e. it uses that module's OWN context. -/
theorem star_imports_recurse_in_own_context : JediModel.Gen.C10.starImportsOwnContext = true := by decide

/-- One link: the name jedi's `Importer` asks for is the name `_resolve_name` computes from the
package of the context it is given - and nothing when Python raises. -/
theorem star_target_eq_python (pkg : List String) (s : StarImp) : jediTarget pkg s = pyTarget pkg s := by
  unfold jediTarget pyTarget
  by_cases h0 : s.level = 0
  · simp [h0, Importer.init]
  · simp only [h0, false_or, if_false]
    unfold resolveName
    by_cases he : pkg.isEmpty = true
    · have : pkg.length = 0 := by simpa using he
      have hn : ¬ s.level ≤ pkg.length := by omega
      simp [he, hn]
    · by_cases hlt : pkg.length < s.level
      · have hn : ¬ s.level ≤ pkg.length := by omega
        simp [he, hlt, hn]
      · have hle : s.level ≤ pkg.length := by omega
        simp only [he, hlt, hle, if_true, if_false, Importer.init, h0]
        by_cases h1 : s.level > 1
        · simp [h1]
        · have : s.level = 1 := by omega
          simp [this]

/-- Soundness: every module `star_imports()` lists is one whose names Python copies into `m`. -/
theorem star_chain_sound (w : StarChain.World) (fuel : Nat) (c : List String) (m t : Name)
    (h : t ∈ starImports w true fuel c m) : PyStar w m t := by
  induction fuel generalizing c m t with
  | zero => simp [starImports] at h
  | succ k ih =>
    unfold starImports at h
    split at h
    · simp at h
    next md hm =>
      simp only [if_true, List.mem_flatMap] at h
      obtain ⟨s, hs, ht⟩ := h
      rw [star_target_eq_python] at ht
      split at ht
      · simp at ht
      next t' htar =>
        by_cases hw : (w t').isSome = true
        · simp only [hw, if_true, List.mem_append, List.mem_singleton] at ht
          have hl : Link w m t' := ⟨md, s, hm, hs, htar, hw⟩
          rcases ht with ht | ht
          · exact PyStar.step hl (ih _ _ _ ht)
          · subst ht; exact PyStar.direct hl
        · simp [hw] at ht

/-- Completeness: every module whose names Python copies into `m` through a chain of star imports
is listed, whatever context is handed in. -/
theorem star_chain_complete (w : StarChain.World) (m t : Name) (h : PyStar w m t) :
    ∃ fuel, ∀ c, t ∈ starImports w true fuel c m := by
  induction h with
  | direct hl =>
    obtain ⟨md, s, hm, hs, htar, hw⟩ := hl
    refine ⟨1, fun c => ?_⟩
    unfold starImports
    simp only [hm, if_true, List.mem_flatMap]
    refine ⟨s, hs, ?_⟩
    rw [star_target_eq_python, htar]
    simp [hw]
  | step hl _ ih =>
    obtain ⟨md, s, hm, hs, htar, hw⟩ := hl
    obtain ⟨k, hk⟩ := ih
    refine ⟨k + 1, fun c => ?_⟩
    unfold starImports
    simp only [hm, if_true, List.mem_flatMap]
    refine ⟨s, hs, ?_⟩
    rw [star_target_eq_python, htar]
    simp only [hw, if_true, List.mem_append]
    exact Or.inl (hk _)

/-- **The names visible through a chain of star imports are Python's**: with the recursion as found
in the source, a name is among those jedi collects for `m` (its own and those of `star_imports()`)
exactly when executing the modules binds it in `m` - every link resolved relative to the package of
the module that contains it. -/
theorem star_chain_names_eq_python (w : StarChain.World) (m : Name) (n : String) :
    (∃ fuel, n ∈ jediVisible w JediModel.Gen.C10.starImportsOwnContext fuel m) ↔ PyVisible w m n := by
  rw [star_imports_recurse_in_own_context]
  unfold jediVisible PyVisible starImportsOf
  constructor
  · rintro ⟨fuel, h⟩
    cases hm : w m with
    | none => simp [hm] at h
    | some md =>
      simp only [hm, List.mem_append, List.mem_flatMap] at h
      rcases h with h | ⟨t, ht, hn⟩
      · exact Or.inl ⟨md, rfl, h⟩
      · right
        cases hd : w t with
        | none => simp [hd] at hn
        | some d =>
          simp only [hd] at hn
          exact ⟨t, d, star_chain_sound w fuel _ m t ht, hd, hn⟩
  · rintro (⟨md, hm, h⟩ | ⟨t, d, hs, hd, hn⟩)
    · exact ⟨0, by simp [hm, h]⟩
    · obtain ⟨fuel, hf⟩ := star_chain_complete w m t hs
      cases hs' : w m with
      | none =>
        exfalso
        cases hs with
        | direct hl => obtain ⟨md, _, hm, _⟩ := hl; simp [hs'] at hm
        | step hl _ => obtain ⟨md, _, hm, _⟩ := hl; simp [hs'] at hm
      | some md =>
        refine ⟨fuel, ?_⟩
        simp only [List.mem_append, List.mem_flatMap]
        exact Or.inr ⟨t, hf _, by simp [hd, hn]⟩

/-- `app/run.py: from pkg import *`, `pkg/__init__.py: from .inner import *`, `pkg/inner.py` binds
`leaf`, and the starting package has a sibling `app/inner.py` binding `other`. -/
def exWorld : StarChain.World := worldOf [
  (["app", "run"], { pkg := ["app"], defs := [], stars := [⟨0, ["pkg"]⟩] }),
  (["app"], { pkg := ["app"], defs := [], stars := [] }),
  (["app", "inner"], { pkg := ["app"], defs := ["other"], stars := [] }),
  (["pkg"], { pkg := ["pkg"], defs := [], stars := [⟨1, ["inner"]⟩] }),
  (["pkg", "inner"], { pkg := ["pkg"], defs := ["leaf"], stars := [] })]

/-- Counter-witness (kernel-checked) for a recursion that hands the ROOT module's context down:
the inner link `from .inner import *` of `pkg` is then resolved against `app`, the chain reaches
`app.inner` instead of `pkg.inner`, `leaf` is lost and `other` appears; the code as found
(`ownCtx = true`) reaches `pkg.inner`. -/
theorem star_chain_root_context_witness :
    starImportsOf exWorld false 3 ["app", "run"] = [["app", "inner"], ["pkg"]] ∧
    jediVisible exWorld false 3 ["app", "run"] = ["other"] ∧
    starImportsOf exWorld true 3 ["app", "run"] = [["pkg", "inner"], ["pkg"]] ∧
    jediVisible exWorld true 3 ["app", "run"] = ["leaf"] := by
  refine ⟨by decide, by decide, by decide, by decide⟩

example : PyStar exWorld ["app", "run"] ["pkg", "inner"] :=
  PyStar.step ⟨_, ⟨0, ["pkg"]⟩, rfl, by simp, rfl, rfl⟩ (PyStar.direct ⟨_, ⟨1, ["inner"]⟩, rfl, by simp, rfl, rfl⟩)

end StarChains

/-! ## non-vacuity -/

example : resolveName ["a", "b"] 2 ["x"] = .ok ["a", "x"] := by rfl
example : resolveName ["a"] 2 ["x"] = .error .beyondTopLevel := by rfl
example : solutionFor false "/foo/bar/baz".toList "/foo".toList =
    some (some ["bar".toList, "baz".toList]) := by decide
example : DirBoundary "/foo".toList "/foo/bar/baz".toList := Or.inl (by decide)
example : ¬ DirBoundary "/foo/ba".toList "/foo/bar/baz".toList := by
  intro h; rcases h with h | h <;> revert h <;> decide
example : pyImport exFS [["/", "foo"]] ["bar", "baz"] = some (.mod ["/", "foo", "bar", "baz.py"]) := by decide

end JediModel.Props.C10

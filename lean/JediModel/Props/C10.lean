import JediModel.Gen.C10
import JediModel.Model.Imports
/-! # C10 — imports resolve to what Python's import system would load -/
namespace JediModel.Props.C10
open JediModel.SysPath JediModel.Imports

/-- Whenever `importlib._bootstrap._resolve_name` succeeds, jedi's `Importer.__init__` rewrites the
relative import to exactly that absolute dotted path and searches the normal sys path. -/
theorem level_rewrite_eq_resolve_name (importPath : List String) (level : Nat) (pkg : List String)
    (file : Option Parts) (project : Parts) (r : List String) (hl : 1 ≤ level)
    (h : resolveName pkg level importPath = .ok r) :
    (Importer.init importPath level pkg file project).importPath = r ∧
    (Importer.init importPath level pkg file project).fixedSysPath = none ∧
    (Importer.init importPath level pkg file project).inferPossible = true := by
  unfold resolveName at h
  split at h
  · cases h
  split at h
  · cases h
  next h1 h2 =>
    injection h with h
    have hle : level ≤ pkg.length := by omega
    have hne : level ≠ 0 := by omega
    unfold Importer.init
    simp only [hne, if_false, hle, if_true]
    refine ⟨?_, by simp, by simp⟩
    rw [← h]
    by_cases h1' : level > 1
    · simp [h1']
    · have : level = 1 := by omega
      simp [this]

end JediModel.Props.C10

import JediModel.Gen.C04
import JediModel.Lemmas.Completion
import JediModel.Lemmas.PyCoreCompl
/-! # C04 — Completions extend what is typed, are ordered, unique and complete

Property theorems only (helper lemmas live in `Lemmas/`).  `lower` is CPython's
`str.lower`, a parameter; hypotheses on it are explicit. -/
namespace JediModel.Props.C04
open JediModel.Match JediModel.Completion

/-- `lower` acts character by character (true of `str.lower` on every string
without `İ` U+0130, the only code point whose lower-casing changes the length). -/
def CharwiseLower (lower : List Char → List Char) : Prop :=
  ∃ f : Char → Char, ∀ s, lower s = s.map f

/-! ## the match predicate -/

/-- `_fuzzy_match` is exactly "the fragment is a subsequence of the name" -/
theorem fuzzy_iff_subsequence (s like : List Char) :
    fuzzyMatch s like = true ↔ like.Sublist s :=
  fuzzyMatch_iff_sublist s like

/-- `_start_match` is exactly "the fragment is a prefix of the name" -/
theorem start_iff_prefix (s like : List Char) :
    startMatch s like = true ↔ like <+: s :=
  startMatch_iff_prefix s like

/-! ## every completion extends the fragment -/

/-- every element of `filter_names`' output comes from a candidate whose
(case-folded) name matches the (case-folded) fragment: prefix, or subsequence when fuzzy -/
theorem completion_matches (st : Settings) (lower : List Char → List Char) (cands : List Cand)
    (like : List Char) (fuzzy : Bool) (imported : List (List Char)) (c : Comp)
    (h : c ∈ filterNames st lower cands like fuzzy imported) :
    c.cand ∈ cands ∧ c.fuzzy = fuzzy ∧
    (fuzzy = false → foldCase st lower like <+: foldCase st lower c.cand.str) ∧
    (fuzzy = true → (foldCase st lower like).Sublist (foldCase st lower c.cand.str)) := by
  have y := filterLoop_yielded _ _ _ _ _ _ _ _ _ h
  refine ⟨y.mem, by rw [y.eq]; rfl, ?_, ?_⟩
  · intro hf
    have := y.isMatch
    simpa [pmatch, hf, startMatch_iff_prefix] using this
  · intro hf
    have := y.isMatch
    simp only [pmatch, hf, if_true] at this
    exact (fuzzyMatch_iff_sublist _ _).mp this

/-- sorting neither adds nor loses completions, so the above holds for the API-visible list -/
theorem completePython_perm (comps : List String) (st : Settings) (lower : List Char → List Char)
    (cands : List Cand) (like : List Char) (fuzzy : Bool) (imported : List (List Char)) :
    (completePython comps st lower cands like fuzzy imported).Perm
      (filterNames st lower cands like fuzzy imported) :=
  List.mergeSort_perm _ _

/-! ## suffix algebra -/

/-- `name_with_symbols = name[:prefix_length] ++ complete` whenever `complete` is not `None` -/
theorem complete_is_missing_suffix (st : Settings) (c : Comp) (suf : List Char)
    (h : c.complete st = some suf) :
    c.nameWithSymbols st = c.name.take c.prefixLength ++ suf := by
  unfold Comp.complete at h
  split at h
  · cases h
  · cases h
    simp [Comp.nameWithSymbols, Comp.completeRaw, Comp.name, Comp.prefixLength,
      ← List.append_assoc, List.take_append_drop]

/-- fuzzy completions have `complete = None` -/
theorem fuzzy_complete_none (st : Settings) (lower : List Char → List Char) (cands : List Cand)
    (like : List Char) (imported : List (List Char)) (c : Comp)
    (h : c ∈ filterNames st lower cands like true imported) : c.complete st = none := by
  have y := filterLoop_yielded _ _ _ _ _ _ _ _ _ h
  rw [y.eq]; simp [Comp.complete, mkComp]

/-- Non-fuzzy, case-sensitive: the first `prefix_length` characters of the name are the
fragment itself and `prefix_length` is the fragment's length.
`hpub`: the public name extends `string_name` (it is `string_name` or `string_name + "="`). -/
theorem prefix_is_fragment_case_sensitive (st : Settings) (lower : List Char → List Char)
    (cands : List Cand) (like : List Char) (imported : List (List Char)) (c : Comp)
    (hci : st.caseInsens = false)
    (h : c ∈ filterNames st lower cands like false imported)
    (hpub : c.cand.str <+: c.cand.pub) :
    c.prefixLength = like.length ∧ c.name.take c.prefixLength = like := by
  have y := filterLoop_yielded _ _ _ _ _ _ _ _ _ h
  have hm := y.isMatch
  simp only [foldCase, hci, Bool.false_eq_true, if_false, pmatch, startMatch_iff_prefix] at hm
  have hl : c.prefixLength = like.length := by rw [y.eq]; rfl
  refine ⟨hl, ?_⟩
  rw [hl]
  have : like <+: c.cand.pub := List.IsPrefix.trans hm hpub
  exact List.prefix_iff_eq_take.mp this |>.symm

/-- the reported prefix length is the fragment length — for every `lower`, fuzzy or not
(this is the statement repaired by the `fix:` commit for F1; before it the code measured
the length of the *lowered* fragment) -/
theorem prefix_length_is_fragment_length (st : Settings) (lower : List Char → List Char)
    (cands : List Cand) (like : List Char) (fuzzy : Bool) (imported : List (List Char)) (c : Comp)
    (h : c ∈ filterNames st lower cands like fuzzy imported) :
    c.prefixLength = like.length := by
  have y := filterLoop_yielded _ _ _ _ _ _ _ _ _ h
  rw [y.eq]; rfl

/-- Non-fuzzy, case-insensitive (the default): the first `prefix_length` characters of the
name are the fragment up to case.  The hypothesis `CharwiseLower` is forced (witness below). -/
theorem prefix_is_fragment_partial (st : Settings) (lower : List Char → List Char)
    (cands : List Cand) (like : List Char) (imported : List (List Char)) (c : Comp)
    (hci : st.caseInsens = true) (hl : CharwiseLower lower)
    (h : c ∈ filterNames st lower cands like false imported)
    (hpub : c.cand.str <+: c.cand.pub) :
    lower (c.name.take c.prefixLength) = lower like := by
  obtain ⟨f, hf⟩ := hl
  have y := filterLoop_yielded _ _ _ _ _ _ _ _ _ h
  have hm := y.isMatch
  simp only [foldCase, hci, if_true, pmatch, Bool.false_eq_true, if_false,
    startMatch_iff_prefix] at hm
  have hlen : c.prefixLength = like.length := by rw [y.eq]; rfl
  rw [hlen, hf, hf]
  rw [hf, hf] at hm
  obtain ⟨suffix, hs⟩ := hpub
  have h1 : like.map f = (c.cand.str.map f).take like.length := by
    have := List.prefix_iff_eq_take.mp hm
    simpa using this
  have hle : like.length ≤ c.cand.str.length := by
    have := hm.length_le
    simpa using this
  simp only [Comp.name, ← hs, List.take_append_of_le_length hle]
  rw [h1, List.map_take]

/-- Witness that `CharwiseLower` is needed: with a `lower` that maps `İ` to two code points,
the name `i̇xyz` (i + combining dot) matches the fragment `İx`, but its first two characters
do not lower-case to the lower-cased fragment. -/
def lowerDotI (s : List Char) : List Char :=
  s.flatMap fun ch => if ch = 'İ' then ['i', '̇'] else [ch]

theorem fragment_claim_needs_charwise :
    ∃ c ∈ filterNames ⟨true, false⟩ lowerDotI [⟨"i̇xyz".toList, "i̇xyz".toList, false, false⟩]
        "İx".toList false [],
      lowerDotI (c.name.take c.prefixLength) ≠ lowerDotI "İx".toList := by
  refine ⟨mkComp 2 false ⟨"i̇xyz".toList, "i̇xyz".toList, false, false⟩, ?_, ?_⟩
  · decide
  · decide

/-! ## case folding that is not one code point to one code point

`casefold` maps `ß` to `ss`, `lower` maps `İ` to `i̇`.  `filter_names` matches the *folded*
strings, `Completion._complete` cuts the *unfolded* name at the length of the *unfolded*
fragment.  The two agree exactly as far as no code point involved folds to several. -/

/-- the folding statements of `filter_names` as the translator read them -/
def srcShape : FoldShape :=
  ⟨Gen.C04.foldLikeMethod, Gen.C04.foldNameMethod, Gen.C04.lengthBeforeFold⟩

/-- The source folds fragment and candidates with `str.lower` — the only one of CPython's case
mappings that maps every code point except U+0130 to one code point (`casefold` and `upper`
expand `ß`, `ŉ`, `ǰ`, ligatures …) — and measures the fragment before folding.  Editing either
statement of `filter_names` changes `Gen.C04.fold*` and this theorem stops type-checking. -/
theorem source_fold_shape : srcShape = ⟨"lower", "lower", true⟩ := by decide

/-- with that shape `filter_names` is the function all theorems above speak about -/
theorem source_filter_is_filterNames (st : Settings) (F : Folds) (cands : List Cand)
    (like : List Char) (fuzzy : Bool) (imported : List (List Char)) :
    filterNamesSrc srcShape st F cands like fuzzy imported =
      filterNames st F.lower cands like fuzzy imported := by
  rw [source_fold_shape]
  rfl

/-- whatever the folding methods are, the reported prefix length is the fragment length as long
as the length is taken before folding -/
theorem prefix_length_is_fragment_length_src (sh : FoldShape) (hsh : sh.lengthFirst = true)
    (st : Settings) (F : Folds) (cands : List Cand) (like : List Char) (fuzzy : Bool)
    (imported : List (List Char)) (c : Comp)
    (h : c ∈ filterNamesSrc sh st F cands like fuzzy imported) :
    c.prefixLength = like.length := by
  have y := filterLoop_yielded _ _ _ _ _ _ _ _ _ h
  rw [y.eq]; simp [mkComp, Comp.prefixLength, hsh]

/-- Non-fuzzy, case-insensitive, for ANY code-point-wise case mapping `f` (one code point may
fold to several): if no code point of the fragment and none of the first `|fragment|` code
points of the offered name folds to several, the first `prefix_length` characters of the name
are the fragment up to case.  Both hypotheses are forced (witnesses below). -/
theorem prefix_is_fragment_unit_partial (st : Settings) (f : Char → List Char)
    (cands : List Cand) (like : List Char) (imported : List (List Char)) (c : Comp)
    (hci : st.caseInsens = true)
    (h : c ∈ filterNames st (expand f) cands like false imported)
    (hpub : c.cand.str <+: c.cand.pub)
    (hl : unitOn f like = true) (hn : unitOn f (c.name.take like.length) = true) :
    c.prefixLength = like.length ∧
      expand f (c.name.take c.prefixLength) = expand f like := by
  have y := filterLoop_yielded _ _ _ _ _ _ _ _ _ h
  have hm := y.isMatch
  simp only [foldCase, hci, if_true, pmatch, Bool.false_eq_true, if_false,
    startMatch_iff_prefix] at hm
  have hlen : c.prefixLength = like.length := by rw [y.eq]; rfl
  obtain ⟨suffix, hs⟩ := hpub
  have hk : like.length ≤ c.cand.str.length :=
    length_le_of_expand_prefix f like c.cand.str suffix hm hl (by simpa [Comp.name, hs] using hn)
  have ht : c.name.take like.length = c.cand.str.take like.length := by
    simp only [Comp.name, ← hs, List.take_append_of_le_length hk]
  refine ⟨hlen, ?_⟩
  rw [hlen, ht]
  exact expand_take_eq f like c.cand.str hm hl (by rw [← ht]; exact hn) hk

/-- ... and then the text the editor ends up with, fragment + `complete`, spells
`name_with_symbols` up to case -/
theorem accepted_text_spells_name_partial (st : Settings) (f : Char → List Char)
    (cands : List Cand) (like : List Char) (imported : List (List Char)) (c : Comp)
    (hci : st.caseInsens = true)
    (h : c ∈ filterNames st (expand f) cands like false imported)
    (hpub : c.cand.str <+: c.cand.pub)
    (hl : unitOn f like = true) (hn : unitOn f (c.name.take like.length) = true)
    (suf : List Char) (hs : c.complete st = some suf) :
    expand f (like ++ suf) = expand f (c.nameWithSymbols st) := by
  have hp := prefix_is_fragment_unit_partial st f cands like imported c hci h hpub hl hn
  rw [complete_is_missing_suffix st c suf hs, expand_append, expand_append, hp.2]

/-- `casefold` on the one code point that matters here -/
def foldSharpS (ch : Char) : List Char := if ch = 'ß' then ['s', 's'] else [ch]

/-- Witness that the hypothesis on the FRAGMENT is needed: behind `straß` the name `strasse` is
offered (its first five characters `stras` contain no expanding code point), and `stras` is not
`straß` up to case: accepting it leaves `straßse`. -/
theorem fragment_claim_needs_unit_fragment :
    ∃ c ∈ filterNames ⟨true, false⟩ (expand foldSharpS)
        [⟨"strasse".toList, "strasse".toList, false, false⟩] "straß".toList false [],
      unitOn foldSharpS (c.name.take 5) = true ∧
      expand foldSharpS (c.name.take c.prefixLength) ≠ expand foldSharpS "straß".toList ∧
      c.complete ⟨true, false⟩ = some "se".toList := by
  refine ⟨mkComp 5 false ⟨"strasse".toList, "strasse".toList, false, false⟩, ?_, ?_, ?_, ?_⟩ <;> decide

/-- Witness that the hypothesis on the NAME is needed: behind `stras` (no expanding code point)
the name `straße` is offered with `complete = 'e'`: accepting it leaves `strase`. -/
theorem fragment_claim_needs_unit_name :
    ∃ c ∈ filterNames ⟨true, false⟩ (expand foldSharpS)
        [⟨"straße".toList, "straße".toList, false, false⟩] "stras".toList false [],
      unitOn foldSharpS "stras".toList = true ∧
      expand foldSharpS (c.name.take c.prefixLength) ≠ expand foldSharpS "stras".toList ∧
      c.complete ⟨true, false⟩ = some "e".toList := by
  refine ⟨mkComp 5 false ⟨"straße".toList, "straße".toList, false, false⟩, ?_, ?_, ?_, ?_⟩ <;> decide

/-- non-vacuity of `prefix_is_fragment_unit_partial`: behind `Stra` both spellings are offered and
both satisfy the hypotheses -/
example : ∀ c ∈ filterNames ⟨true, false⟩ (expand fun ch => foldSharpS ch.toLower)
    [⟨"straße".toList, "straße".toList, false, false⟩, ⟨"strasse".toList, "strasse=".toList, false, false⟩]
    "Stra".toList false [],
    unitOn (fun ch => foldSharpS ch.toLower) (c.name.take 4) = true ∧ c.cand.str <+: c.cand.pub := by
  decide

/-! ## no duplicates -/

/-- no `(name, complete)` pair occurs twice in `filter_names`' output -/
theorem completion_nodup (st : Settings) (lower : List Char → List Char) (cands : List Cand)
    (like : List Char) (fuzzy : Bool) (imported : List (List Char)) :
    ((filterNames st lower cands like fuzzy imported).map (Comp.dedupKey st)).Nodup :=
  filterLoop_nodup _ _ _ _ _ _ _ _

/-- ... nor in the sorted, API-visible list -/
theorem completePython_nodup (comps : List String) (st : Settings) (lower : List Char → List Char)
    (cands : List Cand) (like : List Char) (fuzzy : Bool) (imported : List (List Char)) :
    ((completePython comps st lower cands like fuzzy imported).map (Comp.dedupKey st)).Nodup :=
  ((completePython_perm comps st lower cands like fuzzy imported).map _).nodup_iff.mpr
    (completion_nodup st lower cands like fuzzy imported)

/-- nothing that matches is lost by de-duplication (seen-set starts empty): its key is in the
output unless a `del` target with the same key shadowed it -/
theorem completion_no_loss (st : Settings) (lower : List Char → List Char) (cands : List Cand)
    (like : List Char) (fuzzy : Bool) (imported : List (List Char)) (x : Cand) (hx : x ∈ cands)
    (hm : pmatch (foldCase st lower x.str) (foldCase st lower like) fuzzy = true)
    (hi : ¬ (imported.contains x.str = true ∧ x.str ≠ foldCase st lower like)) :
    (mkComp like.length fuzzy x).dedupKey st ∈
      (filterNames st lower cands like fuzzy imported).map (Comp.dedupKey st) ∨
    ∃ d ∈ cands, d.isDel = true ∧ (mkComp like.length fuzzy d).dedupKey st =
      (mkComp like.length fuzzy x).dedupKey st := by
  rcases filterLoop_complete st lower _ _ fuzzy imported cands [] x hx hm hi with h | h | h
  · simp at h
  · exact Or.inl h
  · exact Or.inr h

/-! ## order -/

/-- the list is sorted by the key tuple found in the source -/
theorem completion_sorted (comps : List String) (st : Settings) (lower : List Char → List Char)
    (cands : List Cand) (like : List Char) (fuzzy : Bool) (imported : List (List Char)) :
    (completePython comps st lower cands like fuzzy imported).Pairwise
      (fun a b => sortKey comps lower like a ≤ sortKey comps lower like b) := by
  have := List.pairwise_mergeSort (le := keyLE comps lower like)
    (keyLE_trans comps lower like) (keyLE_total comps lower like)
    (filterNames st lower cands like fuzzy imported)
  unfold completePython sortCompletions
  exact this.imp (by intro a b h; simpa [keyLE] using h)

/-- the documented order: 0 public, 1 `_private`, 2 `__dunder` -/
def rank (name : List Char) : Nat :=
  if ['_', '_'].isPrefixOf name then 2 else if ['_'].isPrefixOf name then 1 else 0

/-- documented key: matching case first, then public / _private / __dunder__, then alphabetical -/
def docKey (lower : List Char → List Char) (like : List Char) (c : Comp) : List (List Nat) :=
  [b2n (!(like.isPrefixOf c.name)), [rank c.name], codes (lower c.name)]

theorem dunder_is_under (name : List Char) (h : ['_', '_'].isPrefixOf name = true) :
    ['_'].isPrefixOf name = true :=
  match name, h with
  | [], h => by simp [List.isPrefixOf] at h
  | [a], h => by simp [List.isPrefixOf] at h
  | a :: b :: rest, h => by
    simp only [List.isPrefixOf, Bool.and_eq_true, beq_iff_eq, Bool.and_true] at h ⊢
    exact h.1

/-- The key tuple in the source (as extracted by the translator) orders completions exactly
as documented.  Re-ordering or dropping a component in `Completion.complete` changes
`Gen.C04.sortKeyComponents` and this theorem stops type-checking. -/
theorem source_key_is_documented_order (lower : List Char → List Char) (like : List Char)
    (a b : Comp) :
    sortKey Gen.C04.sortKeyComponents lower like a ≤ sortKey Gen.C04.sortKeyComponents lower like b
      ↔ docKey lower like a ≤ docKey lower like b := by
  simp only [Gen.C04.sortKeyComponents, sortKey, List.map, keyComponent, docKey, rank, b2n]
  cases h1 : like.isPrefixOf a.name <;> cases h2 : like.isPrefixOf b.name <;>
  cases h3 : ['_', '_'].isPrefixOf a.name <;> cases h4 : ['_', '_'].isPrefixOf b.name <;>
  cases h5 : ['_'].isPrefixOf a.name <;> cases h6 : ['_'].isPrefixOf b.name <;>
  first
  | (have := dunder_is_under _ h3; simp_all; done)
  | (have := dunder_is_under _ h4; simp_all; done)
  | (simp [List.cons_le_cons_iff]; done)
  | (simp [List.cons_le_cons_iff]; decide)

/-- the de-duplication key in the source is the pair the property names -/
theorem source_dedup_key : Gen.C04.dedupKeyFields = ["name", "complete"] := by decide

/-- defaults the property statement relies on ("case-insensitively by default") -/
theorem source_defaults : Gen.C04.caseInsensitiveDefault = true := by decide

/-! ## attribute completeness (over the PyCore fragment, see C02) -/

open JediModel.PyCore in
/-- **After `expr.` where `expr` evaluates at run time to an instance defined in the analysed
sources, every attribute the run-time object really has that is defined in those sources is
offered.**  For every PyCore program satisfying `WFClasses`, every context, receiver expression
`e` that the run evaluates to an instance of class statement `id`, and every attribute name `a`
whose access `e.a` the run evaluates successfully: `a` is among `complNames` (the transcription
of the instance/class filters `complete_trailer` collects names from). -/
theorem attrs_complete_partial (p : Prog) (hwf : WFClasses p = true) (fuel : Nat) (ctx : CtxC)
    (e : Expr) (a id : Nat) (args : List Val) (v : Val)
    (he : evalC p fuel ctx e = some (.inst id args))
    (ha : evalC p (fuel + 1) ctx (.attr e a) = some v) :
    a ∈ complNames p fuel true id := by
  simp only [evalC, he] at ha
  cases hsa : selfAttrC p fuel id (.inst id args) args a with
  | found v' => exact (compl p hwf fuel).self id _ _ a v' hsa
  | missing =>
    simp only [hsa] at ha
    exact (compl p hwf fuel).attr _ id a v true ha
  | error => simp [hsa] at ha

open JediModel.PyCore in
/-- the same for a class receiver (`C.a`) -/
theorem class_attrs_complete_partial (p : Prog) (hwf : WFClasses p = true) (fuel : Nat) (ctx : CtxC)
    (e : Expr) (a id : Nat) (v : Val)
    (he : evalC p fuel ctx e = some (.cls id))
    (ha : evalC p (fuel + 1) ctx (.attr e a) = some v) :
    a ∈ complNames p fuel false id := by
  simp only [evalC, he] at ha
  exact (compl p hwf fuel).attr _ id a v false ha

/-! ## non-vacuity -/

open JediModel.PyCore in
/-- `class B:` / `    k = 1` / `class C(B):` / `    def __init__(self): self.b = 's'` — not WFClasses
(derived `__init__`), so use: `class C:` with `__init__`, attribute and method: `C().`
offers b, k, m. (names: C=0, b=1, k=2, m=3) -/
example :
    let p : Prog := [.klass 0 none [(2, .int)] (some ⟨[], [(1, .str)]⟩) [⟨3, [], .int⟩],
                     .probe (.call (.name 0) [])]
    WFClasses p = true ∧ complNames p 10 true 0 = [1, 2, 3] := by decide

example : ∃ c, c ∈ filterNames ⟨true, false⟩ (fun s => s.map Char.toLower)
    [⟨"Foo".toList, "Foo".toList, true, false⟩, ⟨"foo".toList, "foo=".toList, false, false⟩,
     ⟨"bar".toList, "bar".toList, false, false⟩] "fO".toList false [] ∧
    c.cand.str <+: c.cand.pub ∧ c.cand.pub = "foo=".toList := by
  refine ⟨mkComp 2 false ⟨"foo".toList, "foo=".toList, false, false⟩, by decide, ?_, rfl⟩
  exact ⟨['='], rfl⟩

example : CharwiseLower (fun s => s.map Char.toLower) := ⟨Char.toLower, fun _ => rfl⟩

end JediModel.Props.C04

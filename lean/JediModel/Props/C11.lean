import JediModel.Gen.C11
import JediModel.Lemmas.Call
import JediModel.Lemmas.CallArgs
import JediModel.Lemmas.CallForward
import JediModel.Lemmas.DocLit
import JediModel.Lemmas.SigCache
set_option linter.unusedSimpArgs false
/-! # C11 — signatures and docstrings mirror the definition; index locates the argument

Property theorems only (helper lemmas live in `Lemmas/Call.lean`).

Python side: `Sig` is a syntactically valid parameter list (`po…, /, pk…, *vp | *, ko…, **vk`),
`Sig.toks` the children of parso's `parameters` node for its text, `Sig.params` what
`inspect.signature` shows (names with kinds), `pyBind` CPython's binding of one call argument. -/
namespace JediModel.Props.C11
open JediModel.Call

/-! ## the literals of the source the model is written against -/

/-- `get_kind` tests `startswith('__')`, `get_public_name` strips exactly that prefix -/
theorem gen_dunder_convention :
    JediModel.Gen.C11.dunderPrefix.toList = ['_', '_'] ∧
    JediModel.Gen.C11.publicPrefix = JediModel.Gen.C11.dunderPrefix ∧
    JediModel.Gen.C11.publicDrop = JediModel.Gen.C11.dunderPrefix.length := by decide

/-- the `if` tests of `get_kind`, in the order the model transcribes them -/
theorem gen_get_kind_tests :
    JediModel.Gen.C11.getKindTests =
      ["tree_param.star_count == 1", "tree_param.star_count == 2",
       "tree_param.name.value.startswith('__')", "param_appeared", "p == '/'", "p == '*'",
       "p.type == 'param'", "p.star_count", "p == tree_param"] := by decide

/-- separators of `to_string`, the rule for a bound signature (`_remove_bound_param`: keep a leading
`*args`, else `[1:]`), the pieces of `docstring()` -/
theorem gen_rendering_literals :
    JediModel.Gen.C11.paramToStringLiterals = [": ", "="] ∧
    JediModel.Gen.C11.sigToStringLiterals = [")", " -> ", "/", "(", "/", ", ", "*"] ∧
    JediModel.Gen.C11.boundRule = ["_remove_bound_param(params)"] ∧
    JediModel.Gen.C11.abstractBoundRule = ["_remove_bound_param(param_names)"] ∧
    JediModel.Gen.C11.removeBoundParam =
      ["(param_names)",
       "if param_names and param_names[0].get_kind() == Parameter.VAR_POSITIONAL: return param_names",
       "return param_names[1:]"] ∧
    JediModel.Gen.C11.docstringReturns =
      ["''", "doc", "signature_text + '\\n\\n' + doc", "signature_text + doc"] ∧
    JediModel.Gen.C11.docSignatureJoin = ["\n"] := by decide

/-- the guards of `calculate_index` the model's `scanArgs` / `indexLoop` transcribe -/
theorem gen_calculate_index_tests :
    JediModel.Gen.C11.calculateIndexTests =
      ["not args", "param_names", "star_count", "not is_kwarg",
       "key_start is not None and (not star_count == 1) or star_count == 2",
       "i + 1 != len(args)", "kind == Parameter.VAR_POSITIONAL",
       "kind in (Parameter.POSITIONAL_OR_KEYWORD, Parameter.POSITIONAL_ONLY)",
       "param_name.string_name not in used_names and (kind == Parameter.KEYWORD_ONLY or (kind == Parameter.POSITIONAL_OR_KEYWORD and positional_count <= i))",
       "kind == Parameter.VAR_KEYWORD", "had_equal", "i == positional_count", "star_count",
       "had_equal", "param_name.string_name == key_start",
       "param_name.string_name.startswith(key_start)"] := rfl

/-- the guards of `process_params` / `_remove_given_params` and the kinds `maybe_positional_argument` /
`maybe_keyword_argument` accept, as `ppScan`, `ppScan2`, `processParamsKw`, `removeGiven`,
`maybePositional`, `maybeKeyword` transcribe them -/
theorem gen_forwarding_tests :
    JediModel.Gen.C11.removeGivenTests =
      ["key is None", "count and p.maybe_positional_argument()",
       "p.string_name in used_keys and p.maybe_keyword_argument()"] ∧
    JediModel.Gen.C11.maybePositionalKinds =
      ["Parameter.POSITIONAL_ONLY", "Parameter.POSITIONAL_OR_KEYWORD", "Parameter.VAR_POSITIONAL"] ∧
    JediModel.Gen.C11.maybeKeywordKinds =
      ["Parameter.KEYWORD_ONLY", "Parameter.POSITIONAL_OR_KEYWORD", "Parameter.VAR_KEYWORD"] ∧
    JediModel.Gen.C11.processParamsTests =
      ["param_names", "not found_arg_signature and original_arg_name is not None",
       "not found_kwarg_signature and original_kwarg_name is not None",
       "is_big_annoying_library(param_names[0].parent_context)", "kind == Parameter.VAR_POSITIONAL",
       "func_and_argument in kwarg_callables", "star_count == 1 and p.get_kind() != Parameter.VAR_POSITIONAL",
       "arg_names", "p.string_name in used_names", "kwarg_names", "star_count & 1",
       "p.get_kind() == Parameter.VAR_KEYWORD", "new_star_count == 3",
       "len(args_for_this_func) > len(longest_param_names)", "p.get_kind() == Parameter.POSITIONAL_OR_KEYWORD",
       "star_count & 2", "kind == Parameter.KEYWORD_ONLY", "p.get_kind() == Parameter.VAR_KEYWORD",
       "p.get_kind() == Parameter.VAR_KEYWORD", "star_count & 2", "kind == Parameter.POSITIONAL_ONLY",
       "p.get_kind() == Parameter.VAR_POSITIONAL", "p.get_kind() == Parameter.KEYWORD_ONLY", "star_count & 1",
       "star_count == 1", "p.get_kind() == Parameter.KEYWORD_ONLY", "star_count == 2"] := by
  refine ⟨by decide, by decide, by decide, rfl⟩

/-! ## parameter kinds -/

/- FULL (false, see `get_kind_dunder_witness`):
   theorem get_kind_eq_pyKind (s : Sig) : paramNames s.toks = s.params -/

/-- `get_kind` gives every parameter of every valid parameter list the kind `inspect` gives it
(names, annotations, defaults and order unchanged), provided no positional-or-keyword or
keyword-only parameter is spelled `__x` -/
theorem get_kind_eq_pyKind_partial (s : Sig)
    (hpk : ∀ p ∈ s.pk, dunder p.name = false) (hko : ∀ p ∈ s.ko, dunder p.name = false) :
    paramNames s.toks = s.params :=
  paramNames_toks s hpk hko

example : ∃ s : Sig, s.po ≠ [] ∧ s.pk ≠ [] ∧ s.vp.isSome ∧ s.ko ≠ [] ∧ s.vk.isSome ∧
    (∀ p ∈ s.pk, dunder p.name = false) ∧ (∀ p ∈ s.ko, dunder p.name = false) :=
  ⟨⟨[⟨['_', '_', 'u'], none, none⟩], [⟨['v'], none, some ['3']⟩], some ⟨['a'], none, none⟩,
    [⟨['k'], some ['i', 'n', 't'], none⟩], some ⟨['w'], none, none⟩⟩, by decide⟩

/-- F12, kernel-checked: `def f(__a, b)` – jedi says POSITIONAL_ONLY, Python POSITIONAL_OR_KEYWORD -/
theorem get_kind_dunder_witness :
    paramNames (Sig.toks ⟨[], [⟨['_', '_', 'a'], none, none⟩, ⟨['b'], none, none⟩], none, [], none⟩) ≠
      Sig.params ⟨[], [⟨['_', '_', 'a'], none, none⟩, ⟨['b'], none, none⟩], none, [], none⟩ := by decide

/-! ## `to_string` -/

/-- what `to_string()` prints between the parentheses is, token for token, the canonical
parameter list of the same signature with public names: `/` after the positional-only section,
a bare `*` exactly when keyword-only parameters follow and there is no `*args` -/
theorem to_string_tokens (s : Sig) :
    reparse (paramStrings s.params false false) = s.pub.toks := by
  rw [paramStrings_params]
  obtain ⟨po, pk, vp, ko, vk⟩ := s
  simp only [reparse_append, reparse_map, Sig.pub, Sig.toks, stars]
  cases po <;> cases vp <;> cases ko <;> cases vk <;>
    simp [reparse, midSToks, midToks, vkToks, P.pname, P.pub, P.tok, stars]

/-- `to_string()` re-parses to the same signature: kinds, annotations, defaults and order of the
re-parsed text are those of the original, names are the public names -/
theorem to_string_roundtrip (s : Sig)
    (hpk : ∀ p ∈ s.pk, dunder (publicName p.name) = false)
    (hko : ∀ p ∈ s.ko, dunder (publicName p.name) = false) :
    paramNames (reparse (paramStrings s.params false false)) = s.pub.params := by
  rw [to_string_tokens]
  apply paramNames_toks
  · intro p hp
    simp only [Sig.pub, List.mem_map] at hp
    obtain ⟨q, hq, rfl⟩ := hp
    exact hpk q hq
  · intro p hp
    simp only [Sig.pub, List.mem_map] at hp
    obtain ⟨q, hq, rfl⟩ := hp
    exact hko q hq

example : ∃ s : Sig, s.po ≠ [] ∧ s.ko ≠ [] ∧ s.vp = none ∧
    (∀ p ∈ s.pk, dunder (publicName p.name) = false) ∧
    (∀ p ∈ s.ko, dunder (publicName p.name) = false) :=
  ⟨⟨[⟨['u'], none, none⟩], [⟨['v'], none, some ['3']⟩], none, [⟨['k'], none, none⟩], none⟩, by decide⟩

/-- the text itself for `def f(u, /, v=3, *, k: int, **w)` -/
theorem to_string_example :
    sigToString ['f'] (Sig.params ⟨[⟨['u'], none, none⟩], [⟨['v'], none, some ['3']⟩], none,
      [⟨['k'], some ['i', 'n', 't'], none⟩], some ⟨['w'], none, none⟩⟩) [] =
      "f(u, /, v=3, *, k: int, **w)".toList := by decide

/-! ## `process_params`, bound signatures -/

/-- `process_params` re-orders nothing and drops nothing on a valid parameter list whose body
forwards neither `*args` nor `**kwargs` -/
theorem process_params_id (s : Sig) (h : ((s.pk ++ s.ko).map P.name).Nodup) :
    processParams s.params = s.params :=
  processParams_params s h

/-- the parameters `get_signatures` shows for an unbound callable are `inspect`'s -/
theorem signature_params_unbound (s : Sig)
    (hpk : ∀ p ∈ s.pk, dunder p.name = false) (hko : ∀ p ∈ s.ko, dunder p.name = false)
    (h : ((s.pk ++ s.ko).map P.name).Nodup) :
    signatureParams false (paramNames s.toks) = s.params := by
  simp [signatureParams, paramNames_toks s hpk hko, processParams_params s h]

/-- bound and the first parameter is a named one ⇒ exactly that parameter is dropped -/
theorem bound_drops_self (s : Sig)
    (hpk : ∀ p ∈ s.pk, dunder p.name = false) (hko : ∀ p ∈ s.ko, dunder p.name = false)
    (h : ((s.pk ++ s.ko).map P.name).Nodup) (hfirst : s.po ≠ [] ∨ s.pk ≠ []) :
    signatureParams true (paramNames s.toks) = s.params.drop 1 := by
  simp only [signatureParams, paramNames_toks s hpk hko, processParams_params s h, if_true]
  obtain ⟨po, pk, vp, ko, vk⟩ := s
  cases po with
  | cons p po => simp [removeBoundParam, Sig.params, P.pname]
  | nil =>
    cases pk with
    | cons p pk => simp [removeBoundParam, Sig.params, P.pname]
    | nil => simp at hfirst

/-- bound and the definition starts with `*args` ⇒ nothing is dropped (`self` lands in `*args`) -/
theorem bound_keeps_star_args (s : Sig)
    (hko : ∀ p ∈ s.ko, dunder p.name = false) (h : (s.ko.map P.name).Nodup)
    (hpo : s.po = []) (hpk : s.pk = []) (hvp : s.vp.isSome) :
    signatureParams true (paramNames s.toks) = s.params := by
  obtain ⟨po, pk, vp, ko, vk⟩ := s
  simp only at hpo hpk hvp
  subst hpo hpk
  have e := paramNames_toks ⟨[], [], vp, ko, vk⟩ (by simp) hko
  have e2 := processParams_params ⟨[], [], vp, ko, vk⟩ (by simpa using h)
  simp only [signatureParams, e, e2, if_true]
  cases vp with
  | none => simp at hvp
  | some a => simp [removeBoundParam, Sig.params, P.pname]

/-- the parameters `get_signatures` shows for a bound method / classmethod / class are those of
`inspect.signature` of the bound object (`pyBound`, Model/Call.lean = `inspect._signature_bound_method`),
for EVERY valid parameter list for which Python has such a signature: the first named parameter is
removed, a leading `*args` stays -/
theorem bound_eq_pyBound (s s' : Sig)
    (hpk : ∀ p ∈ s.pk, dunder p.name = false) (hko : ∀ p ∈ s.ko, dunder p.name = false)
    (h : ((s.pk ++ s.ko).map P.name).Nodup) (hb : pyBound s = some s') :
    signatureParams true (paramNames s.toks) = s'.params := by
  simp only [signatureParams, paramNames_toks s hpk hko, processParams_params s h, if_true]
  obtain ⟨po, pk, vp, ko, vk⟩ := s
  cases po with
  | cons p po =>
    simp only [pyBound, Option.some.injEq] at hb
    subst hb
    simp [removeBoundParam, Sig.params, P.pname]
  | nil =>
    cases pk with
    | cons p pk =>
      simp only [pyBound, Option.some.injEq] at hb
      subst hb
      simp [removeBoundParam, Sig.params, P.pname]
    | nil =>
      cases vp with
      | none => simp [pyBound] at hb
      | some a =>
        simp only [pyBound, Option.isSome_some, if_true, Option.some.injEq] at hb
        subst hb
        simp [removeBoundParam, Sig.params, P.pname]

example : ∃ s s' : Sig, pyBound s = some s' ∧ s.po = [] ∧ s.pk = [] ∧ s.ko ≠ [] ∧
    ((s.pk ++ s.ko).map P.name).Nodup :=
  ⟨⟨[], [], some ⟨['a', 'r', 'g', 's'], none, none⟩, [⟨['k'], none, some ['1']⟩], none⟩, _, rfl,
    by decide⟩

example : ∃ s s' : Sig, pyBound s = some s' ∧ s.pk ≠ [] ∧ s'.pk ≠ [] ∧ s.ko ≠ [] ∧
    ((s.pk ++ s.ko).map P.name).Nodup :=
  ⟨⟨[], [⟨['s', 'e', 'l', 'f'], none, none⟩, ⟨['a'], none, none⟩], none, [⟨['k'], none, none⟩], none⟩,
    _, rfl, by decide⟩

/-- the former counter-witness, now the fixed behaviour: `def m(*args, k=1)` reached through an
instance is shown as `m(*args, k=1)` -/
theorem bound_star_args_example :
    sigToString ['m'] (signatureParams true (paramNames (Sig.toks
      ⟨[], [], some ⟨['a', 'r', 'g', 's'], none, none⟩, [⟨['k'], none, some ['1']⟩], none⟩))) [] =
      "m(*args, k=1)".toList := by decide

/-- where Python has no signature for the bound object (`def m()`, `def m(*, k)`, `def m(**kw)`
in a class: `inspect.signature` raises `ValueError`, every call through the instance raises
`TypeError`) the first parameter is dropped all the same (characterisation, no Python ground truth) -/
theorem bound_spec_invalid_method (s : Sig)
    (hko : ∀ p ∈ s.ko, dunder p.name = false) (h : (s.ko.map P.name).Nodup)
    (hb : pyBound s = none) :
    signatureParams true (paramNames s.toks) = s.params.drop 1 := by
  obtain ⟨po, pk, vp, ko, vk⟩ := s
  cases po with
  | cons p po => simp [pyBound] at hb
  | nil =>
    cases pk with
    | cons p pk => simp [pyBound] at hb
    | nil =>
      cases vp with
      | some a => simp [pyBound] at hb
      | none =>
        have e := paramNames_toks ⟨[], [], none, ko, vk⟩ (by simp) hko
        have e2 := processParams_params ⟨[], [], none, ko, vk⟩ (by simpa using h)
        simp only [signatureParams, e, e2, if_true]
        cases ko with
        | cons k ko => simp [removeBoundParam, Sig.params, P.pname]
        | nil => cases vk <;> simp [removeBoundParam, Sig.params, P.pname]

/-! ## `**kwargs` pass-through wrappers (`process_params` forwarding) -/

/-- with nothing forwarded the forwarding model is `process_params` as modelled before -/
theorem process_params_kw_nil (ps : List PName) : processParamsKw ps [] = processParams ps := by
  simp [processParamsKw, processParams]

/-- a wrapper `def w(<own parameters>, **kwargs)` whose body passes `**kwargs` (and nothing else)
on to a callee with parameter list `s`: the signature shown is the wrapper's own parameters, then
the callee's positional-or-keyword and keyword-only parameters – all keyword-only now, names,
defaults, annotations and order kept –, then the callee's `**kwargs`; the callee's positional-only
parameters and `*args` (unreachable through `**kwargs`) are not shown -/
theorem kwforward_params (w s : Sig)
    (hwpk : ∀ p ∈ w.pk, dunder p.name = false) (hwko : ∀ p ∈ w.ko, dunder p.name = false)
    (hspk : ∀ p ∈ s.pk, dunder p.name = false) (hsko : ∀ p ∈ s.ko, dunder p.name = false)
    (h : ((w.pk ++ (w.ko ++ (s.pk ++ s.ko))).map P.name).Nodup) :
    processParamsKw (paramNames w.toks) [calleeParams false 0 [] (paramNames s.toks)] =
      Sig.params ⟨w.po, w.pk, w.vp, w.ko ++ (s.pk ++ s.ko), s.vk⟩ := by
  rw [paramNames_toks w hwpk hwko, paramNames_toks s hspk hsko]
  simp only [calleeParams, Bool.false_eq_true, if_false, removeGiven_zero_nil]
  exact processParamsKw_sig w s h

example : ∃ w s : Sig, w.pk ≠ [] ∧ w.vk.isSome ∧ s.po ≠ [] ∧ s.pk ≠ [] ∧ s.vp.isSome ∧ s.ko ≠ [] ∧
    ((w.pk ++ (w.ko ++ (s.pk ++ s.ko))).map P.name).Nodup :=
  ⟨⟨[], [⟨['x'], none, none⟩], none, [], some ⟨['k', 'w'], none, none⟩⟩,
   ⟨[⟨['p'], none, none⟩], [⟨['a'], none, some ['1']⟩], some ⟨['v'], none, none⟩, [⟨['k'], none, none⟩], none⟩,
   by decide⟩

/-- the plain pass-through shape `def f(**kwargs): return g(**kwargs)`: the forwarded signature is
`kwForwarded` of the wrapped one -/
theorem kwforward_pure (s : Sig) (kw : P)
    (hspk : ∀ p ∈ s.pk, dunder p.name = false) (hsko : ∀ p ∈ s.ko, dunder p.name = false)
    (h : ((s.pk ++ s.ko).map P.name).Nodup) :
    signatureParams false (processParamsKw (paramNames (Sig.toks ⟨[], [], none, [], some kw⟩))
      [calleeParams false 0 [] (paramNames s.toks)]) = (kwForwarded s).params := by
  have e := kwforward_params ⟨[], [], none, [], some kw⟩ s (by simp) (by simp) hspk hsko (by simpa using h)
  rw [e]
  have hn : (((kwForwarded s).pk ++ (kwForwarded s).ko).map P.name).Nodup := by simpa [kwForwarded] using h
  have := processParams_params (kwForwarded s) hn
  simpa [signatureParams, kwForwarded] using this

/- FULL (false, see `kwforward_required_positional_only_witness`):
   theorem kwforward_accepts_iff (s : Sig) (npos : Nat) (kws : List Str) :
     pyAccepts (kwForwarded s) npos kws = pyRunsKwWrapper s npos kws -/

/-- exactly the calls that bind against the forwarded signature run without `TypeError` – for every
wrapped parameter list whose positional-only parameters all have defaults, every number of
positional arguments and every list of keywords -/
theorem kwforward_accepts_iff_partial (s : Sig) (npos : Nat) (kws : List Str)
    (hpo : ∀ p ∈ s.po, p.dflt.isSome = true) :
    pyAccepts (kwForwarded s) npos kws = pyRunsKwWrapper s npos kws := by
  obtain ⟨po, pk, vp, ko, vk⟩ := s
  simp only at hpo
  have h1 : ∀ n, pyKwOk (kwForwarded ⟨po, pk, vp, ko, vk⟩) npos n = pyKwOk ⟨po, pk, vp, ko, vk⟩ 0 n := by
    intro n
    have e0 : optIdx (([] : List P).map P.name) n = none := by simp [optIdx]
    simp only [pyKwOk, kwForwarded, e0]
    cases hn : optIdx (pk.map P.name) n with
    | some j =>
      have := (optIdx_some_mem _ _ _ hn).1
      simp [this]
    | none =>
      have := (optIdx_none_iff _ _).mp hn
      have hc : (pk.map P.name).contains n = false := by simpa using this
      simp only [List.map_append, List.contains_append, hc, Bool.false_or]
  have h2 : po.all (fun p => p.dflt.isSome) = true := by
    simpa [List.all_eq_true] using hpo
  have h3 : (kws.all (pyKwOk (kwForwarded ⟨po, pk, vp, ko, vk⟩) npos)) = kws.all (pyKwOk ⟨po, pk, vp, ko, vk⟩ 0) := by
    congr 1
    funext n
    exact h1 n
  unfold pyRunsKwWrapper pyAccepts
  rw [h3]
  by_cases h0 : npos = 0
  · subst h0
    simp [kwForwarded, h2, List.all_append, Bool.and_assoc]
  · simp [kwForwarded, h0]

example : ∃ (s : Sig) (kws : List Str), s.po ≠ [] ∧ (∀ p ∈ s.po, p.dflt.isSome = true) ∧
    pyAccepts (kwForwarded s) 0 kws = true :=
  ⟨⟨[⟨['p'], none, some ['1']⟩], [⟨['a'], none, none⟩], none, [⟨['k'], none, some ['2']⟩], none⟩,
    [['a']], by decide⟩

/-- kernel-checked: `def g(p, /, a): pass` / `def f(**kwargs): return g(**kwargs)` – the shown
signature `f(*, a)` accepts `f(a=0)`, the real call raises `TypeError` (`p` can never be supplied) -/
theorem kwforward_required_positional_only_witness :
    pyAccepts (kwForwarded ⟨[⟨['p'], none, none⟩], [⟨['a'], none, none⟩], none, [], none⟩) 0 [['a']] = true ∧
    pyRunsKwWrapper ⟨[⟨['p'], none, none⟩], [⟨['a'], none, none⟩], none, [], none⟩ 0 [['a']] = false := by
  decide

/-- arguments the forwarding call supplies itself are taken off the callee's list: `g(1, **kwargs)`
removes the first parameter that can be positional, `g(k=…, **kwargs)` the one named `k` (if it can
be given by keyword); with nothing supplied nothing is removed -/
theorem remove_given_spec (p : PName) (rest : List PName) (keys : List Str) :
    removeGiven 0 [] (p :: rest) = p :: rest ∧
    (maybePositional p = true → removeGiven 1 keys (p :: rest) = removeGiven 0 keys rest) ∧
    (maybeKeyword p = true → keys.contains p.name = true →
      removeGiven 0 keys (p :: rest) = removeGiven 0 keys rest) := by
  refine ⟨removeGiven_zero_nil _, ?_, ?_⟩
  · intro h; simp [removeGiven, h]
  · intro h1 h2; simp_all [removeGiven]

/-! ## the argument scan and `index` -/

/-- `_iter_arguments` on the nodes of a call prefix yields exactly one triple per complete
argument (positional ↦ `(0, '', False)`, `n=…` ↦ `(0, n, True)`, `*e`/`**e` ↦ `(k, name|None, False)`)
and one for the argument under the cursor -/
theorem arg_triples_closed_form (prev : List Arg) (cur : Cur) :
    argTriples prev cur = prev.map Arg.triple ++ [cur.triple] :=
  argTriples_eq prev cur

/-- the current argument is unambiguous for Python: a non-name expression (positional) or
`name=` / `name=value` with the cursor behind the `=` -/
def Cur.exact : Cur → Option CArg
  | .expr => some .pos
  | .kwOpen n => some (.kw n)
  | .kwArg n _ true => some (.kw n)
  | _ => none

/- FULL (false, see `index_H1_witness`, `index_H2_witness`):
   theorem index_eq_pyBind … (no hypotheses `h1`, `h2`) -/

/-- `index` is the parameter CPython binds the argument under the cursor to – for every valid
parameter list with distinct names, every well-formed prefix (positional arguments `es`, then
distinct keywords `kws`, no `*e`/`**e`) and every unambiguous current argument:
k-th positional, overflow into `*args`, keyword by exact name, positional-only name or unknown
name by keyword ⇒ `**kwargs` or none.
`h1` (F17): not (positional argument, no slot, no `*args`, but a keyword-only parameter or `**kwargs`).
`h2` (F18): not (keyword naming a parameter already filled positionally while `**kwargs` exists). -/
theorem index_eq_pyBind_partial (s : Sig) (es : List Expr) (kws : List Str) (cur : Cur) (c : CArg)
    (hcur : Cur.exact cur = some c)
    (hnd : ((s.pk ++ s.ko).map P.name).Nodup)
    (hpos : c = .pos → kws = []) (hkw : ∀ n, c = .kw n → n ∉ kws)
    (h1 : c = .pos → es.length < s.po.length + s.pk.length ∨ s.vp.isSome ∨ (s.ko = [] ∧ s.vk = none))
    (h2 : ∀ n j, c = .kw n → optIdx (s.pk.map P.name) n = some j → s.po.length + j < es.length →
      s.vk = none) :
    calculateIndex s.params (argTriples (es.map Arg.pos ++ kws.map Arg.kw) cur) =
      pyBind s (List.replicate es.length .pos ++ kws.map .kw) c := by
  rw [argTriples_eq, List.map_append, map_pos_triple, List.append_assoc]
  have hk : (kws.map Arg.kw).map Arg.triple = kws.map (fun k => CArg.triple (.kw k)) := by
    simp [Arg.triple, CArg.triple]
  rw [hk]
  cases c with
  | pos =>
    have ht : cur.triple = CArg.triple .pos := by
      cases cur <;> simp [Cur.exact] at hcur <;> first | rfl | (rename_i b; cases b <;> simp [Cur.exact] at hcur)
    have := hpos rfl
    subst this
    rw [ht]
    exact calcIndex_pos s es.length (h1 rfl)
  | kw n =>
    have ht : cur.triple = CArg.triple (.kw n) := by
      cases cur <;> simp [Cur.exact] at hcur
      · rename_i m cut b
        cases b <;> simp [Cur.exact] at hcur
        subst hcur; rfl
      · subst hcur; rfl
    rw [ht]
    exact calcIndex_kw s es.length kws n hnd (hkw n rfl) (fun j hj hlt => h2 n j rfl hj hlt)

example : ∃ (s : Sig) (es : List Expr) (kws : List Str) (cur : Cur) (c : CArg),
    Cur.exact cur = some c ∧ ((s.pk ++ s.ko).map P.name).Nodup ∧ es ≠ [] ∧ kws ≠ [] ∧
    (∀ n, c = .kw n → n ∉ kws) ∧ optIdx (s.pk.map P.name) ['k'] = none :=
  ⟨⟨[⟨['u'], none, none⟩], [⟨['v'], none, none⟩], none, [⟨['k'], none, none⟩], some ⟨['w'], none, none⟩⟩,
    [.other], [['v']], .kwOpen ['k'], .kw ['k'], rfl, by decide, by decide, by decide,
    by intro n h; cases h; decide, by decide⟩

/-- F17 / H1, kernel-checked: `def f(*, a)` / `f(2` – jedi says index 0, Python binds to none -/
theorem index_H1_witness :
    calculateIndex (Sig.params ⟨[], [], none, [⟨['a'], none, none⟩], none⟩) (argTriples [] .expr) = some 0 ∧
    pyBind ⟨[], [], none, [⟨['a'], none, none⟩], none⟩ [] .pos = none := by decide

/-- F18 / H2, kernel-checked: `def f(a, **b)` / `f(1, a=` – jedi says index 1 (`**b`), Python
raises "multiple values for argument 'a'" -/
theorem index_H2_witness :
    calculateIndex (Sig.params ⟨[], [⟨['a'], none, none⟩], none, [], some ⟨['b'], none, none⟩⟩)
      (argTriples [.pos .other] (.kwOpen ['a'])) = some 1 ∧
    pyBind ⟨[], [⟨['a'], none, none⟩], none, [], some ⟨['b'], none, none⟩⟩ [.pos] (.kw ['a']) = none := by
  decide

/-- after a complete `*e` argument nothing is assumed about its length: the first `*args`
parameter, else the positional parameter with as many predecessors as there were plain
positional arguments – the scan simply skips starred arguments when counting
(characterisation, no Python ground truth) -/
theorem index_spec_star (pre : List Triple) (k : Nat) (key : Option Str)
    (last : Triple) (hk : k ≠ 0) :
    (scanArgs (⟨k, key, false⟩ :: pre ++ [last])).2.1 = (scanArgs (pre ++ [last])).2.1 ∧
    (scanArgs (⟨k, key, false⟩ :: pre ++ [last])).2.2 = (scanArgs (pre ++ [last])).2.2 := by
  simp [scanArgs, hk]

/-- a bare name under the cursor and no keyword before it: when a positional slot is left the
answer is that slot (the name is read as a positional expression), exactly as for a non-name
expression -/
theorem index_spec_prefix (s : Sig) (npos : Nat) (name : Str) (cut : Nat)
    (hslot : npos < s.po.length + s.pk.length) :
    calculateIndex s.params (List.replicate npos (CArg.triple .pos) ++ [(Cur.name name cut).triple]) =
      some npos := by
  obtain ⟨po, pk, vp, ko, vk⟩ := s
  unfold calculateIndex
  have e : List.replicate npos (CArg.triple .pos) ++ [(Cur.name name cut).triple] =
      List.replicate npos (⟨0, some [], false⟩ : Triple) ++
        (([] : List Str).map (fun n => (⟨0, some n, true⟩ : Triple)) ++ [(Cur.name name cut).triple]) := by
    simp [CArg.triple]
  rw [e, ← List.append_assoc, List.getLast?_concat, List.append_assoc, scan_wf npos [] _ rfl]
  simp only [Sig.params, Cur.triple, List.isEmpty_nil, Bool.not_true, Bool.or_self]
  rw [indexLoop_append, indexLoop_append, indexLoop_append, indexLoop_append]
  rw [il_pos_seg npos _ .posOnly (Or.inl rfl) po 0 (by omega)]
  simp only [Nat.zero_add, List.length_append, List.length_map]
  by_cases hpo : npos < po.length
  · simp [hpo]
  · simp only [hpo, if_false]
    rw [il_pos_seg npos _ .posOrKw (Or.inr rfl) pk po.length (by omega)]
    simp only at hslot
    simp [hslot]

/-! ## docstring assembly -/

/-- `docstring()` is the raw text preceded by the signature line(s) and a blank line; when
either part is empty it is just the other one -/
theorem docstring_assembly (sig doc : Str) :
    (sig ≠ [] → doc ≠ [] → docAssemble sig doc = sig ++ ['\n', '\n'] ++ doc) ∧
    (doc = [] → docAssemble sig doc = sig) ∧ (sig = [] → docAssemble sig doc = doc) := by
  refine ⟨?_, ?_, ?_⟩
  · intro h1 h2
    cases sig <;> cases doc <;> simp_all [docAssemble]
  · rintro rfl; cases sig <;> simp [docAssemble]
  · rintro rfl; cases doc <;> simp [docAssemble]

/-! ## which literal is a docstring (`_clean_docstring_literal` / `safe_literal_eval`) -/
section DocLit
open JediModel.DocLit

/-- the decision expressions of `safe_literal_eval` (slice length, the letter compared with
`first_two[0]`, the two-letter prefixes) and the statements of `_clean_docstring_literal` and of
its two callers, as the model `DocLit.cleanDocstringLiteral` transcribes them -/
theorem gen_docstring_literal_rule :
    JediModel.Gen.C11.docLitSlice = 2 ∧ JediModel.Gen.C11.docLitFFirst = 'f' ∧
    JediModel.Gen.C11.docLitFPairs = [['f', 'r'], ['r', 'f']] ∧
    JediModel.Gen.C11.safeLiteralEval =
      ["(value)", "first_two = value[:2].lower()",
       "if first_two[0] == 'f' or first_two in ('fr', 'rf'): return ''", "return literal_eval(value)"] ∧
    JediModel.Gen.C11.cleanDocstringLiteral =
      ["(value)", "doc = safe_literal_eval(value)", "if not isinstance(doc, str): return ''",
       "return cleandoc(doc)"] ∧
    JediModel.Gen.C11.docLiteralCallers =
      ["clean_scope_docstring: return _clean_docstring_literal(node.value)",
       "find_statement_documentation: return _clean_docstring_literal(maybe_string.value)"] := by decide

/-- every string prefix CPython accepts: none, r, u, b, br, rb, f, fr, rf in every case -/
theorem legal_prefixes_count : legalPrefixes.length = 25 ∧ legalPrefixes.Nodup := by decide

/-- For EVERY string token `prefix ++ quote ++ body ++ quote` (any legal prefix, any of the four
quote styles, any body whatsoever) `_clean_docstring_literal` takes the literal as docstring
exactly when Python does: no `b` and no `f` in the prefix.  The slice length and the letters are
the ones the translator read from the source. -/
theorem docstring_literal_decision (p q body : List Char) (hp : p ∈ legalPrefixes) (hq : q ∈ quotes) :
    cleanDocstringLiteral JediModel.Gen.C11.docLitSlice JediModel.Gen.C11.docLitFFirst
        JediModel.Gen.C11.docLitFPairs (token p q body) (pyEvald p) =
      if pyIsDocstring p then .cleandoc else .emptyDoc := by
  obtain ⟨h1, h2, h3, -⟩ := gen_docstring_literal_rule
  rw [h1, h2, h3]
  unfold cleanDocstringLiteral
  rw [skipsEval_token p q body hp hq]
  unfold pyEvald pyIsDocstring
  cases hf : pyIsFString p <;> cases hb : pyIsBytes p <;> simp

example : ['R', 'b'] ∈ legalPrefixes ∧ ['\'', '\'', '\''] ∈ quotes ∧ pyIsDocstring ['R', 'b'] = false ∧
    pyIsDocstring ['U'] = true := by decide

/-- the decision never looks at the body: two tokens with the same prefix and quote get the same
answer whatever `literal_eval` yields (in particular a body starting with `b`, `f` or `r` after a
one-character quote is not taken for a prefix) -/
theorem docstring_literal_body_irrelevant (p q b₁ b₂ : List Char) (ev : Evald)
    (hp : p ∈ legalPrefixes) (hq : q ∈ quotes) :
    cleanDocstringLiteral JediModel.Gen.C11.docLitSlice JediModel.Gen.C11.docLitFFirst
        JediModel.Gen.C11.docLitFPairs (token p q b₁) ev =
    cleanDocstringLiteral JediModel.Gen.C11.docLitSlice JediModel.Gen.C11.docLitFFirst
        JediModel.Gen.C11.docLitFPairs (token p q b₂) ev := by
  obtain ⟨h1, h2, h3, -⟩ := gen_docstring_literal_rule
  rw [h1, h2, h3]
  unfold cleanDocstringLiteral
  rw [skipsEval_token p q b₁ hp hq, skipsEval_token p q b₂ hp hq]

example : token [] ['\''] ['b', 'a', 'r'] = ['\'', 'b', 'a', 'r', '\''] := by decide

/-- why the two theorems above are not vacuous: a rule that takes the letters of `value[:2]` for
the prefix (`'b' in value[:2].lower()`) is not a function of the prefix - kernel-checked on
`'bc'` against `'ac'`, both docstrings in Python -/
theorem two_char_sniffing_depends_on_body :
    (lower ((token [] ['\''] ['b', 'c']).take 2)).contains 'b' = true ∧
    (lower ((token [] ['\''] ['a', 'c']).take 2)).contains 'b' = false ∧
    pyIsDocstring [] = true := by decide

end DocLit

/-! ## histories: the time cache in front of the callee inference (`cache_signatures`)

Every `get_signatures` goes through `signature_time_cache`; its dictionary outlives the Script.  The
property speaks about each request on its own (`SigCache.demanded`: the callee inferred from the source
that Script was given), so it must hold for every request of every history. -/
namespace SigHist
open JediModel.SigCache

/-- the configuration the source has: what the second key component is, the validity -/
def genCfg : Cfg :=
  { textKey := JediModel.Gen.C11.sigKeyMid == "matched-text", validity := JediModel.Gen.C11.sigValidityMs }

/-- `cache_signatures` and `signature_time_cache.wrapper` as `SigCache.whole` / `keyOf` / `call`
transcribe them (the key tuple itself is classified by the translator: `sigKeyMid`) -/
theorem gen_signature_cache_shape :
    JediModel.Gen.C11.cacheSignatures =
      ["line_index = user_pos[0] - 1", "before_cursor = code_lines[line_index][:user_pos[1]]",
       "other_lines = code_lines[bracket_leaf.start_pos[0]:line_index]",
       "whole = ''.join(other_lines + [before_cursor])",
       "before_bracket = re.match('.*\\\\(', whole, re.DOTALL)",
       "module_path = context.get_root_context().py__file__()",
       "if module_path is None or before_bracket is None: yield None else: yield <KEY>",
       "yield infer(inference_state, context, bracket_leaf.get_previous_leaf())"] ∧
    JediModel.Gen.C11.sigKeyOuter = ["module_path", "bracket_leaf.start_pos"] ∧
    JediModel.Gen.C11.signatureTimeCacheWrapper =
      ["generator = key_func(*args, **kwargs)", "key = next(generator)",
       "try: expiry, value = dct[key]; if expiry > time.time(): return value except KeyError: pass",
       "value = next(generator)", "time_add = getattr(settings, time_add_setting)",
       "if key is not None: dct[key] = (time.time() + time_add, value)", "return value"] := by decide

/-- **histories**: for ALL sequences of requests (any Scripts, paths, contents, cursor positions,
clock values) against the one global dictionary, every answer is the callee inferred from the source
of the Script that asks - the signature shown never comes from an earlier version of the file.
(Holds because the key contains a match object; `genCfg` is read from the source.) -/
theorem sig_history_every_answer_fresh {V : Type} (reqs : List (Req V)) :
    run genCfg {} reqs = reqs.map demanded :=
  run_fresh genCfg (by decide) reqs {} inv_init

example : run genCfg {} [({ path := some "m.py", lines := ["f(".toList], bracket := (1, 1), cursor := (1, 2),
                            scriptAt := 0, now := 0, fresh := "f(a)" } : Req String),
                         { path := some "m.py", lines := ["f(".toList], bracket := (1, 1), cursor := (1, 2),
                            scriptAt := 1, now := 1, fresh := "f(b, c)" }] = [some "f(a)", some "f(b, c)"] := by decide

/-- a request of a Script without path (or whose text before the cursor has no `(`: cursor below the
line of the bracket) is never served from the dictionary and leaves it alone - for EVERY
configuration of the key -/
theorem sig_unkeyed_request_fresh {V : Type} (cfg : Cfg) (st : State V) (rq : Req V) (w : List Char)
    (hw : whole rq = some w) (hk : rq.path = none ∨ upToLastParen w = none) :
    (call cfg st rq).1 = some rq.fresh ∧ (call cfg st rq).2.dct = st.dct := by
  have : keyOf cfg st.nextObj rq w = none := by
    unfold keyOf
    rcases hk with h | h
    · rw [h]
    · rw [h]; cases rq.path <;> rfl
  unfold call
  simp [hw, this]

example : whole ({ path := none, lines := ["f(".toList], bracket := (1, 1), cursor := (1, 2), scriptAt := 0, now := 0,
                   fresh := () } : Req Unit) = some "f(".toList := by decide

/-- with the matched TEXT in the key the second of two requests that agree on path, text up to the
last `(` and bracket position is answered with the FIRST request's callee while the entry is valid,
whatever the rest of the file has become: exact two-step characterisation, all inputs (the clock
does not run backwards between constructing the second Script and asking it) -/
theorem sig_text_key_second_answer {V : Type} (cfg : Cfg) (h : cfg.textKey = true) (r1 r2 : Req V)
    (w1 w2 : List Char) (p : String) (t : List Char)
    (hw1 : whole r1 = some w1) (hw2 : whole r2 = some w2)
    (hp1 : r1.path = some p) (hp2 : r2.path = some p)
    (ht1 : upToLastParen w1 = some t) (ht2 : upToLastParen w2 = some t) (hb : r1.bracket = r2.bracket)
    (hclock : r2.scriptAt ≤ r2.now) :
    run cfg {} [r1, r2] =
      [some r1.fresh, some (if r1.now + cfg.validity > r2.now then r1.fresh else r2.fresh)] := by
  have k1 : ∀ n, keyOf cfg n r1 w1 = some ⟨p, .text t, r1.bracket⟩ := by
    intro n; unfold keyOf; rw [hp1, ht1]; simp [h]
  have k2 : ∀ n, keyOf cfg n r2 w2 = some ⟨p, .text t, r1.bracket⟩ := by
    intro n; unfold keyOf; rw [hp2, ht2]; simp [h, hb]
  simp only [run, request, newScript, call, hw1, hw2, k1, k2, lookup, store, List.filter_nil, if_true]
  by_cases hv : r1.now + cfg.validity > r2.now
  · have : ¬ (r1.now + cfg.validity < r2.scriptAt) := by omega
    simp [hv, this, lookup]
  · by_cases hp : r1.now + cfg.validity < r2.scriptAt <;> simp [hv, hp, lookup]

def witnessBefore : Req String :=
  { path := some "m.py", lines := ["def f(a): pass\n".toList, "f(".toList], bracket := (2, 1),
    cursor := (2, 2), scriptAt := 0, now := 0, fresh := "f(a)" }
def witnessAfter : Req String :=
  { path := some "m.py", lines := ["def f(b, c): pass\n".toList, "f(".toList], bracket := (2, 1),
    cursor := (2, 2), scriptAt := 1, now := 1, fresh := "f(b, c)" }

/-- kernel-checked counter-witness of `sig_history_every_answer_fresh` for the text key: the file
`m.py` is edited (`def f(a)` -> `def f(b, c)`), the call line `f(` stays, the second Script asks one
tick later and is shown the first definition -/
theorem sig_text_key_stale_witness :
    run { textKey := true, validity := 3000 } {} [witnessBefore, witnessAfter] = [some "f(a)", some "f(a)"] ∧
    demanded witnessAfter = some "f(b, c)" ∧
    run genCfg {} [witnessBefore, witnessAfter] = [some "f(a)", some "f(b, c)"] := by decide

end SigHist

end JediModel.Props.C11

import JediModel.Gen.C11
import JediModel.Lemmas.Call
/-! # C11 — signatures and docstrings mirror the definition; index locates the argument

Property theorems only (helper lemmas live in `Lemmas/Call.lean`).

Python side: `Sig` is a syntactically valid parameter list (`po…, /, pk…, *vp | *, ko…, **vk`),
`Sig.toks` the children of parso's `parameters` node for its text, `Sig.params` what
`inspect.signature` shows (names with kinds), `pyBind` CPython's binding of one call argument. -/
namespace JediModel.Props.C11
open JediModel.Call

/-! ## the literals of the source the model is written against -/

/-- `get_kind` tests `startswith('__')`, `get_public_name` strips exactly that prefix -/
theorem gen_dunder_convention :
    JediModel.Gen.C11.dunderPrefix.toList = ['_', '_'] ∧
    JediModel.Gen.C11.publicPrefix = JediModel.Gen.C11.dunderPrefix ∧
    JediModel.Gen.C11.publicDrop = JediModel.Gen.C11.dunderPrefix.length := by decide

/-- the `if` tests of `get_kind`, in the order the model transcribes them -/
theorem gen_get_kind_tests :
    JediModel.Gen.C11.getKindTests =
      ["tree_param.star_count == 1", "tree_param.star_count == 2",
       "tree_param.name.value.startswith('__')", "param_appeared", "p == '/'", "p == '*'",
       "p.type == 'param'", "p.star_count", "p == tree_param"] := by decide

/-- separators of `to_string`, the `[1:]` of a bound signature, the pieces of `docstring()` -/
theorem gen_rendering_literals :
    JediModel.Gen.C11.paramToStringLiterals = [": ", "="] ∧
    JediModel.Gen.C11.sigToStringLiterals = [")", " -> ", "/", "(", "/", ", ", "*"] ∧
    JediModel.Gen.C11.boundSlice = ["params[1:]"] ∧
    JediModel.Gen.C11.docstringReturns =
      ["''", "doc", "signature_text + '\\n\\n' + doc", "signature_text + doc"] ∧
    JediModel.Gen.C11.docSignatureJoin = ["\n"] := by decide

/-- the guards of `calculate_index` the model's `scanArgs` / `indexLoop` transcribe -/
theorem gen_calculate_index_tests :
    JediModel.Gen.C11.calculateIndexTests =
      ["not args", "param_names", "star_count", "not is_kwarg",
       "key_start is not None and (not star_count == 1) or star_count == 2",
       "i + 1 != len(args)", "kind == Parameter.VAR_POSITIONAL",
       "kind in (Parameter.POSITIONAL_OR_KEYWORD, Parameter.POSITIONAL_ONLY)",
       "param_name.string_name not in used_names and (kind == Parameter.KEYWORD_ONLY or (kind == Parameter.POSITIONAL_OR_KEYWORD and positional_count <= i))",
       "kind == Parameter.VAR_KEYWORD", "had_equal", "i == positional_count", "star_count",
       "had_equal", "param_name.string_name == key_start",
       "param_name.string_name.startswith(key_start)"] := rfl

/-! ## parameter kinds -/

/- FULL (false, see `get_kind_dunder_witness`):
   theorem get_kind_eq_pyKind (s : Sig) : paramNames s.toks = s.params -/

/-- `get_kind` gives every parameter of every valid parameter list the kind `inspect` gives it
(names, annotations, defaults and order unchanged), provided no positional-or-keyword or
keyword-only parameter is spelled `__x` -/
theorem get_kind_eq_pyKind_partial (s : Sig)
    (hpk : ∀ p ∈ s.pk, dunder p.name = false) (hko : ∀ p ∈ s.ko, dunder p.name = false) :
    paramNames s.toks = s.params :=
  paramNames_toks s hpk hko

example : ∃ s : Sig, s.po ≠ [] ∧ s.pk ≠ [] ∧ s.vp.isSome ∧ s.ko ≠ [] ∧ s.vk.isSome ∧
    (∀ p ∈ s.pk, dunder p.name = false) ∧ (∀ p ∈ s.ko, dunder p.name = false) :=
  ⟨⟨[⟨['_', '_', 'u'], none, none⟩], [⟨['v'], none, some ['3']⟩], some ⟨['a'], none, none⟩,
    [⟨['k'], some ['i', 'n', 't'], none⟩], some ⟨['w'], none, none⟩⟩, by decide⟩

/-- F12, kernel-checked: `def f(__a, b)` – jedi says POSITIONAL_ONLY, Python POSITIONAL_OR_KEYWORD -/
theorem get_kind_dunder_witness :
    paramNames (Sig.toks ⟨[], [⟨['_', '_', 'a'], none, none⟩, ⟨['b'], none, none⟩], none, [], none⟩) ≠
      Sig.params ⟨[], [⟨['_', '_', 'a'], none, none⟩, ⟨['b'], none, none⟩], none, [], none⟩ := by decide

/-! ## `to_string` -/

/-- what `to_string()` prints between the parentheses is, token for token, the canonical
parameter list of the same signature with public names: `/` after the positional-only section,
a bare `*` exactly when keyword-only parameters follow and there is no `*args` -/
theorem to_string_tokens (s : Sig) :
    reparse (paramStrings s.params false false) = s.pub.toks := by
  rw [paramStrings_params]
  obtain ⟨po, pk, vp, ko, vk⟩ := s
  simp only [reparse_append, reparse_map, Sig.pub, Sig.toks, stars]
  cases po <;> cases vp <;> cases ko <;> cases vk <;>
    simp [reparse, midSToks, midToks, vkToks, P.pname, P.pub, P.tok, stars]

/-- `to_string()` re-parses to the same signature: kinds, annotations, defaults and order of the
re-parsed text are those of the original, names are the public names -/
theorem to_string_roundtrip (s : Sig)
    (hpk : ∀ p ∈ s.pk, dunder (publicName p.name) = false)
    (hko : ∀ p ∈ s.ko, dunder (publicName p.name) = false) :
    paramNames (reparse (paramStrings s.params false false)) = s.pub.params := by
  rw [to_string_tokens]
  apply paramNames_toks
  · intro p hp
    simp only [Sig.pub, List.mem_map] at hp
    obtain ⟨q, hq, rfl⟩ := hp
    exact hpk q hq
  · intro p hp
    simp only [Sig.pub, List.mem_map] at hp
    obtain ⟨q, hq, rfl⟩ := hp
    exact hko q hq

example : ∃ s : Sig, s.po ≠ [] ∧ s.ko ≠ [] ∧ s.vp = none ∧
    (∀ p ∈ s.pk, dunder (publicName p.name) = false) ∧
    (∀ p ∈ s.ko, dunder (publicName p.name) = false) :=
  ⟨⟨[⟨['u'], none, none⟩], [⟨['v'], none, some ['3']⟩], none, [⟨['k'], none, none⟩], none⟩, by decide⟩

/-- the text itself for `def f(u, /, v=3, *, k: int, **w)` -/
theorem to_string_example :
    sigToString ['f'] (Sig.params ⟨[⟨['u'], none, none⟩], [⟨['v'], none, some ['3']⟩], none,
      [⟨['k'], some ['i', 'n', 't'], none⟩], some ⟨['w'], none, none⟩⟩) [] =
      "f(u, /, v=3, *, k: int, **w)".toList := by decide

/-! ## `process_params`, bound signatures -/

/-- `process_params` re-orders nothing and drops nothing on a valid parameter list whose body
forwards neither `*args` nor `**kwargs` -/
theorem process_params_id (s : Sig) (h : ((s.pk ++ s.ko).map P.name).Nodup) :
    processParams s.params = s.params :=
  processParams_params s h

/-- the parameters `get_signatures` shows for an unbound callable are `inspect`'s -/
theorem signature_params_unbound (s : Sig)
    (hpk : ∀ p ∈ s.pk, dunder p.name = false) (hko : ∀ p ∈ s.ko, dunder p.name = false)
    (h : ((s.pk ++ s.ko).map P.name).Nodup) :
    signatureParams false (paramNames s.toks) = s.params := by
  simp [signatureParams, paramNames_toks s hpk hko, processParams_params s h]

/-- bound ⇒ exactly the first parameter is dropped -/
theorem bound_drops_self (s : Sig)
    (hpk : ∀ p ∈ s.pk, dunder p.name = false) (hko : ∀ p ∈ s.ko, dunder p.name = false)
    (h : ((s.pk ++ s.ko).map P.name).Nodup) :
    signatureParams true (paramNames s.toks) = s.params.drop 1 := by
  simp [signatureParams, paramNames_toks s hpk hko, processParams_params s h]

/-- Python's view of a bound method (`inspect._signature_bound_method`): the first positional
parameter is consumed; a leading `*args` absorbs `self` and stays -/
def pyBound (s : Sig) : Sig :=
  match s.po, s.pk with
  | _ :: po, _ => { s with po := po }
  | [], _ :: pk => { s with pk := pk }
  | [], [] => s

/- FULL (false, see `bound_star_args_witness`):
   theorem bound_eq_pyBound (s : Sig) … : signatureParams true (paramNames s.toks) = (pyBound s).params -/

/-- where Python binds `self`/`cls` to a named parameter, jedi removes exactly that parameter -/
theorem bound_eq_pyBound_partial (s : Sig)
    (hpk : ∀ p ∈ s.pk, dunder p.name = false) (hko : ∀ p ∈ s.ko, dunder p.name = false)
    (h : ((s.pk ++ s.ko).map P.name).Nodup) (hfirst : s.po ≠ [] ∨ s.pk ≠ []) :
    signatureParams true (paramNames s.toks) = (pyBound s).params := by
  rw [bound_drops_self s hpk hko h]
  obtain ⟨po, pk, vp, ko, vk⟩ := s
  cases po with
  | cons p po => simp [pyBound, Sig.params]
  | nil =>
    cases pk with
    | cons p pk => simp [pyBound, Sig.params]
    | nil => simp at hfirst

example : ∃ s : Sig, (s.po ≠ [] ∨ s.pk ≠ []) ∧ s.ko ≠ [] ∧ ((s.pk ++ s.ko).map P.name).Nodup :=
  ⟨⟨[], [⟨['s', 'e', 'l', 'f'], none, none⟩, ⟨['a'], none, none⟩], none, [⟨['k'], none, none⟩], none⟩,
    by decide⟩

/-- kernel-checked: `def m(*args, k=1)` reached through an instance – jedi drops `*args`
(`m(*, k=1)`), Python keeps it (`(*args, k=1)`) -/
theorem bound_star_args_witness :
    signatureParams true (paramNames (Sig.toks ⟨[], [], some ⟨['a', 'r', 'g', 's'], none, none⟩,
      [⟨['k'], none, some ['1']⟩], none⟩)) ≠
      (pyBound ⟨[], [], some ⟨['a', 'r', 'g', 's'], none, none⟩, [⟨['k'], none, some ['1']⟩], none⟩).params := by
  decide

/-! ## docstring assembly -/

/-- `docstring()` is the raw text preceded by the signature line(s) and a blank line; when
either part is empty it is just the other one -/
theorem docstring_assembly (sig doc : Str) :
    (sig ≠ [] → doc ≠ [] → docAssemble sig doc = sig ++ ['\n', '\n'] ++ doc) ∧
    (doc = [] → docAssemble sig doc = sig) ∧ (sig = [] → docAssemble sig doc = doc) := by
  refine ⟨?_, ?_, ?_⟩
  · intro h1 h2
    cases sig <;> cases doc <;> simp_all [docAssemble]
  · rintro rfl; cases sig <;> simp [docAssemble]
  · rintro rfl; cases doc <;> simp [docAssemble]

end JediModel.Props.C11

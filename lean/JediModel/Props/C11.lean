import JediModel.Gen.C11
import JediModel.Model.Call
/-! # C11 — signatures and docstrings mirror the definition; index locates the argument -/
namespace JediModel.Props.C11
open JediModel.Call

/-- the `'__'` literal of `get_kind` is the one the model's `dunder` tests -/
theorem gen_dunder_prefix : JediModel.Gen.C11.dunderPrefix.toList = ['_', '_'] := by decide

end JediModel.Props.C11

import JediModel.Lemmas.Validate
import JediModel.Gen.C01
/-! C01 — the position contract of the query API: `validate_line_column`, stated over the
constants the translator reads from `jedi/api/helpers.py` / `jedi/api/__init__.py`. -/
namespace JediModel.Props.C01
open JediModel.Text JediModel.Validate
open JediModel.Gen

/-- the wrapper as written in the working tree -/
def spec : Spec :=
  { defaultLineMin := C01.defaultLineMin, lineLo := C01.lineLo, lineLoStrict := C01.lineLoStrict,
    lineHiStrict := C01.lineHiStrict, indexOffset := C01.indexOffset, strip := C01.strip,
    colLo := C01.colLo, colLoStrict := C01.colLoStrict, colHiStrict := C01.colHiStrict,
    lineErr := C01.lineErr, colErr := C01.colErr }

/-- the translator output has the shape the lemmas are proved for (a changed operator, bound,
default, `endswith` entry or exception class makes this — and so every theorem below — fail) -/
theorem spec_shape : StdShape spec := by
  unfold StdShape spec stdStrip; decide

/-- the `endswith` chain found in the source computes exactly "length without one trailing
`\r\n` or `\n`" (`Model/Text.lineLen`). -/
theorem strip_is_line_terminators (l : Str) : lineLenWith spec.strip l = (lineLen l : Int) :=
  lineLenWith_std l

/-- Closed form of the wrapper: the only outcomes are "call through with the defaulted
position" and `ValueError`; the position is accepted iff `1 ≤ line ≤ len(lines)` and
`0 ≤ column ≤ lineLen (lines[line-1])`. -/
theorem validate_closed_form (ls : List Str) (line col : Option Int) :
    validate spec ls line col =
      (if 1 ≤ line.getD (defaultLine ls) ∧ line.getD (defaultLine ls) ≤ ls.length then
         if 0 ≤ col.getD (lineLen (lineStr ls (line.getD (defaultLine ls))) : Int) ∧
            col.getD (lineLen (lineStr ls (line.getD (defaultLine ls))) : Int)
              ≤ (lineLen (lineStr ls (line.getD (defaultLine ls))) : Int)
         then Outcome.ok (line.getD (defaultLine ls))
           (col.getD (lineLen (lineStr ls (line.getD (defaultLine ls))) : Int))
         else Outcome.raised "ValueError"
       else Outcome.raised "ValueError") :=
  validate_closed_form_of_shape spec spec_shape ls line col

/-- `validate_total`: there is no third outcome — never an `IndexError` from the wrapper's own
`lines[line - 1]`, never another exception class; for every list of lines (even the empty
list), every `line`, every `column`, `None` included. -/
theorem validate_total (ls : List Str) (line col : Option Int) :
    (∃ l c, validate spec ls line col = .ok l c) ∨ validate spec ls line col = .raised "ValueError" := by
  rw [validate_closed_form]
  split
  · split
    · exact Or.inl ⟨_, _, rfl⟩
    · exact Or.inr rfl
  · exact Or.inr rfl

/-- `validate_ok_iff`: accepted exactly inside the text, and the wrapped function receives
the defaulted position. -/
theorem validate_ok_iff (ls : List Str) (line col : Option Int) (l c : Int) :
    validate spec ls line col = .ok l c ↔
      l = line.getD (defaultLine ls) ∧ 1 ≤ l ∧ l ≤ ls.length ∧
      c = col.getD (lineLen (lineStr ls l) : Int) ∧ 0 ≤ c ∧ c ≤ (lineLen (lineStr ls l) : Int) := by
  rw [validate_closed_form]
  constructor
  · intro h
    split at h
    · next hg =>
      split at h
      · next hc =>
        simp only [Outcome.ok.injEq] at h
        obtain ⟨rfl, rfl⟩ := h
        exact ⟨rfl, hg.1, hg.2, rfl, hc.1, hc.2⟩
      · simp at h
    · simp at h
  · rintro ⟨rfl, h1, h2, rfl, h3, h4⟩
    simp [h1, h2, h3, h4]

/-- out of range ⇒ `ValueError` (and nothing else) -/
theorem validate_out_of_range (ls : List Str) (line col : Option Int)
    (h : ¬ ∃ l c, validate spec ls line col = .ok l c) :
    validate spec ls line col = .raised "ValueError" := by
  rcases validate_total ls line col with h' | h'
  · exact absurd h' h
  · exact h'

/-- `validate_default_ok`: "no position" is a valid position for every text: the end of the
last line. -/
theorem validate_default_ok (s : Str) :
    validate spec (splitLines s) none none =
      .ok (splitLines s).length (lineLen (lastL (splitLines s))) := by
  have hpos := splitLines_length_pos s
  have hne := splitLines_ne_nil s
  rw [validate_ok_iff]
  have hd : defaultLine (splitLines s) = (splitLines s).length := by
    unfold defaultLine; omega
  have hls : lineStr (splitLines s) ((splitLines s).length : Int) = lastL (splitLines s) := by
    unfold lineStr lastL
    have : ((splitLines s).length : Int) - 1 = ((splitLines s).length - 1 : Nat) := by omega
    rw [this, Int.toNat_natCast, List.getLast?_eq_getElem?]
  refine ⟨by simp [hd], by omega, by omega, by simp [hls], by omega, by simp [hls]⟩

/-- a line alone is enough: the column default is valid on every existing line -/
theorem validate_default_column_ok (ls : List Str) (line : Int) (h : 1 ≤ line ∧ line ≤ ls.length) :
    validate spec ls (some line) none = .ok line (lineLen (lineStr ls line)) := by
  rw [validate_ok_iff]
  exact ⟨rfl, h.1, h.2, rfl, by omega, by omega⟩

/-- `validate_then_index_safe`: an accepted position indexes the lines and the line: the
wrapper's and the query methods' own `lines[line - 1][:column]` cannot raise, and the
position denotes a place of the text (`textFrom` is defined there). -/
theorem validate_then_index_safe (ls : List Str) (line col : Option Int) (l c : Int)
    (h : validate spec ls line col = .ok l c) :
    ∃ str, lineAt ls l.toNat = some str ∧ pyIndex ls (l - 1) = some str ∧
      0 ≤ c ∧ c.toNat ≤ str.length ∧ (textFrom ls ⟨l.toNat, c.toNat⟩).isSome := by
  rw [validate_ok_iff] at h
  obtain ⟨_, h1, h2, _, h3, h4⟩ := h
  have hlt : (l - 1).toNat < ls.length := by omega
  have hget : ls[(l - 1).toNat]? = some ls[(l - 1).toNat] := List.getElem?_eq_getElem hlt
  have hstr : lineStr ls l = ls[(l - 1).toNat] := by simp only [lineStr, hget, Option.getD_some]
  have hle := lineLen_le_length (lineStr ls l)
  refine ⟨ls[(l - 1).toNat], ?_, ?_, h3, ?_, ?_⟩
  · unfold lineAt
    have : l.toNat ≠ 0 := by omega
    have e : l.toNat - 1 = (l - 1).toNat := by omega
    simp only [this, if_false, e, hget]
  · rw [pyIndex_nonneg _ _ (by omega)]; exact hget
  · rw [← hstr]; omega
  · unfold textFrom lineAt
    have : l.toNat ≠ 0 := by omega
    have e : l.toNat - 1 = (l - 1).toNat := by omega
    have hc : c.toNat ≤ (ls[(l - 1).toNat]).length := by rw [← hstr]; omega
    simp only [this, if_false, e, hget, hc, if_true, Option.isSome_some]

/-- every public `Script` method that takes `(line, column)` either carries the decorator or
only hands the position on to methods that carry it -/
theorem position_methods_guarded :
    ∀ m ∈ C01.positionMethods,
      m.2.1 = true ∨ (m.2.2.1 = 0 ∧ m.2.2.2 ≠ [] ∧
        ∀ t ∈ m.2.2.2, ∃ m' ∈ C01.positionMethods, m'.1 = t ∧ m'.2.1 = true) := by
  decide

/-- the query methods of the property statement that take a position are in that table -/
theorem query_methods_in_table :
    ∀ n ∈ ["complete", "infer", "goto", "help", "get_references", "get_signatures", "get_context"],
      ∃ m ∈ C01.positionMethods, m.1 = n ∧ m.2.1 = true := by
  decide

/-! non-vacuity -/
example : validate spec (splitLines "ab\r\ncd".toList) (some 1) (some 2) = .ok 1 2 := by decide
example : validate spec (splitLines "ab\r\ncd".toList) (some 1) (some 3) = .raised "ValueError" := by decide
example : validate spec (splitLines "ab\r\ncd".toList) none none = .ok 2 2 := by decide
example : validate spec [] none none = .raised "ValueError" := by decide

end JediModel.Props.C01

import JediModel.Lemmas.Validate
import JediModel.Lemmas.ValidateSpec
import JediModel.Model.ApiHelpers
import JediModel.Lemmas.IterArgs
import JediModel.Lemmas.IterArgsSpec
import JediModel.Lemmas.SortKey
import JediModel.Lemmas.ErrStart
/-! C01 — the position contract of the query API: `validate_line_column`, stated over the
constants the translator reads from `jedi/api/helpers.py` / `jedi/api/__init__.py`. -/
namespace JediModel.Props.C01
open JediModel.Text JediModel.Validate JediModel.ApiHelpers
open JediModel.Gen

/-- the wrapper as written in the working tree -/
abbrev spec : Spec := sourceSpec

/-- the translator output has the shape the lemmas are proved for (a changed operator, bound,
default, `endswith` entry or exception class makes this — and so every theorem below — fail) -/
theorem spec_shape : StdShape spec := by
  exact ⟨rfl, rfl, rfl, rfl, rfl, rfl, rfl, rfl, rfl, rfl, rfl⟩

/-- the `endswith` chain found in the source computes exactly "length without one trailing
`\r\n` or `\n`" (`Model/Text.lineLen`). -/
theorem strip_is_line_terminators (l : Str) : lineLenWith spec.strip l = (lineLen l : Int) :=
  lineLenWith_std l

/-- Closed form of the wrapper: the only outcomes are "call through with the defaulted
position" and `ValueError`; the position is accepted iff `1 ≤ line ≤ len(lines)` and
`0 ≤ column ≤ lineLen (lines[line-1])`. -/
theorem validate_closed_form (ls : List Str) (line col : Option Int) :
    validate spec ls line col =
      (if 1 ≤ line.getD (defaultLine ls) ∧ line.getD (defaultLine ls) ≤ ls.length then
         if 0 ≤ col.getD (lineLen (lineStr ls (line.getD (defaultLine ls))) : Int) ∧
            col.getD (lineLen (lineStr ls (line.getD (defaultLine ls))) : Int)
              ≤ (lineLen (lineStr ls (line.getD (defaultLine ls))) : Int)
         then Outcome.ok (line.getD (defaultLine ls))
           (col.getD (lineLen (lineStr ls (line.getD (defaultLine ls))) : Int))
         else Outcome.raised "ValueError"
       else Outcome.raised "ValueError") :=
  validate_closed_form_of_shape spec spec_shape ls line col

/-- `validate_total`: there is no third outcome — never an `IndexError` from the wrapper's own
`lines[line - 1]`, never another exception class; for every list of lines (even the empty
list), every `line`, every `column`, `None` included. -/
theorem validate_total (ls : List Str) (line col : Option Int) :
    (∃ l c, validate spec ls line col = .ok l c) ∨ validate spec ls line col = .raised "ValueError" := by
  rw [validate_closed_form]
  split
  · split
    · exact Or.inl ⟨_, _, rfl⟩
    · exact Or.inr rfl
  · exact Or.inr rfl

/-- `validate_ok_iff`: accepted exactly inside the text, and the wrapped function receives
the defaulted position. -/
theorem validate_ok_iff (ls : List Str) (line col : Option Int) (l c : Int) :
    validate spec ls line col = .ok l c ↔
      l = line.getD (defaultLine ls) ∧ 1 ≤ l ∧ l ≤ ls.length ∧
      c = col.getD (lineLen (lineStr ls l) : Int) ∧ 0 ≤ c ∧ c ≤ (lineLen (lineStr ls l) : Int) := by
  rw [validate_closed_form]
  constructor
  · intro h
    split at h
    · next hg =>
      split at h
      · next hc =>
        simp only [Outcome.ok.injEq] at h
        obtain ⟨rfl, rfl⟩ := h
        exact ⟨rfl, hg.1, hg.2, rfl, hc.1, hc.2⟩
      · simp at h
    · simp at h
  · rintro ⟨rfl, h1, h2, rfl, h3, h4⟩
    simp [h1, h2, h3, h4]

/-- out of range ⇒ `ValueError` (and nothing else) -/
theorem validate_out_of_range (ls : List Str) (line col : Option Int)
    (h : ¬ ∃ l c, validate spec ls line col = .ok l c) :
    validate spec ls line col = .raised "ValueError" := by
  rcases validate_total ls line col with h' | h'
  · exact absurd h' h
  · exact h'

/-- `validate_default_ok`: "no position" is a valid position for every text: the end of the
last line. -/
theorem validate_default_ok (s : Str) :
    validate spec (splitLines s) none none =
      .ok (splitLines s).length (lineLen (lastL (splitLines s))) := by
  have hpos := splitLines_length_pos s
  have hne := splitLines_ne_nil s
  rw [validate_ok_iff]
  have hd : defaultLine (splitLines s) = (splitLines s).length := by
    unfold defaultLine; omega
  have hls : lineStr (splitLines s) ((splitLines s).length : Int) = lastL (splitLines s) := by
    unfold lineStr lastL
    have : ((splitLines s).length : Int) - 1 = ((splitLines s).length - 1 : Nat) := by omega
    rw [this, Int.toNat_natCast, List.getLast?_eq_getElem?]
  refine ⟨by simp [hd], by omega, by omega, by simp [hls], by omega, by simp [hls]⟩

/-- a line alone is enough: the column default is valid on every existing line -/
theorem validate_default_column_ok (ls : List Str) (line : Int) (h : 1 ≤ line ∧ line ≤ ls.length) :
    validate spec ls (some line) none = .ok line (lineLen (lineStr ls line)) := by
  rw [validate_ok_iff]
  exact ⟨rfl, h.1, h.2, rfl, by omega, by omega⟩

/-- `validate_then_index_safe`: an accepted position indexes the lines and the line: the
wrapper's and the query methods' own `lines[line - 1][:column]` cannot raise, and the
position denotes a place of the text (`textFrom` is defined there). -/
theorem validate_then_index_safe (ls : List Str) (line col : Option Int) (l c : Int)
    (h : validate spec ls line col = .ok l c) :
    ∃ str, lineAt ls l.toNat = some str ∧ pyIndex ls (l - 1) = some str ∧
      0 ≤ c ∧ c.toNat ≤ str.length ∧ (textFrom ls ⟨l.toNat, c.toNat⟩).isSome := by
  rw [validate_ok_iff] at h
  obtain ⟨_, h1, h2, _, h3, h4⟩ := h
  have hlt : (l - 1).toNat < ls.length := by omega
  have hget : ls[(l - 1).toNat]? = some ls[(l - 1).toNat] := List.getElem?_eq_getElem hlt
  have hstr : lineStr ls l = ls[(l - 1).toNat] := by simp only [lineStr, hget, Option.getD_some]
  have hle := lineLen_le_length (lineStr ls l)
  refine ⟨ls[(l - 1).toNat], ?_, ?_, h3, ?_, ?_⟩
  · unfold lineAt
    have : l.toNat ≠ 0 := by omega
    have e : l.toNat - 1 = (l - 1).toNat := by omega
    simp only [this, if_false, e, hget]
  · rw [pyIndex_nonneg _ _ (by omega)]; exact hget
  · rw [← hstr]; omega
  · unfold textFrom lineAt
    have : l.toNat ≠ 0 := by omega
    have e : l.toNat - 1 = (l - 1).toNat := by omega
    have hc : c.toNat ≤ (ls[(l - 1).toNat]).length := by rw [← hstr]; omega
    simp only [this, if_false, e, hget, hc, if_true, Option.isSome_some]

/-- every public `Script` method that takes `(line, column)` either carries the decorator or
only hands the position on to methods that carry it -/
theorem position_methods_guarded :
    ∀ m ∈ C01.positionMethods,
      m.2.1 = true ∨ (m.2.2.1 = 0 ∧ m.2.2.2 ≠ [] ∧
        ∀ t ∈ m.2.2.2, ∃ m' ∈ C01.positionMethods, m'.1 = t ∧ m'.2.1 = true) := by
  decide +kernel

/-- the query methods of the property statement that take a position are in that table -/
theorem query_methods_in_table :
    ∀ n ∈ ["complete", "infer", "goto", "help", "get_references", "get_signatures", "get_context"],
      ∃ m ∈ C01.positionMethods, m.1 = n ∧ m.2.1 = true := by
  decide +kernel

/-! ### pure helpers under the query methods -/

/-- `get_on_completion_name` (regex branch): the match is a suffix of `line[:col]` -/
theorem searchName_suffix (w d : Char → Bool) (s : Str) : ∃ pre, s = pre ++ searchName w d s := by
  induction s with
  | nil => exact ⟨[], rfl⟩
  | cons c rest ih =>
    unfold searchName
    split
    · exact ⟨[], rfl⟩
    · obtain ⟨pre, hp⟩ := ih
      exact ⟨c :: pre, by rw [List.cons_append, ← hp]⟩

/-- … it consists of word characters only and does not begin with a digit -/
theorem searchName_valid (w d : Char → Bool) (s : Str) :
    (searchName w d s).all w = true ∧ (∀ c rest, searchName w d s = c :: rest → d c = false) := by
  induction s with
  | nil => simp [searchName]
  | cons c rest ih =>
    unfold searchName
    split
    · next h =>
      simp only [Bool.and_eq_true, Bool.not_eq_eq_eq_not, Bool.not_true] at h
      refine ⟨h.2, ?_⟩
      intro c' rest' he
      cases he
      exact h.1
    · exact ih

/-- … and it is the longest such suffix (the regex search is leftmost) -/
theorem searchName_longest (w d : Char → Bool) (s pre r : Str) (c : Char) (rest : Str)
    (hs : s = pre ++ r) (hr : r = c :: rest) (hw : r.all w = true) (hd : d c = false) :
    r.length ≤ (searchName w d s).length := by
  induction s generalizing pre with
  | nil =>
    subst hr
    cases pre <;> simp at hs
  | cons x xs ih =>
    unfold searchName
    split
    · have := congrArg List.length hs
      simp at this ⊢
      omega
    · next hn =>
      cases pre with
      | nil =>
        simp only [List.nil_append] at hs
        subst hr
        cases hs
        simp only [Bool.and_eq_true, Bool.not_eq_eq_eq_not, Bool.not_true, not_and] at hn
        exact absurd hw (by simpa using hn hd)
      | cons p pre =>
        simp only [List.cons_append, List.cons.injEq] at hs
        exact ih pre hs.2

/-- the helper's own `lines[position[0] - 1]` cannot raise at a validated position -/
theorem onCompletionName_total (w d : Char → Bool) (ls : List Str) (line col : Option Int) (l c : Int)
    (h : validate spec ls line col = .ok l c) :
    ∃ s, onCompletionName w d ls l c = .ok s := by
  obtain ⟨str, _, hidx, _⟩ := validate_then_index_safe ls line col l c h
  exact ⟨searchName w d (pySliceTo str c), by simp [onCompletionName, hidx]⟩

/-- `_get_code` cannot raise (`lines[-1]` / `lines[0]` of an empty slice) when the start line
exists and is not after the end line -/
theorem getCode_total (ls : List Str) (sl sc el ec : Int) (h1 : 1 ≤ sl) (h2 : sl ≤ el) (h3 : sl ≤ ls.length) :
    ∃ s, getCode ls sl sc el ec = .ok s := by
  unfold getCode
  have hlen : 0 < (pySlice ls (sl - 1) el).length := by
    unfold pySlice clampIdx
    have a1 : ¬ (sl - 1 < 0) := by omega
    have a2 : ¬ (el < 0) := by omega
    simp only [a1, a2, if_false, List.length_drop, List.length_take]
    omega
  have hne : pySlice ls (sl - 1) el ≠ [] := List.length_pos_iff.mp hlen
  simp only
  rw [List.getLast?_eq_some_getLast hne]
  simp only
  generalize hx : (pySlice ls (sl - 1) el).dropLast ++ [pySliceTo ((pySlice ls (sl - 1) el).getLast hne) ec] = lines1
  cases lines1 with
  | nil => simp at hx
  | cons a t => exact ⟨_, rfl⟩

/-- `cut_value_at_position` has no failing path at all (it is a total function in the model) and
always returns a prefix of the leaf's value -/
theorem cutValue_prefix (value : Str) (ll lc pl pc : Int) : cutValue value ll lc pl pc <+: value := by
  unfold cutValue
  simp only
  generalize hls : pySliceTo (splitLines value) (pl - ll + 1) = lines
  have hpre : lines <+: splitLines value := by
    rw [← hls]; unfold pySliceTo; exact List.take_prefix _ _
  cases hl : lines.getLast? with
  | none => exact List.nil_prefix
  | some last =>
    simp only
    have hne : lines ≠ [] := by
      intro h0; simp [h0] at hl
    have hdl : lines = lines.dropLast ++ [last] := by
      have := List.dropLast_concat_getLast hne
      rw [List.getLast?_eq_some_getLast hne] at hl
      cases hl
      exact this.symm
    have h1 : (lines.dropLast ++ [pySliceTo last (if ll = pl then pc - lc else pc)]).flatten
        <+: lines.flatten := by
      conv => rhs; rw [hdl]
      simp only [List.flatten_append, List.flatten_cons, List.flatten_nil, List.append_nil]
      exact (List.prefix_append_right_inj _).mpr (List.take_prefix _ _)
    obtain ⟨rest, hrest⟩ := hpre
    have h2 : lines.flatten <+: value := by
      have := join_splitLines value
      rw [← hrest, List.flatten_append] at this
      exact ⟨_, this⟩
    exact h1.trans h2

/-! ## the argument scan behind `Signature.index` and keyword completion

`helpers._iter_arguments` walks whatever stands between the opening bracket of the call and the
cursor — half-typed code — and reads `.value` of nodes at seven places.  A parso `BaseNode` has
no such attribute.  The translator lists every read with the tests that dominate it
(`Gen.C01.iaReads`); the model (`Model/IterArgs`) raises `AttributeError` exactly where an
unprotected read meets a non-leaf. -/

section IterArgs
open JediModel.IterArgs

/-- every `.value` read of `_iter_arguments` in the working tree is dominated by a test on the
same object that only a leaf passes (`x.type == 'name'`, `isinstance(x, tree.PythonLeaf)`,
`x == '<str>'`, `x in ('<str>', …)`).  Dropping one of the tests makes this fail. -/
theorem iter_arguments_value_reads_guarded :
    ∀ site ∈ [1, 2, 3, 4, 5, 6, 7], siteGuarded JediModel.Gen.C01.iaReads site = true := by decide

/-- so the model instantiated from the source is the fully guarded one -/
theorem iter_arguments_source_guards : sourceGuards = stdGuards := by decide

/-- the `if` tests and `yield` expressions the model transcribes, as they stand in the source -/
theorem gen_iter_arguments_shape :
    JediModel.Gen.C01.iaTests =
      ["nodes_before[-1].type == 'arglist'", "not previous_node_yielded", "name.type != 'name'",
       "node.type == 'argument'", "nodes_before[-1].type == 'name'", "second == '='",
       "node.type == 'testlist_star_expr'",
       "second.start_pos < position and first.type == 'name'", "first in ('*', '**')",
       "isinstance(node, tree.PythonLeaf) and node.value == ','",
       "first_leaf.type == 'name' and first_leaf.start_pos >= position", "n.type == 'star_expr'",
       "not previous_node_yielded",
       "isinstance(node, tree.PythonLeaf) and node.value in ('*', '**')",
       "node == '=' and nodes_before[-1]", "before.type == 'name'"] ∧
    JediModel.Gen.C01.iaYields =
      ["_iter_arguments(nodes_before[-1].children, position)",
       "(stars_seen, remove_after_pos(nodes_before[-1]), False)", "(stars_seen, '', False)",
       "(0, first.value, True)", "(0, remove_after_pos(first), False)",
       "(len(first.value), remove_after_pos(second), False)",
       "(stars_seen, remove_after_pos(n), False)", "(0, remove_after_pos(first_leaf), False)",
       "(0, None, False)", "(stars_seen, '', False)", "(0, before.value, True)",
       "(0, None, False)"] := ⟨rfl, rfl⟩

/-- `iterArguments_total`: the scan as written in the source never raises — no `AttributeError`
from a `.value`, no `IndexError` from `children[k]` / `nodes_before[-1]` — on EVERY list of
well-formed parso nodes (`WF`: leaves have a value; inner nodes are not `name`s, have a first
child at their own position; `argument` / `star_expr` have two children) one of which starts
before the cursor, whatever the node types, values, nesting and cursor are.  `depthList nodes + 1`
is fuel enough for the recursion into the last `arglist`. -/
theorem iterArguments_total (pos : IterArgs.Pos) (nodes : List Node) (hwf : ∀ n ∈ nodes, WF n)
    (hex : ∃ n ∈ nodes, n.start.lt pos = true) :
    ∃ ts, iterArguments sourceGuards pos (depthList nodes + 1) nodes = .ok ts := by
  rw [iter_arguments_source_guards]
  exact iterArguments_std_total pos _ nodes (Nat.lt_succ_self _) hwf hex

/-- more fuel changes nothing: any bound above the depth works -/
theorem iterArguments_total_fuel (pos : IterArgs.Pos) (fuel : Nat) (nodes : List Node)
    (hd : depthList nodes < fuel) (hwf : ∀ n ∈ nodes, WF n)
    (hex : ∃ n ∈ nodes, n.start.lt pos = true) :
    ∃ ts, iterArguments sourceGuards pos fuel nodes = .ok ts := by
  rw [iter_arguments_source_guards]
  exact iterArguments_std_total pos fuel nodes hd hwf hex

/-- the nodes of `f(a.x =` with the cursor at the end, as `get_signature_details` hands them
over: `(`, the `atom_expr` `a.x`, the operator `=` -/
def typedEqAfterAttribute : List Node :=
  [ .mk ['o', 'p', 'e', 'r', 'a', 't', 'o', 'r'] (some ['(']) true true (1, 1) [],
    .mk ['a', 't', 'o', 'm', '_', 'e', 'x', 'p', 'r'] none false false (1, 2)
      [ .mk sName (some ['a']) false true (1, 2) [],
        .mk ['t', 'r', 'a', 'i', 'l', 'e', 'r'] none false false (1, 3)
          [ .mk ['o', 'p', 'e', 'r', 'a', 't', 'o', 'r'] (some ['.']) true true (1, 3) [],
            .mk sName (some ['x']) false true (1, 4) [] ] ],
    .mk ['o', 'p', 'e', 'r', 'a', 't', 'o', 'r'] (some ['=']) true true (1, 6) [] ]

/-- the guard in front of `before.value` is necessary: without it the scan of `f(a.x =` raises
`AttributeError` (kernel-checked); with it the answer is `(0, None, False)` -/
theorem iterArguments_unguarded_eq_raises :
    iterArguments { stdGuards with eqBefore := false } (1, 7) 4 typedEqAfterAttribute
      = .error .attributeError ∧
    iterArguments sourceGuards (1, 7) 4 typedEqAfterAttribute = .ok [⟨0, none, false⟩] := by
  exact ⟨rfl, rfl⟩

/-- hypotheses of `iterArguments_total` are satisfiable by that input -/
example : (∀ n ∈ typedEqAfterAttribute, WF n) ∧ ∃ n ∈ typedEqAfterAttribute, n.start.lt (1, 7) = true := by
  refine ⟨?_, ⟨_, List.mem_cons_self, by decide⟩⟩
  intro n hn
  simp only [typedEqAfterAttribute, List.mem_cons, List.mem_nil_iff, or_false] at hn
  rcases hn with rfl | rfl | rfl
  · exact WF.leaf _ _ _ _ _ (by decide)
  · refine WF.node _ _ _ _ (by decide) rfl ?_ (by decide)
    intro x hx
    simp only [List.mem_cons, List.mem_nil_iff, or_false] at hx
    rcases hx with rfl | rfl
    · exact WF.leaf _ _ _ _ _ (by decide)
    · refine WF.node _ _ _ _ (by decide) rfl ?_ (by decide)
      intro y hy
      simp only [List.mem_cons, List.mem_nil_iff, or_false] at hy
      rcases hy with rfl | rfl <;> exact WF.leaf _ _ _ _ _ (by decide)
  · exact WF.leaf _ _ _ _ _ (by decide)

end IterArgs

/-! ## where does the statement of a name inside an error node start?

`imports.follow_error_node_imports_if_possible` runs for every non-definition name that
`infer` / `goto` / `help` / `get_references` (and `Name.goto` / `Name.infer`) meet.  For a name
inside a parso `error_node` it scans the children of that node for `;` leaves in front of the
name and then reads `nodes[0]` of `children[start_index:]` — `IndexError` if the slice is empty. -/
section ErrStart
open JediModel.ErrStart (Child firstNode startIndex scan)

/-- the loop the translator found in the source is the modelled one: `start_index = 0`, break on
`n.start_pos > name.start_pos` in front of `if n == ';': start_index = index + 1`, then
`nodes = error_node.children[start_index:]` and `nodes[0].get_first_leaf().value`.  Another
operator, bound, order, offset or separator makes this, and so the build, fail. -/
theorem error_node_start_shape :
    ErrStart.sourceSpec = ErrStart.stdSpec ∧ JediModel.Gen.C01.esSeparator = ";" ∧
    JediModel.Gen.C01.esUse = ["nodes = error_node.children[start_index:]",
                               "first_name = nodes[0].get_first_leaf().value"] := by decide

/-- `stmt_start_total`: with the loop of the working tree `nodes[0]` exists — no `IndexError`
leaves `follow_error_node_imports_if_possible` — for EVERY list of children (any number, any
positions, any of them `;`) and every name that lies in a child `k` which is not itself a `;`
leaf and behind which every further child starts after the name (children of a parso node are
in text order).  Nothing is asked of the children in front of `k`, of the end of the name or of
what follows the last `;`.  The statement found starts at or in front of the child of the name. -/
theorem stmt_start_total (children : List Child) (nameStart nameEnd : ErrStart.Pos) (k : Nat)
    (hk : k < children.length)
    (hsemi : ∀ c, children[k]? = some c → c.semi = false)
    (hafter : ∀ i c, k < i → children[i]? = some c → nameStart.lt c.start = true) :
    ∃ s, firstNode ErrStart.sourceSpec children nameStart nameEnd = .ok s ∧ s ≤ k := by
  rw [error_node_start_shape.1]
  have h := ErrStart.scan_std_le nameStart children 0 0 k (by omega) hk hsemi hafter
  refine ⟨startIndex ErrStart.stdSpec children nameStart nameEnd, ?_, ?_⟩
  · unfold firstNode
    have : startIndex ErrStart.stdSpec children nameStart nameEnd < children.length := by
      unfold startIndex; simp only [ErrStart.stdSpec] at h ⊢; simp; omega
    simp [this]
  · unfold startIndex; simp only [ErrStart.stdSpec] at h ⊢; simp; omega

/-- the slice `children[start_index:]` itself never starts behind the end of the list by more
than nothing: `start_index ≤ len(children)`, for every list and every name -/
theorem stmt_start_le_length (children : List Child) (nameStart nameEnd : ErrStart.Pos) :
    startIndex ErrStart.sourceSpec children nameStart nameEnd ≤ children.length := by
  rw [error_node_start_shape.1]
  have h := ErrStart.scan_std_le_length nameStart children 0 0 (Nat.le_refl 0)
  unfold startIndex; simp only [ErrStart.stdSpec] at h ⊢; simp; omega

/-- the error node of `a = 1; b = a;;` as parso builds it: `a = 1`, `;`, `b = a`, `;` (the
second `;` of the pair is an error leaf outside the node) -/
def doubledSemicolon : List Child :=
  [⟨(1, 0), false⟩, ⟨(1, 5), true⟩, ⟨(1, 7), false⟩, ⟨(1, 12), true⟩]

/-- the boundary matters: the `a` of `b = a` ends where the last `;` starts.  Comparing with
`name.end_pos` instead of `name.start_pos` counts that `;` as standing in front of the name: the
slice is empty, `nodes[0]` raises `IndexError` (kernel-checked).  The loop of the working tree
answers "the statement starts at child 2". -/
theorem stmt_start_end_pos_raises :
    firstNode { ErrStart.stdSpec with nameEnd := true } doubledSemicolon (1, 11) (1, 12)
      = .error .indexError ∧
    firstNode ErrStart.sourceSpec doubledSemicolon (1, 11) (1, 12) = .ok 2 := ⟨rfl, rfl⟩

/-- the order of the two tests matters as well: with the `;` test in front of the break test the
`;` BEHIND the name is counted before the loop stops -/
theorem stmt_start_separator_first_raises :
    firstNode { ErrStart.stdSpec with breakFirst := false } doubledSemicolon (1, 11) (1, 12)
      = .error .indexError := rfl

/-- and the hypothesis of `stmt_start_total` cannot be dropped: a list whose children are not in
text order behind the name (no parso tree looks like this) makes the loop of the working tree
raise -/
theorem stmt_start_needs_tree_order :
    firstNode ErrStart.sourceSpec [⟨(1, 4), false⟩, ⟨(1, 0), true⟩] (1, 4) (1, 5)
      = .error .indexError := rfl

/-- hypotheses of `stmt_start_total` are satisfiable by the doubled semicolon (name in child 2) -/
example : (2 < doubledSemicolon.length) ∧
    (∀ c, doubledSemicolon[2]? = some c → c.semi = false) ∧
    (∀ i c, 2 < i → doubledSemicolon[i]? = some c → ErrStart.Pos.lt (1, 11) c.start = true) := by
  refine ⟨by decide, ?_, ?_⟩
  · intro c h; simp [doubledSemicolon] at h; subst h; rfl
  · intro i c hi h
    match i, hi with
    | 3, _ => simp [doubledSemicolon] at h; subst h; decide
    | i + 4, _ => simp [doubledSemicolon] at h

end ErrStart

/-! non-vacuity -/
example : validate spec (splitLines ['a', 'b', '\r', '\n', 'c', 'd']) (some 1) (some 2) = .ok 1 2 := by decide
example : validate spec (splitLines ['a', 'b', '\r', '\n', 'c', 'd']) (some 1) (some 3) = .raised "ValueError" := by decide
example : validate spec (splitLines ['a', 'b', '\r', '\n', 'c', 'd']) none none = .ok 2 2 := by decide
example : validate spec [] none none = .raised "ValueError" := by decide

/-! ### the last step of `infer` / `goto` / `help` / `get_references`: `helpers.sorted_definitions`

Results may mix definitions that have a position with definitions that have none (compiled
modules and their members, namespace packages, keywords: `line == column == None`); for a Script
without path both kinds have `module_path` None as well, so the comparison of two keys reaches
the position components. -/
section SortKey
open JediModel.SortKey

/-- the key tuple the translator found in `sorted_definitions` is the modelled one:
`(str(x.module_path or ''), x.line or 0, x.column or 0, x.name, x._name.api_type)`.  Dropping an
`or <int>` (or any other change of a component) makes this, and so the build, fail. -/
theorem sorted_definitions_key_shape : SortKey.sourceSpec = some (stdSpecN (some 0) (some 0)) := by decide

/-- with the key of the working tree any two definitions can be compared -- whatever of
module_path / line / column is None: `sorted` cannot raise on any result list -/
theorem sorted_definitions_key_total (spec : KeySpec) (h : SortKey.sourceSpec = some spec) (a b : Defn) :
    comparable spec a b = true := by
  rw [sorted_definitions_key_shape] at h
  cases h
  exact comparable_of_defaults 0 0 a b

/-- the comparison of keys is total on every mixed list iff BOTH missing positions are mapped
to a number -/
theorem sort_key_total_iff (dl dc : Option Nat) :
    (∀ a b : Defn, comparable (stdSpecN dl dc) a b = true) ↔ (dl.isSome = true ∧ dc.isSome = true) := by
  constructor
  · intro h
    cases dl with
    | none =>
      have := h (withPos 1 0) noPos
      rw [not_comparable_without_line_default] at this
      cases this
    | some kl =>
      cases dc with
      | none =>
        have := h (withPos kl 1) noPos
        rw [not_comparable_without_column_default] at this
        cases this
      | some kc => exact ⟨rfl, rfl⟩
  · intro ⟨h1, h2⟩
    cases dl with
    | none => cases h1
    | some kl =>
      cases dc with
      | none => cases h2
      | some kc => exact comparable_of_defaults kl kc

instance : DecidableEq (Except Err Bool)
  | .ok a, .ok b => if h : a = b then isTrue (by rw [h]) else isFalse (by intro e; cases e; exact h rfl)
  | .error a, .error b => if h : a = b then isTrue (by rw [h]) else isFalse (by intro e; cases e; exact h rfl)
  | .ok _, .error _ => isFalse (by intro e; cases e)
  | .error _, .ok _ => isFalse (by intro e; cases e)

/-- without the defaults, comparing a function of a path-less script (line 2, column 4) with
the compiled module `sys` (no position) raises: `int < None` -/
theorem sort_key_some_vs_none_raises :
    tupleLt (keyOf (stdSpecN none none) (withPos 2 4)) (keyOf (stdSpecN none none) noPos) = .error .typeError := by
  decide

/-- ... and so does `None < int` -/
theorem sort_key_none_vs_some_raises :
    tupleLt (keyOf (stdSpecN none none) noPos) (keyOf (stdSpecN none none) (withPos 2 4)) = .error .typeError := by
  decide

example : comparable (stdSpecN (some 0) (some 0)) (withPos 2 4) noPos = true := by decide
example : noPos.line = none ∧ noPos.column = none := ⟨rfl, rfl⟩
example : ∃ spec, SortKey.sourceSpec = some spec := ⟨_, sorted_definitions_key_shape⟩

end SortKey

end JediModel.Props.C01

import JediModel.Model.WalkSrc
import JediModel.Lemmas.Walk
import JediModel.Lemmas.WalkPath
import JediModel.Lemmas.WalkTree
import JediModel.Lemmas.WalkNodup
import JediModel.Lemmas.Search
import JediModel.Lemmas.Prefilter
/-! # C19 — Project search finds every definition and honours ignore rules

Property theorems only.  `srcCfg` is the configuration the translator read from
`jedi/inference/references.py` (ignore tuple, suffixes, folder-filter conjuncts), so the statements
below are about the source as it is now.  The listing order of `os.walk` is the order of the lists
inside the tree: every theorem quantifies over all trees, hence over all listing orders. -/
namespace JediModel.Props.C19
open JediModel.Walk JediModel.Search

/-! ## FolderIO.walk: pruning is exactly what the consumer chose -/

/-- if the consumer leaves a sub-list of the yielded folder objects, after the loop `dirs` holds
exactly the directories whose object was kept, in listing order -/
theorem walk_sync {α} (dirs : List α) (m : List Nat) (h : m.Sublist (List.range dirs.length)) :
    sync dirs m =
      ((List.zip (List.range dirs.length) dirs).filter (fun p => decide (p.1 ∈ m))).map Prod.snd :=
  sync_sublist dirs m h

/-- the consumer in `recurse_find_python_folders_and_files` filters with a predicate on the index:
`os.walk` then descends into exactly the directories that pass (this is what `walkForest` uses) -/
theorem walk_sync_filter {α} (dirs : List α) (keep : Nat → Bool) :
    sync dirs ((List.range dirs.length).filter keep) =
      ((List.zip (List.range dirs.length) dirs).filter (fun p => keep p.1)).map Prod.snd := by
  rw [walk_sync _ _ List.filter_sublist]
  congr 1
  apply List.filter_congr
  intro p hp
  have : p.1 ∈ List.range dirs.length := by
    have := List.of_mem_zip hp
    exact this.1
  simp [List.mem_filter, this]

example : sync ["a", "venv", "b"] [0, 2] = ["a", "b"] := by decide

/-! ## the ignore tuple -/

/-- the five names the property lists are in `_IGNORE_FOLDERS` (build-time obligation on the source) -/
theorem ignore_folders_cover :
    ∀ n ∈ [".tox", ".venv", ".mypy_cache", "venv", "__pycache__"], n ∈ JediModel.Gen.C19.ignoreFolders := by
  decide

/-- the folder filter found in the source has the three conjuncts the model knows, so none of the
three tests is skipped -/
theorem folder_filter_conjuncts :
    "not_in_except_paths" ∈ srcCfg.conjuncts ∧ "not_in_relative_expanded" ∈ srcCfg.conjuncts ∧
    "base_name_not_ignored" ∈ srcCfg.conjuncts := by
  decide

/-- the file filter found in the source has the two conjuncts the model knows -/
theorem file_filter_conjuncts :
    "not_in_except_paths" ∈ srcCfg.fileConjuncts ∧ "not_in_relative_expanded" ∈ srcCfg.fileConjuncts := by
  decide

/-! ## nothing is yielded from a pruned place -/

/-- the state after the first `for file_io in file_ios` loop of the top directory: every
`.gitignore` entry of the project root has been read -/
abbrev rootState (cfg : Cfg) (root : Str) (st : St) (files : List FileEnt) : St :=
  readGitignores cfg root st files

/-- soundness of the walk: every event below the top directory is reached through directories
that all pass the folder filter of the state `rootState` (initial `except_paths` plus the root's
`.gitignore`), and a file event is a `.py/.pyi` file of such a directory that passes the file
filter. -/
theorem walk_sound (cfg : Cfg) (root : Str) (st : St) (files : List FileEnt) (children : Forest) :
    ∀ ev ∈ (walkRoot cfg root st files children).1,
      (ev.anc = [] ∧ ∃ f ∈ files, isPy cfg f.name = true ∧
          fileOk cfg root (rootState cfg root st files) f.name = true ∧
          ev = ⟨true, osJoin root f.name, f.name, []⟩) ∨
      Sound cfg (rootState cfg root st files) root [] children ev := by
  intro ev h
  simp only [walkRoot, List.mem_append] at h
  rcases h with (h | h) | h
  · obtain ⟨f, hf, hpy, hok, rfl⟩ := (mem_fileEvents _ _ _ _ _ _).mp h
    exact .inl ⟨rfl, f, hf, hpy, hok, rfl⟩
  · obtain ⟨hff, fs, c, hr⟩ := reach_of_folderEvents _ _ _ _ _ _ h
    exact .inr ⟨fun hc => (by rw [hff] at hc; cases hc), fun _ => ⟨fs, c, hr⟩⟩
  · exact .inr (walkForest_sound cfg _ root [] _ _ children (St.le_refl _) (St.le_refl _) ev h)

/-- every directory on the way to an event passed the folder filter -/
theorem anc_kept (cfg : Cfg) (root : Str) (st : St) (files : List FileEnt) (children : Forest) :
    ∀ ev ∈ (walkRoot cfg root st files children).1, ∀ x ∈ ev.anc,
      keepDir cfg x.parent (rootState cfg root st files) x.name = true := by
  intro ev h x hx
  rcases walk_sound cfg root st files children ev h with ⟨hnil, _⟩ | hs
  · rw [hnil] at hx; cases hx
  · cases hf : ev.isFile with
    | true =>
      obtain ⟨p, fs, c, hr, _⟩ := hs.1 hf
      rcases hr.anc_kd x hx with h | h
      · cases h
      · exact h
    | false =>
      obtain ⟨fs, c, hr⟩ := hs.2 hf
      rcases hr.anc_kd x hx with h | h
      · cases h
      · exact h

/-- **no_file_under_pruned (ignore tuple)**: nothing is yielded at or below a folder named in
`_IGNORE_FOLDERS`, at any depth, for every tree, listing order and `.gitignore` content -/
theorem no_event_under_ignored_folder (root : Str) (st : St) (files : List FileEnt) (children : Forest) :
    ∀ ev ∈ (walkRoot srcCfg root st files children).1, ∀ x ∈ ev.anc, x.name ∉ srcCfg.ignoreFolders := by
  intro ev h x hx
  have hk := anc_kept srcCfg root st files children ev h x hx
  simp only [keepDir, List.all_eq_true] at hk
  have := hk "base_name_not_ignored" folder_filter_conjuncts.2.2
  simpa [conjunct] using this

/-- in particular: nothing under `venv`, `.venv`, `.tox`, `.mypy_cache`, `__pycache__` -/
theorem no_event_under_property_folders (root : Str) (st : St) (files : List FileEnt) (children : Forest) :
    ∀ ev ∈ (walkRoot srcCfg root st files children).1, ∀ x ∈ ev.anc,
      x.name ∉ [".tox", ".venv", ".mypy_cache", "venv", "__pycache__"].map String.toList := by
  intro ev h x hx hmem
  apply no_event_under_ignored_folder root st files children ev h x hx
  simp only [List.mem_map] at hmem
  obtain ⟨n, hn, heq⟩ := hmem
  rw [← heq]
  exact List.mem_map_of_mem (ignore_folders_cover n hn)

/-- the caller's `except_paths` are honoured for folders and files alike (all compared as `str`) -/
theorem no_event_from_except_paths (root : Str) (st : St) (files : List FileEnt) (children : Forest) :
    ∀ ev ∈ (walkRoot srcCfg root st files children).1,
      (∀ x ∈ ev.anc, osJoin x.parent x.name ∉ st.exc) ∧ (ev.isFile = true → ev.path ∉ st.exc) := by
  intro ev h
  obtain ⟨_, h2, h3⟩ := (walkRoot_good srcCfg root st files children ev h).all
  have hle := readGitignores_mono srcCfg root st files
  refine ⟨fun x hx hm => keepDir_exc folder_filter_conjuncts.1 (h2 x hx) (hle.1 hm), fun hf hm => ?_⟩
  obtain ⟨h4, h5⟩ := h3 hf
  rw [h5] at hm
  exact fileOk_exc file_filter_conjuncts.1 h4 (hle.1 hm)

/-! ## FULL: nothing that a `.gitignore` entry names is yielded

The three statements that were false of the code before the fix
"gitignore-file-entries-and-prefix" (then: `witness_relative_file_entry_not_applied`,
`witness_absolute_file_entry_not_applied`, `witness_sibling_prefix_pruned`) are now theorems, for
every tree, every listing order (the position of `.gitignore` in its listing is arbitrary) and
every `.gitignore` content.  `ev.anc = pre ++ x :: post` picks any directory `x` on the way to the
event; `post` are the directories entered below `x`, `x.files` is `x`'s listing. -/

/-- **absolute entries are applied, to folders and files, in any listing order**: an entry with a
slash in a `.gitignore` of the project root, or of any directory `x` on the way to the event, is
the path `os.path.join(folder, entry)`; no directory entered below that folder and no yielded file
has that path. -/
theorem no_event_from_absolute_gitignore_entry (root : Str) (st : St) (files : List FileEnt) (children : Forest) :
    ∀ ev ∈ (walkRoot srcCfg root st files children).1,
      (∀ content, (⟨srcCfg.gitignoreName, content⟩ : FileEnt) ∈ files →
        ∀ a ∈ (gitignoredPaths srcCfg root content).1,
          (∀ y ∈ ev.anc, osJoin y.parent y.name ≠ a) ∧ (ev.isFile = true → ev.path ≠ a)) ∧
      (∀ pre x post, ev.anc = pre ++ x :: post →
        ∀ content, (⟨srcCfg.gitignoreName, content⟩ : FileEnt) ∈ x.files →
        ∀ a ∈ (gitignoredPaths srcCfg (osJoin x.parent x.name) content).1,
          (∀ y ∈ post, osJoin y.parent y.name ≠ a) ∧ (ev.isFile = true → ev.path ≠ a)) := by
  intro ev h
  have hg := walkRoot_good srcCfg root st files children ev h
  refine ⟨fun content hc a ha => ?_, fun pre x post hsplit content hc a ha => ?_⟩
  · obtain ⟨_, h2, h3⟩ := hg.all
    have hin := (gitignore_read srcCfg root st files content hc).1 ha
    refine ⟨fun y hy heq => keepDir_exc folder_filter_conjuncts.1 (h2 y hy) (heq ▸ hin), fun hf heq => ?_⟩
    obtain ⟨h4, h5⟩ := h3 hf
    exact fileOk_exc file_filter_conjuncts.1 h4 (h5 ▸ heq ▸ hin)
  · rw [hsplit] at hg
    obtain ⟨S, _, hS, _, h2, h3⟩ := hg.honours
    have hin := (hS content hc).1 ha
    refine ⟨fun y hy heq => keepDir_exc folder_filter_conjuncts.1 (h2 y hy) (heq ▸ hin), fun hf heq => ?_⟩
    obtain ⟨h4, h5⟩ := h3 hf
    exact fileOk_exc file_filter_conjuncts.1 h4 (h5 ▸ heq ▸ hin)

/-- file and directory names as a file system lists them: not empty, not starting with a slash -/
def NameOk (n : Str) : Prop := n ≠ [] ∧ n.head? ≠ some '/'

/-- **relative entries are applied, to folders and files, at every depth**: an entry `n` without a
slash in a `.gitignore` of the project root, or of any directory `x` on the way to the event,
names every file and directory `n` in or below that folder; no directory entered below it and no
yielded file has that name.  (Hypotheses: the project path is not the empty string and directory
names are non-empty and do not start with a slash.) -/
theorem no_event_from_relative_gitignore_entry (root : Str) (st : St) (files : List FileEnt) (children : Forest)
    (hroot : root ≠ []) :
    ∀ ev ∈ (walkRoot srcCfg root st files children).1, (∀ y ∈ ev.anc, NameOk y.name) →
      (∀ content, (⟨srcCfg.gitignoreName, content⟩ : FileEnt) ∈ files →
        ∀ e ∈ (gitignoredPaths srcCfg root content).2,
          (∀ y ∈ ev.anc, y.name ≠ e.2) ∧ (ev.isFile = true → ev.name ≠ e.2)) ∧
      (∀ pre x post, ev.anc = pre ++ x :: post →
        ∀ content, (⟨srcCfg.gitignoreName, content⟩ : FileEnt) ∈ x.files →
        ∀ e ∈ (gitignoredPaths srcCfg (osJoin x.parent x.name) content).2,
          (∀ y ∈ post, y.name ≠ e.2) ∧ (ev.isFile = true → ev.name ≠ e.2)) := by
  intro ev h hnames
  have hg := walkRoot_good srcCfg root st files children ev h
  refine ⟨fun content hc e he => ?_, fun pre x post hsplit content hc e he => ?_⟩
  · obtain ⟨h1, h2, h3⟩ := hg.all
    have hin := (gitignore_read srcCfg root st files content hc).2 he
    have hfst := gitignoredPaths_rel_fst srcCfg root content e he
    obtain ⟨c1, c2⟩ := h1.covers (g := e.1) hroot hnames (by rw [hfst]; exact covers_self root)
    refine ⟨fun y hy => not_named_of_not_expanded (keepDir_rel folder_filter_conjuncts.2.1 (h2 y hy)) hin (c1 y hy),
      fun hf => ?_⟩
    obtain ⟨h4, _⟩ := h3 hf
    exact not_named_of_not_expanded (fileOk_rel file_filter_conjuncts.2 h4) hin c2
  · have hnames' : ∀ y ∈ post, NameOk y.name := fun y hy => hnames y (by rw [hsplit]; simp [hy])
    have hx : NameOk x.name := hnames x (by rw [hsplit]; simp)
    rw [hsplit] at hg
    obtain ⟨S, _, hS, h1, h2, h3⟩ := hg.honours
    have hin := (hS content hc).2 he
    have hfst := gitignoredPaths_rel_fst srcCfg _ content e he
    obtain ⟨c1, c2⟩ := h1.covers (g := e.1) (osJoin_ne_nil _ _ hx.1) hnames' (by rw [hfst]; exact covers_self _)
    refine ⟨fun y hy => not_named_of_not_expanded (keepDir_rel folder_filter_conjuncts.2.1 (h2 y hy)) hin (c1 y hy),
      fun hf => ?_⟩
    obtain ⟨h4, _⟩ := h3 hf
    exact not_named_of_not_expanded (fileOk_rel file_filter_conjuncts.2 h4) hin c2

/-- the former counter-examples, now on the right side: `.gitignore: ign_rel.py` and
`.gitignore: /ign_abs.py` in either listing order — nothing is yielded (hypotheses of the two
theorems above are satisfiable: the entries are `(root, ign_rel.py)` resp. `root/ign_abs.py`) -/
example :
    (walkRoot srcCfg "/r".toList ⟨[], []⟩
      [⟨".gitignore".toList, "ign_rel.py\n/ign_abs.py\n".toList⟩, ⟨"ign_rel.py".toList, []⟩,
       ⟨"ign_abs.py".toList, []⟩] .nil).1 = [] ∧
    (walkRoot srcCfg "/r".toList ⟨[], []⟩
      [⟨"ign_abs.py".toList, []⟩, ⟨"ign_rel.py".toList, []⟩,
       ⟨".gitignore".toList, "ign_rel.py\n/ign_abs.py\n".toList⟩] .nil).1 = [] ∧
    gitignoredPaths srcCfg "/r".toList "ign_rel.py\n/ign_abs.py\n".toList =
      (["/r/ign_abs.py".toList], [("/r".toList, "ign_rel.py".toList)]) := by
  decide

/-- a relative entry deep in the tree: `a/.gitignore: foo` prunes `a/b/foo/` and hides `a/b/c/foo` (a file
named `foo.py` is a different name) -/
example : (walkRoot srcCfg "/r".toList ⟨[], []⟩ []
    (.cons "a".toList [⟨".gitignore".toList, "m.py\nfoo\n".toList⟩]
      (.cons "b".toList [⟨"m.py".toList, []⟩, ⟨"foo.py".toList, []⟩]
        (.cons "foo".toList [⟨"k.py".toList, []⟩] .nil .nil) .nil) .nil)).1.map (·.path)
    = ["/r/a".toList, "/r/a/b".toList, "/r/a/b/foo.py".toList] := by decide

/-! ## every file outside the pruned places is yielded -/

/-- **all_unpruned_yielded**: with `fin` the state at the end of the walk (every `.gitignore` that
was read), a `.py/.pyi` file that passes the file filter of `fin` and whose ancestors all pass the
folder filter of `fin` is yielded -/
theorem walk_complete (cfg : Cfg) (root : Str) (st : St) (files : List FileEnt) (children : Forest) :
    (∀ f ∈ files, isPy cfg f.name = true →
      fileOk cfg root (walkRoot cfg root st files children).2 f.name = true →
      (⟨true, osJoin root f.name, f.name, []⟩ : Ev) ∈ (walkRoot cfg root st files children).1) ∧
    (∀ p a fs c, Reach (fun r n => keepDir cfg r (walkRoot cfg root st files children).2 n) root [] children p a fs c →
      ∀ f ∈ fs, isPy cfg f.name = true →
      fileOk cfg p (walkRoot cfg root st files children).2 f.name = true →
      (⟨true, osJoin p f.name, f.name, a⟩ : Ev) ∈ (walkRoot cfg root st files children).1) := by
  refine ⟨fun f hf hpy hok => ?_, fun p a fs c hr f hf hpy hok => ?_⟩
  · simp only [walkRoot, List.mem_append]
    refine .inl (.inl ((mem_fileEvents _ _ _ _ _ _).mpr ⟨f, hf, hpy, ?_, rfl⟩))
    exact fileOk_antitone _ _ _ (walkForest_mono _ _ _ _ _ _) hok
  · simp only [walkRoot, List.mem_append]
    exact .inr (walkForest_complete cfg _ hr _ _ (walkForest_mono _ _ _ _ _ _) (St.le_refl _) f hf hpy hok)

/-- `Reach` is inhabited by a non-trivial chain (hypothesis of `walk_complete`, conclusion of `walk_sound`) -/
example : Reach (fun _ n => n != "venv".toList) "/r".toList []
    (.cons "venv".toList [] .nil (.cons "a".toList [] (.cons "b".toList [⟨"m.py".toList, []⟩] .nil .nil) .nil))
    "/r/a/b".toList [⟨"/r".toList, "a".toList, []⟩, ⟨"/r/a".toList, "b".toList, [⟨"m.py".toList, []⟩]⟩]
    [⟨"m.py".toList, []⟩] .nil :=
  .sibling (.down (by decide) (.here (by decide)))

/-- the two bounds meet when the tree holds no `.gitignore`: the walk state never changes -/
example : (walkRoot srcCfg "/r".toList ⟨[], []⟩ [⟨"m.py".toList, []⟩]
    (.cons "venv".toList [⟨"v.py".toList, []⟩] .nil (.cons "a".toList [⟨"k.pyi".toList, []⟩] .nil .nil))).1.map (·.path)
    = ["/r/m.py".toList, "/r/a".toList, "/r/a/k.pyi".toList] := by decide

/-! ## FULL: everything that no applicable rule names is yielded

`walk_complete` above measures against the final state of the walk, which holds the entries of
every `.gitignore` of the project.  Before the fix a relative entry of `a/.gitignore` also pruned
below the sibling `ab/` (`witness_sibling_prefix_pruned`).  Now only the `.gitignore` files in the
directory itself and above it count, in terms of tree positions (name chains), not of string
prefixes.  Hypotheses: the project path is non-empty without trailing separator, names contain no
separator, and `except_paths_relative` starts empty (it always does: it is a local variable). -/

/-- **entries of a `.gitignore` only apply in and below its own directory; every other python
file is yielded**: a `.py/.pyi` file `f` of the directory at name chain `ns` is yielded if
* no directory on the way is named in `_IGNORE_FOLDERS`, is one of the caller's `except_paths`, or
  is named by a `.gitignore` entry of a directory at or above its parent, and
* the file is not one of the caller's `except_paths` and is not named by a `.gitignore` entry of
  its own directory or a directory above — whatever `.gitignore` files lie elsewhere in the tree. -/
theorem unnamed_file_is_yielded (root : Str) (st : St) (files : List FileEnt) (children : Forest)
    (hroot : RootOk root) (hnames : children.AllNames ValidName) (hrel : st.rel = [])
    (ns : List Str) (fs : List FileEnt) (hdir : DirAtRoot files children ns fs)
    (f : FileEnt) (hf : f ∈ fs) (hpy : isPy srcCfg f.name = true) (hfn : ValidName f.name)
    (hdirs : ∀ pre n post, ns = pre ++ n :: post →
      n ∉ srcCfg.ignoreFolders ∧ osJoin (pathOf root pre) n ∉ st.exc ∧
      ¬ NamedByGitignore srcCfg root files children pre n)
    (hexc : osJoin (pathOf root ns) f.name ∉ st.exc)
    (hfile : ¬ NamedByGitignore srcCfg root files children ns f.name) :
    ∃ ev ∈ (walkRoot srcCfg root st files children).1,
      ev.isFile = true ∧ ev.path = osJoin (pathOf root ns) f.name ∧ ev.name = f.name := by
  have hns := hdir.names hnames
  obtain ⟨f1, f2⟩ := entry_passes_final srcCfg st files children hroot hnames hrel hns hfn hexc hfile
  have hok := fileOk_intro srcCfg f1 f2 (by decide)
  have hkd : ∀ pre n post, ns = pre ++ n :: post →
      keepDir srcCfg (pathOf root pre) (walkRoot srcCfg root st files children).2 n = true := by
    intro pre n post hs
    obtain ⟨h1, h2, h3⟩ := hdirs pre n post hs
    have hpre : ∀ k ∈ pre, ValidName k := fun k hk => hns k (by rw [hs]; simp [hk])
    have hn : ValidName n := hns n (by rw [hs]; simp)
    obtain ⟨e1, e2⟩ := entry_passes_final srcCfg st files children hroot hnames hrel hpre hn h2 h3
    exact keepDir_intro srcCfg e1 e2 h1
  rcases hdir with ⟨hnil, hfs⟩ | hd
  · subst hnil; subst hfs
    exact ⟨_, (walk_complete srcCfg root st fs children).1 f hf hpy hok, rfl, rfl, rfl⟩
  · obtain ⟨a, c, hr⟩ := reach_of_dirAt (kd := fun r n => keepDir srcCfg r (walkRoot srcCfg root st files children).2 n)
      (root := root) (anc := []) hd hkd
    exact ⟨_, (walk_complete srcCfg root st files children).2 _ a fs c hr f hf hpy hok, rfl, rfl, rfl⟩

/-- the former counter-example: `a/.gitignore: foo` prunes `a/foo` and nothing under the sibling `ab/` -/
example :
    (walkRoot srcCfg "/r".toList ⟨[], []⟩ []
      (.cons "a".toList [⟨".gitignore".toList, "foo\n".toList⟩] (.cons "foo".toList [⟨"m.py".toList, []⟩] .nil .nil)
        (.cons "ab".toList [] (.cons "foo".toList [⟨"m.py".toList, []⟩] .nil .nil) .nil))).1.map (·.path)
      = ["/r/a".toList, "/r/ab".toList, "/r/ab/foo".toList, "/r/ab/foo/m.py".toList] := by
  decide

/-- the hypotheses of `unnamed_file_is_yielded` hold for `ab/foo/m.py` in that tree: the only
`.gitignore` lies at chain `[a]`, which is not a prefix of `[ab]` or `[ab, foo]` -/
example : RootOk "/r".toList ∧ ValidName "ab".toList ∧
    DirAt (.cons "a".toList [⟨".gitignore".toList, "foo\n".toList⟩] .nil
        (.cons "ab".toList [] (.cons "foo".toList [⟨"m.py".toList, []⟩] .nil .nil) .nil))
      ["ab".toList, "foo".toList] [⟨"m.py".toList, []⟩] ∧
    ¬ (["a".toList] <+: ["ab".toList, "foo".toList]) :=
  ⟨by unfold RootOk; decide, by unfold ValidName; decide, .sibling (.down .here), by decide⟩

/-! ## at most once -/

/-- **yielded at most once**: if the names in every listing are distinct (directory names among
siblings, file names within a directory — as on a file system), no two events of the walk are at
the same tree position (names of the directories on the way, own name, file / folder).  Together
with `unnamed_file_is_yielded`: every python file no rule names is yielded exactly once. -/
theorem each_position_yielded_at_most_once (cfg : Cfg) (root : Str) (st : St) (files : List FileEnt)
    (children : Forest) (hfiles : (files.map (·.name)).Nodup) (hch : children.Distinct) :
    ((walkRoot cfg root st files children).1.map Ev.pos).Nodup :=
  walkRoot_pos_nodup cfg root st files children hfiles hch

/-- `Forest.Distinct` holds of a non-trivial tree, and fails when two siblings share a name -/
example :
    (Forest.cons "a".toList [⟨"m.py".toList, []⟩, ⟨"n.py".toList, []⟩] (.cons "a".toList [] .nil .nil)
      (.cons "ab".toList [] .nil .nil)).Distinct ∧
    ¬ (Forest.cons "a".toList [] .nil (.cons "a".toList [] .nil .nil)).Distinct := by
  simp [Forest.Distinct, Forest.dirNames]

/-! ## open / parse limits -/

/-- `search_in_file_ios` yields exactly: of the first `openLimit` files, those that mention the
word, the first `parseLimit` of them -/
theorem search_limits {α} (mentions : α → Bool) (parseLimit openLimit : Nat) (files : List α)
    (hp : 0 < parseLimit) (ho : 0 < openLimit) :
    searchInFileIos mentions parseLimit openLimit files =
      ((files.take openLimit).filter mentions).take parseLimit := by
  simpa [searchInFileIos] using searchLoop_eq mentions parseLimit openLimit files 0 0 ho hp

/-- the limits in the source are positive, so `search_limits` applies to them -/
theorem source_limits_positive :
    0 < JediModel.Gen.C19.parsedFileLimit ∧ 0 < JediModel.Gen.C19.openedFileLimit := by
  decide

/-- below the limits nothing that mentions the word is dropped -/
theorem search_within_limits {α} (mentions : α → Bool) (files : List α)
    (h : files.length ≤ JediModel.Gen.C19.parsedFileLimit) :
    searchInFileIos mentions JediModel.Gen.C19.parsedFileLimit JediModel.Gen.C19.openedFileLimit files =
      files.filter mentions := by
  rw [search_limits _ _ _ _ source_limits_positive.1 source_limits_positive.2]
  have h2 : files.length ≤ JediModel.Gen.C19.openedFileLimit := by
    have : JediModel.Gen.C19.parsedFileLimit ≤ JediModel.Gen.C19.openedFileLimit := by decide
    omega
  rw [List.take_of_length_le h2, List.take_of_length_le]
  exact Nat.le_trans (List.length_filter_le _ _) h

/-! ## `Project._search_func`: which files step 2 scans (completeness of the identifier search)

`srcFileBranch` is the `else:` branch (the event is a file) of the step-1 loop **as the translator
transcribed it from `jedi/api/project.py`**, statement order included.  The theorems below are
stated over it: moving `file_ios.append(file_io)` behind the file-name test, or into one of its
branches, changes the transcription and these proofs no longer check. -/

/-- **every file the walk yields is appended to `file_ios`** — whether it is named like the search
word or not — and the module hit is reached exactly for the files named like the word; the pass
never reaches `yield from` without `m` -/
theorem search_scans_every_file : ∀ named, fileStep srcFileBranch named = some (true, named) := by
  intro named
  cases named <;> decide

/-- the names `Path(file_io.path).name` is compared with are `name + '.py'` and `name + '.pyi'`,
the stub folder is `name + '-stubs'` (the oracle's notion of "a module or package so named") -/
theorem module_name_suffixes :
    srcModuleSuffixes = [".py".toList, ".pyi".toList] ∧ srcStubSuffix = "-stubs".toList := by
  decide

/-- step 1 with the source's file branch: the module hits are those of the specification
`moduleHits`, and the list handed to `search_in_file_ios` is **the list of all files the walk
yields, in walk order** -/
theorem step2_files_are_the_walk_files (lower : Str → Str) (tbl : List PathInfo) (wantedType name : Str)
    (complete : Bool) (evs : List Ev) :
    step1 (fileStep srcFileBranch) srcModuleSuffixes srcStubSuffix lower tbl wantedType name complete evs =
      some (moduleHits srcModuleSuffixes srcStubSuffix lower tbl wantedType name complete evs,
            (evs.filter (·.isFile)).map (·.path)) :=
  step1_eq _ _ _ _ _ _ _ _ search_scans_every_file evs

/-- with the source's file branch `Project._search_func` is total and equals its specification:
module hits of the events named like the word, then the identifiers of **all** yielded files
(within the limits), then the modules of the project root on `sys.path`, without duplicates -/
theorem project_search_src (lower : Str → Str) (tbl : List PathInfo) (sysNames : List Nm) (parseLimit openLimit : Nat)
    (wantedType name : Str) (complete : Bool) (evs : List Ev) :
    projectSearch srcFileBranch srcModuleSuffixes srcStubSuffix lower tbl sysNames parseLimit openLimit
        wantedType name complete evs =
      some (skipDuplicates (moduleHits srcModuleSuffixes srcStubSuffix lower tbl wantedType name complete evs ++
        identifierHits lower tbl wantedType name complete parseLimit openLimit ((evs.filter (·.isFile)).map (·.path)) ++
        searchFilter lower sysNames wantedType name complete false)) := by
  simp only [projectSearch, step2_files_are_the_walk_files]

/-- **search_complete**: within the parse limit, every definition (`n`, with tree name `t`, listed by
`get_module_names` for the requested `all_scopes`) of every file the walk yields — *named like the
search word or not* — that is spelled like the word (exactly / as a prefix) and has the requested
type is among the results of `Project.search` / `complete_search`: the search does not fail and
reports a result with that tree name (`_try_to_skip_duplicates` keeps one result per tree name).
`mentions` is the regex pre-filter of `_check_fs` (a file that defines the word mentions it).
Together with `walk_complete` / `unnamed_file_is_yielded` (which files the walk yields) this is the
completeness clause of the property on the model. -/
theorem search_complete (lower : Str → Str) (tbl : List PathInfo) (sysNames : List Nm)
    (wantedType name : Str) (complete : Bool) (evs : List Ev)
    (ev : Ev) (hev : ev ∈ evs) (hfile : ev.isFile = true)
    (i : PathInfo) (hi : lookup tbl ev.path = some i) (hm : i.mentions = true)
    (n : Nm) (hn : n ∈ i.names) (t : Nat) (ht : n.treeId = some t) (hty : n.type ≠ "module".toList)
    (hspell : nameMatches lower name complete false n = true) (htype : typeOk wantedType n = true)
    (hlim : (evs.filter (·.isFile)).length ≤ JediModel.Gen.C19.parsedFileLimit) :
    ∃ r, projectSearch srcFileBranch srcModuleSuffixes srcStubSuffix lower tbl sysNames
          JediModel.Gen.C19.parsedFileLimit JediModel.Gen.C19.openedFileLimit wantedType name complete evs = some r ∧
      ∃ m ∈ r, m.treeId = some t := by
  refine ⟨_, project_search_src _ _ _ _ _ _ _ _ _, ?_⟩
  apply skipLoop_keeps t [] [] _ n _ hty ht (by simp)
  refine List.mem_append.mpr (.inl (List.mem_append.mpr (.inr ?_)))
  unfold identifierHits
  have hlen : (List.filterMap (lookup tbl) ((evs.filter (·.isFile)).map (·.path))).length
      ≤ JediModel.Gen.C19.parsedFileLimit :=
    Nat.le_trans (List.length_filterMap_le _ _) (by simpa using hlim)
  simp only [search_within_limits _ _ hlen]
  refine List.mem_flatMap.mpr ⟨i, List.mem_filter.mpr ⟨List.mem_filterMap.mpr ⟨ev.path, ?_, hi⟩, hm⟩, ?_⟩
  · exact List.mem_map.mpr ⟨ev, List.mem_filter.mpr ⟨hev, hfile⟩, rfl⟩
  · exact List.mem_filter.mpr ⟨hn, by simp [hspell, htype]⟩

/-- a file `/r/foo.py` that defines `foo`, searched for `foo`: hypotheses of `search_complete` are
satisfiable, and the result holds the module hit *and* the definition -/
example :
    projectSearch srcFileBranch srcModuleSuffixes srcStubSuffix id
      [⟨"/r/foo.py".toList, ⟨"foo".toList, "module".toList, none, some "/r/foo.py".toList, 1⟩, true,
        [⟨"foo".toList, "statement".toList, some 1, some "/r/foo.py".toList, 1⟩]⟩] [] 30 2000 [] "foo".toList false
      [⟨true, "/r/foo.py".toList, "foo.py".toList, []⟩] =
    some [⟨"foo".toList, "module".toList, none, some "/r/foo.py".toList, 1⟩,
          ⟨"foo".toList, "statement".toList, some 1, some "/r/foo.py".toList, 1⟩] := by
  decide

/-- **every module or package so named**: an event (file named `word.py` / `word.pyi`, folder named
`word` / `word-stubs`) whose module name passes the final filter is reported as a module: some
result has its `module_path` -/
theorem search_modules_complete (lower : Str → Str) (tbl : List PathInfo) (sysNames : List Nm)
    (parseLimit openLimit : Nat) (wantedType name : Str) (complete : Bool) (evs : List Ev)
    (ev : Ev) (hev : ev ∈ evs)
    (hnamed : (if ev.isFile then fileNamed srcModuleSuffixes name ev else folderNamed srcStubSuffix name ev) = true)
    (i : PathInfo) (hi : lookup tbl ev.path = some i)
    (p : Str) (hmod : i.modName.type = "module".toList) (hp : i.modName.modPath = some p)
    (hid : i.modName.treeId = none)
    (hspell : nameMatches lower name complete false i.modName = true) (htype : typeOk wantedType i.modName = true) :
    ∃ r, projectSearch srcFileBranch srcModuleSuffixes srcStubSuffix lower tbl sysNames parseLimit openLimit
          wantedType name complete evs = some r ∧
      ∃ m ∈ r, m.type = "module".toList ∧ m.modPath = some p := by
  refine ⟨_, project_search_src _ _ _ _ _ _ _ _ _, ?_⟩
  have hk : modKey i.modName = some p := by simp [modKey, hmod, hp]
  obtain ⟨m, hm1, hm2⟩ := skipLoop_keeps_module p [] [] _ i.modName
    (List.mem_append.mpr (.inl (List.mem_append.mpr (.inl (moduleHit_mem_moduleHits _ _ lower tbl wantedType name
      complete evs ev hev hnamed i.modName (by simp [moduleHit, hi, searchFilter, hspell, htype])))))) hk hid (by simp)
  refine ⟨m, hm1, ?_⟩
  unfold modKey at hm2
  split at hm2
  · rename_i h; exact ⟨h, hm2⟩
  · cases hm2

/-- **witness: with `file_ios.append(file_io)` in the `else:` branch of the file-name test** (the file
branch `if named: m = load(..) else: file_ios.append(file_io); continue`) a file named like the
search word is reported as a module only and is never scanned: its own definition of the word is
lost — the statement of `search_scans_every_file` fails for that branch, and on `/r/foo.py`
defining `foo` the search for `foo` returns the module hit alone -/
theorem append_in_else_branch_loses_definitions :
    fileStep [("if_named", ["load"], ["append", "continue"])] true = some (false, true) ∧
    projectSearch [("if_named", ["load"], ["append", "continue"])] srcModuleSuffixes srcStubSuffix id
      [⟨"/r/foo.py".toList, ⟨"foo".toList, "module".toList, none, some "/r/foo.py".toList, 1⟩, true,
        [⟨"foo".toList, "statement".toList, some 1, some "/r/foo.py".toList, 1⟩]⟩] [] 30 2000 [] "foo".toList false
      [⟨true, "/r/foo.py".toList, "foo.py".toList, []⟩] =
    some [⟨"foo".toList, "module".toList, none, some "/r/foo.py".toList, 1⟩] := by
  decide

/-- a file branch that falls through to `yield from search_in_module(.., names=[m.name])` without
assigning `m` in that pass is an error outcome of the model, not a silent success -/
theorem fall_through_without_module_is_an_error :
    fileStep [("append", [], []), ("if_named", ["load"], [])] false = none := by
  decide

/-! ## search string and final filter -/

/-- `split_search_string`: the dotted part never contains a space, re-joining the name list with
dots gives it back, no name contains a dot, and the type is the text before the last space
(`def` ↦ `function`) -/
theorem split_search_string_spec (s : Str) :
    (splitSearchString srcAlias s).2 ≠ [] ∧
    (∀ w ∈ (splitSearchString srcAlias s).2, '.' ∉ w ∧ ' ' ∉ w) ∧
    ((' ' ∉ s ∧ (splitSearchString srcAlias s).1 = [] ∧ List.intercalate ['.'] (splitSearchString srcAlias s).2 = s) ∨
     (∃ t, s = t ++ ' ' :: List.intercalate ['.'] (splitSearchString srcAlias s).2 ∧
        (splitSearchString srcAlias s).1 = applyAlias srcAlias t)) := by
  have nosp : ∀ d : Str, ' ' ∉ d → ∀ w ∈ splitDot d, ' ' ∉ w := by
    intro d hd w hw hsp
    apply hd
    rw [← splitDot_join d]
    have : ∀ (l : List Str), w ∈ l → ' ' ∈ List.intercalate ['.'] l := by
      intro l hl
      induction l with
      | nil => cases hl
      | cons x xs ih =>
        cases xs with
        | nil =>
          simp only [List.mem_singleton] at hl
          subst hl
          simpa [List.intercalate, List.intersperse] using hsp
        | cons y ys =>
          rcases List.mem_cons.mp hl with h | h
          · subst h
            simp [List.intercalate, List.intersperse, hsp]
          · have := ih h
            simp only [List.intercalate, List.intersperse, List.flatten_cons, List.mem_append] at this ⊢
            exact .inr (.inr this)
    exact this _ hw
  unfold splitSearchString
  cases h : rpartSpace s with
  | none =>
    have hs := rpartSpace_none h
    refine ⟨splitDot_ne_nil s, fun w hw => ⟨splitDot_no_dot s w hw, nosp s hs w hw⟩, .inl ⟨hs, ?_, splitDot_join s⟩⟩
    show applyAlias srcAlias [] = []
    decide
  | some p =>
    obtain ⟨t, d⟩ := p
    obtain ⟨hs, hd⟩ := rpartSpace_some h
    refine ⟨splitDot_ne_nil d, fun w hw => ⟨splitDot_no_dot d w hw, nosp d hd w hw⟩, .inr ⟨t, ?_, rfl⟩⟩
    simp only [splitDot_join]
    exact hs

example : splitSearchString srcAlias "def foo.bar".toList = ("function".toList, ["foo".toList, "bar".toList]) := by
  decide

/-- the final filter of `search_in_module` (search string without dots): a name is reported iff it
is one of the candidate names, its (case-folded) spelling equals the word — or, for
`complete_search`, matches it (prefix; subsequence when fuzzy) — and its type is the requested
one; the order of the candidates is kept.  With `names` = `get_names(...)` this is
"`Script.search` = filtering `get_names`". -/
theorem search_filter_spec (lower : Str → Str) (names : List Nm) (wantedType last : Str) (complete fuzzy : Bool) :
    (searchFilter lower names wantedType last complete fuzzy).Sublist names ∧
    ∀ n, n ∈ searchFilter lower names wantedType last complete fuzzy ↔
      n ∈ names ∧ (wantedType = [] ∨ wantedType = n.type) ∧
      ((complete = false ∧ lower n.str = lower last) ∨
       (complete = true ∧ JediModel.Match.pmatch (lower n.str) (lower last) fuzzy = true)) := by
  refine ⟨List.filter_sublist, fun n => ?_⟩
  simp only [searchFilter, List.mem_filter, nameMatches, typeOk, Bool.and_eq_true, Bool.or_eq_true,
    beq_iff_eq]
  cases complete <;> simp <;> intro _ <;> exact And.comm

/-- **no duplicate survives `_try_to_skip_duplicates`**: among the results it lets through, the
tree names (`tree_name` identities that are not `None`) are pairwise different, and so are the
`module_path`s of the results of type `module` -/
theorem skip_duplicates_nodup (l : List Nm) :
    ((skipDuplicates l).filterMap (·.treeId)).Nodup ∧ ((skipDuplicates l).filterMap modKey).Nodup :=
  ⟨(skipLoop_treeIds_nodup [] [] l).1, (skipLoop_modKeys_nodup [] [] l).1⟩

example : skipDuplicates [⟨"a".toList, "statement".toList, some 1, none, 1⟩, ⟨"a".toList, "statement".toList, some 1, none, 1⟩,
    ⟨"m".toList, "module".toList, none, some "/r/m.py".toList, 1⟩, ⟨"m".toList, "module".toList, none, some "/r/m.py".toList, 1⟩]
    = [⟨"a".toList, "statement".toList, some 1, none, 1⟩, ⟨"m".toList, "module".toList, none, some "/r/m.py".toList, 1⟩] := by
  decide

/-- the loop of `_try_to_skip_duplicates` as the translator found it: results are compared by the
tree-name object (identity) and, for modules, by `module_path` - nothing coarser (a key made of the
spelling and the position would merge same-placed definitions of two files) -/
theorem skip_duplicates_src_key :
    JediModel.Gen.C19.skipDuplicatesKey = ["definition._name.tree_name", "definition.module_path"] := by
  decide

/-- **no definition is lost to `_try_to_skip_duplicates`**: whatever else the result list holds
(other files defining the same spelling at the same line and column, earlier duplicates, modules),
every tree name that occurs in it as a non-module result survives once. -/
theorem skip_duplicates_complete (l : List Nm) (d : Nm) (t : Nat) (hd : d ∈ l)
    (hty : d.type ≠ "module".toList) (ht : d.treeId = some t) :
    ∃ d' ∈ skipDuplicates l, d'.treeId = some t :=
  skipLoop_keeps t [] [] l d hd hty ht (by simp)

/-- two sibling modules written from one template: `limit = 1` at line 1 of `a.py` (token 1) and
of `b.py` (token 2) - both definitions are reported -/
example : (skipDuplicates [⟨"limit".toList, "statement".toList, some 1, none, 1⟩,
    ⟨"limit".toList, "statement".toList, some 2, none, 1⟩]).length = 2 := by decide

/-- `_try_to_skip_duplicates` only drops results -/
theorem skip_duplicates_sublist (l : List Nm) : (skipDuplicates l).Sublist l :=
  skipLoop_sublist [] [] l

/-! ## the regex pre-filter of step 2 is a necessary condition -/
section prefilter
open JediModel.Prefilter

/-- the pre-filter as the translator found it in `search_in_file_ios` / `_check_fs`: a pattern of
the known family (`\b` name `\b`-unless-complete), a str pattern without re.ASCII, and
`regex.search` runs on the text `python_bytes_to_unicode` returned, not on the raw bytes -/
theorem prefilter_src_shape :
    (patternOf JediModel.Gen.C19.prefilterPattern).isSome = true ∧
    JediModel.Gen.C19.checkFsSteps.contains "search" = true ∧
    searchSeesText JediModel.Gen.C19.checkFsSteps = true ∧
    JediModel.Gen.C19.prefilterPatternIsBytes = false ∧
    JediModel.Gen.C19.prefilterFlags.contains "ASCII" = false := by
  decide

/-- **the pre-filter loses no file that spells the name as a whole word.**  For the step order, the
pattern kind and the flags of the source (`Gen.C19`), any pattern `p` of the family, any unicode
`\w` predicate `uw`, any name whose first (and, for an exact search, last) character is `\w`:
if the decoded text of the file is `pre ++ name ++ post` with no `\w` character directly before
and (exact search) none directly behind, `_check_fs` does not filter the file out - whatever
bytes `data` the text was decoded from, so in every encoding `python_bytes_to_unicode` understands. -/
theorem prefilter_complete (uw : Char → Bool) (enc : List Char → List Nat) (p : Pattern) (complete : Bool)
    (name pre post : List Char) (data : List Nat)
    (hfirst : headWord uw name.head? = true)
    (hlast : complete = false → headWord uw name.getLast? = true)
    (hpre : headWord uw pre.getLast? = false)
    (hpost : complete = false → headWord uw post.head? = false) :
    passes uw enc JediModel.Gen.C19.checkFsSteps p JediModel.Gen.C19.prefilterPatternIsBytes
      (JediModel.Gen.C19.prefilterFlags.contains "ASCII") complete name data (pre ++ (name ++ post)) = some true := by
  obtain ⟨_, hs, hsee, hb, hf⟩ := prefilter_src_shape
  unfold passes
  simp only [hs, hsee, hb, hf, Bool.not_true, Bool.false_eq_true, ↓reduceIte]
  congr 1
  apply search_split
  · intro _
    rw [lastOr_none]
    simp [boundary, hpre, hfirst]
  · intro ht
    have hc : complete = false := by
      unfold trailOn at ht
      cases complete <;> simp_all
    simp [boundary, hlast hc, hpost hc]

/-- the hypotheses are satisfiable: `étoile_count` between a blank and a parenthesis -/
example : passes latinWord utf8 JediModel.Gen.C19.checkFsSteps ⟨true, false, true, false⟩
    JediModel.Gen.C19.prefilterPatternIsBytes (JediModel.Gen.C19.prefilterFlags.contains "ASCII") false
    ['é', 't', 'o', 'i', 'l', 'e'] (utf8 ['d', 'e', 'f', ' ', 'é', 't', 'o', 'i', 'l', 'e', '(', ')'])
    (['d', 'e', 'f', ' '] ++ (['é', 't', 'o', 'i', 'l', 'e'] ++ ['(', ')'])) = some true := by
  decide

/-- kernel-checked witness that the order matters: when `regex.search` runs on the raw bytes with the
UTF-8 encoded pattern (`search` before `decode`), `\b` is ASCII-only, there is no boundary between
the blank and the first byte of `é`, and the file `def étoile()` is filtered out although it
defines the name; an ASCII name in the same file still passes -/
theorem prefilter_on_bytes_loses_definitions :
    passes latinWord utf8 ["read", "search", "decode", "wrap", "load", "compiled", "return"] ⟨true, false, true, false⟩
      true false false ['é', 't', 'o', 'i', 'l', 'e']
      (utf8 ['d', 'e', 'f', ' ', 'é', 't', 'o', 'i', 'l', 'e', '(', ')'])
      ['d', 'e', 'f', ' ', 'é', 't', 'o', 'i', 'l', 'e', '(', ')'] = some false ∧
    passes latinWord utf8 ["read", "search", "decode", "wrap", "load", "compiled", "return"] ⟨true, false, true, false⟩
      true false false ['d', 'e', 'f']
      (utf8 ['d', 'e', 'f', ' ', 'é', 't', 'o', 'i', 'l', 'e', '(', ')'])
      ['d', 'e', 'f', ' ', 'é', 't', 'o', 'i', 'l', 'e', '(', ')'] = some true := by
  decide

/-- the same loss with a str pattern compiled with re.ASCII, and for a name that ENDS with such a letter -/
theorem prefilter_ascii_flag_loses_definitions :
    passes latinWord utf8 ["read", "decode", "search", "wrap", "load", "compiled", "return"] ⟨true, false, true, false⟩
      false true false ['C', 'a', 'f', 'é']
      (utf8 ['C', 'a', 'f', 'é', ' ', '=', ' ', '1'])
      ['C', 'a', 'f', 'é', ' ', '=', ' ', '1'] = some false := by
  decide

end prefilter
end JediModel.Props.C19

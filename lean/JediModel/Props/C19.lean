import JediModel.Model.WalkSrc
import JediModel.Lemmas.Walk
import JediModel.Lemmas.Search
/-! # C19 — Project search finds every definition and honours ignore rules

Property theorems only.  `srcCfg` is the configuration the translator read from
`jedi/inference/references.py` (ignore tuple, suffixes, folder-filter conjuncts), so the statements
below are about the source as it is now.  The listing order of `os.walk` is the order of the lists
inside the tree: every theorem quantifies over all trees, hence over all listing orders. -/
namespace JediModel.Props.C19
open JediModel.Walk JediModel.Search

/-! ## FolderIO.walk: pruning is exactly what the consumer chose -/

/-- if the consumer leaves a sub-list of the yielded folder objects, after the loop `dirs` holds
exactly the directories whose object was kept, in listing order -/
theorem walk_sync {α} (dirs : List α) (m : List Nat) (h : m.Sublist (List.range dirs.length)) :
    sync dirs m =
      ((List.zip (List.range dirs.length) dirs).filter (fun p => decide (p.1 ∈ m))).map Prod.snd :=
  sync_sublist dirs m h

/-- the consumer in `recurse_find_python_folders_and_files` filters with a predicate on the index:
`os.walk` then descends into exactly the directories that pass (this is what `walkForest` uses) -/
theorem walk_sync_filter {α} (dirs : List α) (keep : Nat → Bool) :
    sync dirs ((List.range dirs.length).filter keep) =
      ((List.zip (List.range dirs.length) dirs).filter (fun p => keep p.1)).map Prod.snd := by
  rw [walk_sync _ _ List.filter_sublist]
  congr 1
  apply List.filter_congr
  intro p hp
  have : p.1 ∈ List.range dirs.length := by
    have := List.of_mem_zip hp
    exact this.1
  simp [List.mem_filter, this]

example : sync ["a", "venv", "b"] [0, 2] = ["a", "b"] := by decide

/-! ## the ignore tuple -/

/-- the five names the property lists are in `_IGNORE_FOLDERS` (build-time obligation on the source) -/
theorem ignore_folders_cover :
    ∀ n ∈ [".tox", ".venv", ".mypy_cache", "venv", "__pycache__"], n ∈ JediModel.Gen.C19.ignoreFolders := by
  decide

/-- the folder filter found in the source has the three conjuncts the model knows, so none of the
three tests is skipped -/
theorem folder_filter_conjuncts :
    "not_in_except_paths" ∈ srcCfg.conjuncts ∧ "not_in_relative_expanded" ∈ srcCfg.conjuncts ∧
    "base_name_not_ignored" ∈ srcCfg.conjuncts := by
  decide

/-! ## nothing is yielded from a pruned place -/

/-- the state after the `for file_io in file_ios` loop of the top directory: every `.gitignore`
entry of the project root has been read -/
abbrev rootState (cfg : Cfg) (root : Str) (st : St) (files : List FileEnt) : St :=
  (processFiles cfg root [] st files).2

/-- soundness of the walk: every event below the top directory is reached through directories
that all pass the folder filter of the state `rootState` (initial `except_paths` plus the root's
`.gitignore`), and a file event is a `.py/.pyi` file of such a directory that is not an
excepted `Path`. -/
theorem walk_sound (cfg : Cfg) (root : Str) (st : St) (files : List FileEnt) (children : Forest) :
    ∀ ev ∈ (walkRoot cfg root st files children).1,
      (ev.anc = [] ∧ ∃ f ∈ files, isPy cfg f.name = true ∧ osJoin root f.name ∉ st.exceptPath ∧
          ev = ⟨true, osJoin root f.name, []⟩) ∨
      Sound cfg (rootState cfg root st files) root [] children ev := by
  intro ev h
  simp only [walkRoot, List.mem_append] at h
  rcases h with (h | h) | h
  · obtain ⟨f, hf, hpy, hex, rfl⟩ := (mem_processFiles _ _ _ _ _ _).mp h
    exact .inl ⟨rfl, f, hf, hpy, hex, rfl⟩
  · obtain ⟨hff, fs, c, hr⟩ := reach_of_folderEvents _ _ _ _ _ _ h
    exact .inr ⟨fun hc => (by rw [hff] at hc; cases hc), fun _ => ⟨fs, c, hr⟩⟩
  · exact .inr (walkForest_sound cfg _ root [] _ _ children (St.le_refl _) (St.le_refl _) ev h)

/-- every directory on the way to an event passed the folder filter -/
theorem anc_kept (cfg : Cfg) (root : Str) (st : St) (files : List FileEnt) (children : Forest) :
    ∀ ev ∈ (walkRoot cfg root st files children).1, ∀ x ∈ ev.anc,
      keepDir cfg x.1 (rootState cfg root st files) x.2 = true := by
  intro ev h x hx
  rcases walk_sound cfg root st files children ev h with ⟨hnil, _⟩ | hs
  · rw [hnil] at hx; cases hx
  · cases hf : ev.isFile with
    | true =>
      obtain ⟨p, fs, c, hr, _⟩ := hs.1 hf
      rcases hr.anc_kd x hx with h | h
      · cases h
      · exact h
    | false =>
      obtain ⟨fs, c, hr⟩ := hs.2 hf
      rcases hr.anc_kd x hx with h | h
      · cases h
      · exact h

/-- **no_file_under_pruned (ignore tuple)**: nothing is yielded at or below a folder named in
`_IGNORE_FOLDERS`, at any depth, for every tree, listing order and `.gitignore` content -/
theorem no_event_under_ignored_folder (root : Str) (st : St) (files : List FileEnt) (children : Forest) :
    ∀ ev ∈ (walkRoot srcCfg root st files children).1, ∀ x ∈ ev.anc, x.2 ∉ srcCfg.ignoreFolders := by
  intro ev h x hx
  have hk := anc_kept srcCfg root st files children ev h x hx
  simp only [keepDir, List.all_eq_true] at hk
  have := hk "base_name_not_ignored" folder_filter_conjuncts.2.2
  simpa [conjunct] using this

/-- in particular: nothing under `venv`, `.venv`, `.tox`, `.mypy_cache`, `__pycache__` -/
theorem no_event_under_property_folders (root : Str) (st : St) (files : List FileEnt) (children : Forest) :
    ∀ ev ∈ (walkRoot srcCfg root st files children).1, ∀ x ∈ ev.anc,
      x.2 ∉ [".tox", ".venv", ".mypy_cache", "venv", "__pycache__"].map String.toList := by
  intro ev h x hx hmem
  apply no_event_under_ignored_folder root st files children ev h x hx
  simp only [List.mem_map] at hmem
  obtain ⟨n, hn, heq⟩ := hmem
  rw [← heq]
  exact List.mem_map_of_mem (ignore_folders_cover n hn)

/-- **no_file_under_pruned (.gitignore, already read)**: no directory on the way to an event is an
absolute entry known after the root's `.gitignore` was read, nor the expansion
`os.path.join(parent, name)` of a relative entry `(g, name)` whose folder `g` is a (string) prefix
of the parent path -/
theorem no_event_under_gitignored_folder (root : Str) (st : St) (files : List FileEnt) (children : Forest) :
    ∀ ev ∈ (walkRoot srcCfg root st files children).1, ∀ x ∈ ev.anc,
      osJoin x.1 x.2 ∉ (rootState srcCfg root st files).exceptStr ∧
      ∀ e ∈ (rootState srcCfg root st files).rel, e.1.isPrefixOf x.1 = true → osJoin x.1 x.2 ≠ osJoin x.1 e.2 := by
  intro ev h x hx
  have hk := anc_kept srcCfg root st files children ev h x hx
  simp only [keepDir, List.all_eq_true] at hk
  have h1 := hk "not_in_except_paths" folder_filter_conjuncts.1
  have h2 := hk "not_in_relative_expanded" folder_filter_conjuncts.2.1
  refine ⟨by simpa [conjunct] using h1, ?_⟩
  intro e he hpre heq
  have h2' : osJoin x.1 x.2 ∉ expandRel x.1 (rootState srcCfg root st files).rel := by
    simpa [conjunct] using h2
  apply h2'
  simp only [expandRel, List.mem_map, List.mem_filter]
  exact ⟨e, ⟨he, hpre⟩, heq.symm⟩

/-- the root's `.gitignore` has been read when the folders are filtered: its entries are in `rootState` -/
theorem root_gitignore_read (cfg : Cfg) (root : Str) (anc : List (Str × Str)) (st : St) (files : List FileEnt)
    (content : Str) (h : (⟨cfg.gitignoreName, content⟩ : FileEnt) ∈ files) :
    (gitignoredPaths cfg root content).1 ⊆ (processFiles cfg root anc st files).2.exceptStr ∧
    (gitignoredPaths cfg root content).2 ⊆ (processFiles cfg root anc st files).2.rel := by
  induction files generalizing st with
  | nil => cases h
  | cons f fs ih =>
    simp only [processFiles]
    rcases List.mem_cons.mp h with h | h
    · subst h
      simp only [if_true]
      have hm := processFiles_mono cfg root anc
        ({ st with exceptStr := st.exceptStr ++ (gitignoredPaths cfg root content).1,
                   rel := st.rel ++ (gitignoredPaths cfg root content).2 } : St) fs
      exact ⟨fun x hx => hm.2.1 (List.mem_append_right _ hx), fun x hx => hm.2.2 (List.mem_append_right _ hx)⟩
    · exact ih _ h

/-- a folder entry `name` (no slash) in the root's `.gitignore` prunes every directory `name`
directly below any directory whose path has the root path as a prefix -/
theorem root_gitignore_folder_entry_prunes (root : Str) (st : St) (files : List FileEnt) (children : Forest)
    (content name : Str) (hg : (⟨srcCfg.gitignoreName, content⟩ : FileEnt) ∈ files)
    (hn : (root, name) ∈ (gitignoredPaths srcCfg root content).2) :
    ∀ ev ∈ (walkRoot srcCfg root st files children).1, ∀ x ∈ ev.anc,
      root.isPrefixOf x.1 = true → x.2 ≠ name := by
  intro ev h x hx hpre heq
  have := (no_event_under_gitignored_folder root st files children ev h x hx).2 (root, name)
    ((root_gitignore_read srcCfg root [] st files content hg).2 hn) hpre
  exact this (by rw [heq])

/-- the hypotheses of `root_gitignore_folder_entry_prunes` are satisfiable: a `.gitignore`
with the line `foo` in the root yields the relative entry `(root, foo)` and `a/foo` is pruned -/
example : (walkRoot srcCfg "/r".toList ⟨[], [], []⟩ [⟨".gitignore".toList, "foo\n".toList⟩]
    (.cons "a".toList [] (.cons "foo".toList [⟨"m.py".toList, []⟩] .nil .nil) .nil)).1.map (·.path)
    = ["/r/a".toList] := by decide

/-! ## every file outside the pruned places is yielded -/

/-- **all_unpruned_yielded**: with `fin` the state at the end of the walk (every `.gitignore` that
was read), a `.py/.pyi` file that is not an excepted `Path` and whose ancestors all pass the
folder filter of `fin` is yielded — top-level files unconditionally -/
theorem walk_complete (cfg : Cfg) (root : Str) (st : St) (files : List FileEnt) (children : Forest) :
    (∀ f ∈ files, isPy cfg f.name = true → osJoin root f.name ∉ st.exceptPath →
      (⟨true, osJoin root f.name, []⟩ : Ev) ∈ (walkRoot cfg root st files children).1) ∧
    (∀ p a fs c, Reach (fun r n => keepDir cfg r (walkRoot cfg root st files children).2 n) root [] children p a fs c →
      ∀ f ∈ fs, isPy cfg f.name = true → osJoin p f.name ∉ st.exceptPath →
      (⟨true, osJoin p f.name, a⟩ : Ev) ∈ (walkRoot cfg root st files children).1) := by
  refine ⟨fun f hf hpy hex => ?_, fun p a fs c hr f hf hpy hex => ?_⟩
  · simp only [walkRoot, List.mem_append]
    exact .inl (.inl ((mem_processFiles _ _ _ _ _ _).mpr ⟨f, hf, hpy, hex, rfl⟩))
  · simp only [walkRoot, List.mem_append]
    refine .inr (walkForest_complete cfg _ hr _ _ ?_ (St.le_refl _) f hf hpy ?_)
    · exact walkForest_mono _ _ _ _ _ _
    · rw [← (processFiles_mono cfg root [] st files).1]; exact hex

/-- `Reach` is inhabited by a non-trivial chain (hypothesis of `walk_complete`, conclusion of `walk_sound`) -/
example : Reach (fun _ n => n != "venv".toList) "/r".toList []
    (.cons "venv".toList [] .nil (.cons "a".toList [] (.cons "b".toList [⟨"m.py".toList, []⟩] .nil .nil) .nil))
    "/r/a/b".toList [("/r".toList, "a".toList), ("/r/a".toList, "b".toList)] [⟨"m.py".toList, []⟩] .nil :=
  .sibling (.down (by decide) (.here (by decide)))

/-- the two bounds meet when the tree holds no `.gitignore`: the walk state never changes -/
example : (walkRoot srcCfg "/r".toList ⟨[], [], []⟩ [⟨"m.py".toList, []⟩]
    (.cons "venv".toList [⟨"v.py".toList, []⟩] .nil (.cons "a".toList [⟨"k.pyi".toList, []⟩] .nil .nil))).1.map (·.path)
    = ["/r/m.py".toList, "/r/a".toList, "/r/a/k.pyi".toList] := by decide

/-! ## FULL statement ("nothing that a `.gitignore` entry names; everything else") is false

Three kernel-checked counter-witnesses on the model; each reproduces on the real code
(harness streams `search-negative` / `search-complete`, known findings). -/

/-- FULL (false): a relative file entry is applied.  `.gitignore: ign_rel.py` is read first, and
`ign_rel.py` is still yielded. -/
theorem witness_relative_file_entry_not_applied :
    (⟨true, "/r/ign_rel.py".toList, []⟩ : Ev) ∈
      (walkRoot srcCfg "/r".toList ⟨[], [], []⟩
        [⟨".gitignore".toList, "ign_rel.py\n".toList⟩, ⟨"ign_rel.py".toList, []⟩] .nil).1 := by
  decide

/-- FULL (false): an absolute file entry is applied.  The entry is a `str`, the file path a
`pathlib.Path`; in either listing order the file is yielded. -/
theorem witness_absolute_file_entry_not_applied :
    (⟨true, "/r/ign_abs.py".toList, []⟩ : Ev) ∈
      (walkRoot srcCfg "/r".toList ⟨[], [], []⟩
        [⟨".gitignore".toList, "/ign_abs.py\n".toList⟩, ⟨"ign_abs.py".toList, []⟩] .nil).1 ∧
    (⟨true, "/r/ign_abs.py".toList, []⟩ : Ev) ∈
      (walkRoot srcCfg "/r".toList ⟨[], [], []⟩
        [⟨"ign_abs.py".toList, []⟩, ⟨".gitignore".toList, "/ign_abs.py\n".toList⟩] .nil).1 := by
  decide

/-- FULL (false): entries of `a/.gitignore` only apply below `a/`.  `a/.gitignore: foo` prunes
`ab/foo` (string-prefix test): `ab/foo/m.py` is not yielded although no rule names it. -/
theorem witness_sibling_prefix_pruned :
    (walkRoot srcCfg "/r".toList ⟨[], [], []⟩ []
      (.cons "a".toList [⟨".gitignore".toList, "foo\n".toList⟩] .nil
        (.cons "ab".toList [] (.cons "foo".toList [⟨"m.py".toList, []⟩] .nil .nil) .nil))).1.map (·.path)
      = ["/r/a".toList, "/r/ab".toList] := by
  decide

/-! ## open / parse limits -/

/-- `search_in_file_ios` yields exactly: of the first `openLimit` files, those that mention the
word, the first `parseLimit` of them -/
theorem search_limits {α} (mentions : α → Bool) (parseLimit openLimit : Nat) (files : List α)
    (hp : 0 < parseLimit) (ho : 0 < openLimit) :
    searchInFileIos mentions parseLimit openLimit files =
      ((files.take openLimit).filter mentions).take parseLimit := by
  simpa [searchInFileIos] using searchLoop_eq mentions parseLimit openLimit files 0 0 ho hp

/-- the limits in the source are positive, so `search_limits` applies to them -/
theorem source_limits_positive :
    0 < JediModel.Gen.C19.parsedFileLimit ∧ 0 < JediModel.Gen.C19.openedFileLimit := by
  decide

/-- below the limits nothing that mentions the word is dropped -/
theorem search_within_limits {α} (mentions : α → Bool) (files : List α)
    (h : files.length ≤ JediModel.Gen.C19.parsedFileLimit) :
    searchInFileIos mentions JediModel.Gen.C19.parsedFileLimit JediModel.Gen.C19.openedFileLimit files =
      files.filter mentions := by
  rw [search_limits _ _ _ _ source_limits_positive.1 source_limits_positive.2]
  have h2 : files.length ≤ JediModel.Gen.C19.openedFileLimit := by
    have : JediModel.Gen.C19.parsedFileLimit ≤ JediModel.Gen.C19.openedFileLimit := by decide
    omega
  rw [List.take_of_length_le h2, List.take_of_length_le]
  exact Nat.le_trans (List.length_filter_le _ _) h

/-! ## search string and final filter -/

/-- `split_search_string`: the dotted part never contains a space, re-joining the name list with
dots gives it back, no name contains a dot, and the type is the text before the last space
(`def` ↦ `function`) -/
theorem split_search_string_spec (s : Str) :
    (splitSearchString srcAlias s).2 ≠ [] ∧
    (∀ w ∈ (splitSearchString srcAlias s).2, '.' ∉ w ∧ ' ' ∉ w) ∧
    ((' ' ∉ s ∧ (splitSearchString srcAlias s).1 = [] ∧ List.intercalate ['.'] (splitSearchString srcAlias s).2 = s) ∨
     (∃ t, s = t ++ ' ' :: List.intercalate ['.'] (splitSearchString srcAlias s).2 ∧
        (splitSearchString srcAlias s).1 = applyAlias srcAlias t)) := by
  have nosp : ∀ d : Str, ' ' ∉ d → ∀ w ∈ splitDot d, ' ' ∉ w := by
    intro d hd w hw hsp
    apply hd
    rw [← splitDot_join d]
    have : ∀ (l : List Str), w ∈ l → ' ' ∈ List.intercalate ['.'] l := by
      intro l hl
      induction l with
      | nil => cases hl
      | cons x xs ih =>
        cases xs with
        | nil =>
          simp only [List.mem_singleton] at hl
          subst hl
          simpa [List.intercalate, List.intersperse] using hsp
        | cons y ys =>
          rcases List.mem_cons.mp hl with h | h
          · subst h
            simp [List.intercalate, List.intersperse, hsp]
          · have := ih h
            simp only [List.intercalate, List.intersperse, List.flatten_cons, List.mem_append] at this ⊢
            exact .inr (.inr this)
    exact this _ hw
  unfold splitSearchString
  cases h : rpartSpace s with
  | none =>
    have hs := rpartSpace_none h
    refine ⟨splitDot_ne_nil s, fun w hw => ⟨splitDot_no_dot s w hw, nosp s hs w hw⟩, .inl ⟨hs, ?_, splitDot_join s⟩⟩
    show applyAlias srcAlias [] = []
    decide
  | some p =>
    obtain ⟨t, d⟩ := p
    obtain ⟨hs, hd⟩ := rpartSpace_some h
    refine ⟨splitDot_ne_nil d, fun w hw => ⟨splitDot_no_dot d w hw, nosp d hd w hw⟩, .inr ⟨t, ?_, rfl⟩⟩
    simp only [splitDot_join]
    exact hs

example : splitSearchString srcAlias "def foo.bar".toList = ("function".toList, ["foo".toList, "bar".toList]) := by
  decide

/-- the final filter of `search_in_module` (search string without dots): a name is reported iff it
is one of the candidate names, its (case-folded) spelling equals the word — or, for
`complete_search`, matches it (prefix; subsequence when fuzzy) — and its type is the requested
one; the order of the candidates is kept.  With `names` = `get_names(...)` this is
"`Script.search` = filtering `get_names`". -/
theorem search_filter_spec (lower : Str → Str) (names : List Nm) (wantedType last : Str) (complete fuzzy : Bool) :
    (searchFilter lower names wantedType last complete fuzzy).Sublist names ∧
    ∀ n, n ∈ searchFilter lower names wantedType last complete fuzzy ↔
      n ∈ names ∧ (wantedType = [] ∨ wantedType = n.type) ∧
      ((complete = false ∧ lower n.str = lower last) ∨
       (complete = true ∧ JediModel.Match.pmatch (lower n.str) (lower last) fuzzy = true)) := by
  refine ⟨List.filter_sublist, fun n => ?_⟩
  simp only [searchFilter, List.mem_filter, nameMatches, typeOk, Bool.and_eq_true, Bool.or_eq_true,
    beq_iff_eq]
  cases complete <;> simp <;> intro _ <;> exact And.comm

/-- `_try_to_skip_duplicates` only drops results -/
theorem skip_duplicates_sublist (l : List Nm) : (skipDuplicates l).Sublist l :=
  skipLoop_sublist [] [] l

end JediModel.Props.C19

import JediModel.Gen.C19
import JediModel.Model.Search
namespace JediModel.Props.C19

theorem ignore_folders_cover :
    ∀ n ∈ [".tox", ".venv", ".mypy_cache", "venv", "__pycache__"], n ∈ JediModel.Gen.C19.ignoreFolders := by
  decide

end JediModel.Props.C19

import JediModel.Gen.C07
import JediModel.Lemmas.TreeRender
import JediModel.Lemmas.Diff
import JediModel.Lemmas.RefactorFS
/-! # C07 — Refactoring results are self-consistent, touch nothing until applied

Property theorems only.  The differ (difflib) is a parameter: every statement about the
diff holds for *any* opcode list that is `Valid`; the correspondence check establishes
`Valid` (decided in Lean) for the opcodes the real difflib produced on every run. -/
namespace JediModel.Props.C07
open JediModel.Text JediModel.Tree JediModel.Diff JediModel.RefactorFS

/-! ## rendering: untouched text is preserved byte for byte -/

/-- the empty node map renders the module's own code -/
theorem render_empty (t : T) : render [] t = code t := render_nil t

/-- `code t` and `render m t` are concatenations of the *same* sequence of chunks; a chunk
that is not a mapped node is identical on both sides (comments, blank lines, indentation,
line endings, a missing final newline all live in leaf prefixes/values and are copied), a
mapped chunk is replaced by exactly the string the map holds for it. -/
theorem render_local (m : Map) (t : T) :
    code t = olds (pieces m t) ∧ render m t = news (pieces m t) ∧
    ∀ p ∈ pieces m t, (p.mapped = none → p.new = p.old) ∧
      (∀ i, p.mapped = some i → m.get? i = some p.new) :=
  ⟨code_eq_olds m t, render_eq_news m t, pieces_spec m t⟩

example : render [(2, "y".toList)] (.node 0 "expr_stmt" [.leaf 1 "name" [] "x".toList,
    .leaf 2 "operator" " ".toList "=".toList, .leaf 3 "number" " # c\n".toList "1".toList])
    = "xy # c\n1".toList := by decide

/-- if no node of the tree is a key of the map nothing changes -/
theorem render_unmapped (m : Map) (t : T) (h : ∀ p ∈ pieces m t, p.mapped = none) :
    render m t = code t := by
  rw [code_eq_olds m t, render_eq_news m t]
  exact news_eq_olds_of_unmapped _ (fun p hp => (pieces_spec m t p hp).1 (h p hp))

/-! ## get_diff -/

/-- `ChangedFile.get_diff`'s normalisation never fails (`lines[-1]` exists), keeps the number
of lines, and changes the text by nothing or by exactly one appended `\n` -/
theorem get_diff_normalisation (s : Str) :
    ∃ ls, normLines s = some ls ∧ ls.length = (splitLines s).length ∧
      (ls.flatten = s ∨ ls.flatten = s ++ ['\n']) := by
  have h := normLast_isSome (splitLines s) (splitLines_ne_nil s)
  obtain ⟨ls, hls⟩ := Option.isSome_iff_exists.mp h
  refine ⟨ls, hls, normLast_length _ _ hls, ?_⟩
  have := normLast_flatten _ _ hls
  rwa [splitLines_flatten] at this

example : normLines "a\r\nb".toList = some ["a\r\n".toList, "b\n".toList] := by decide
example : normLines "a\n".toList = some ["a\n".toList, []] := by decide

/-- every valid opcode list can be formatted (`group[0]`, `group[-1]` exist) -/
theorem format_total (a b : List Line) : ∀ (gs : List Group) (i j : Nat),
    validFrom a b i j gs = true → ∃ hs, format a b gs = some hs ∧ hs.length = gs.length
  | [], _, _, _ => ⟨[], rfl, rfl⟩
  | [] :: _, _, _, h => by simp [validFrom] at h
  | (o :: os) :: gs, i, j, h => by
    simp only [validFrom, Bool.and_eq_true, decide_eq_true_eq] at h
    obtain ⟨_, hm⟩ := h
    split at hm
    · rename_i i' j' hc
      obtain ⟨hs, hf, hl⟩ := format_total a b gs i' j' hm
      obtain ⟨l, hl', _⟩ := chain_last a b os o _ _ i' j' hc
      simp only [format, groupHunk, List.head?_cons, hl', hf]
      exact ⟨_, rfl, by simp [hl]⟩
    · cases hm

/-- **the diff is right whatever the differ chose**: applying the hunks formatted from any
valid opcode list to the old lines gives exactly the new lines (context lines, removed
lines and both `@@` ranges are checked by `applyPatch`) -/
theorem patch_roundtrip_from (a b : List Line) : ∀ (gs : List Group) (i j : Nat) (hs : List Hunk),
    validFrom a b i j gs = true → format a b gs = some hs →
    applyHunks hs i j (a.drop i) = some (b.drop j)
  | [], i, j, hs, h, hf => by
    simp only [format, Option.some.injEq] at hf; subst hf
    simp only [validFrom, Bool.and_eq_true, decide_eq_true_eq] at h
    simp [applyHunks, h.2]
  | [] :: _, _, _, _, h, _ => by simp [validFrom] at h
  | (o :: os) :: gs, i, j, hs, h, hf => by
    simp only [validFrom, Bool.and_eq_true, decide_eq_true_eq] at h
    obtain ⟨⟨⟨⟨⟨hi, hj⟩, hia⟩, hjb⟩, hskip⟩, hm⟩ := h
    split at hm
    case h_2 => cases hm
    rename_i i' j' hc
    obtain ⟨l, hl, e1, e2⟩ := chain_last a b os o _ _ i' j' hc
    have cf := chain_facts a b (o :: os) o.i1 o.j1 i' j' hia hjb hc
    obtain ⟨hs', hf', _⟩ := format_total a b gs i' j' hm
    simp only [format, groupHunk, List.head?_cons, hl, hf', Option.some.injEq] at hf
    subst hf
    have ih := patch_roundtrip_from a b gs i' j' hs' hm hf'
    have r1 := start0_fmtRange o.i1 l.i2
    have r2 := start0_fmtRange o.j1 l.j2
    rw [e1] at r1; rw [e2] at r2
    have body := applyLines_chain a b (o :: os) o.i1 o.j1 i' j' hia hjb hc []
    simp only [List.append_nil, applyLines, Option.map_some] at body
    have hlen : (slice a i o.i1).length = (slice b j o.j1).length := by rw [hskip]
    rw [slice_length _ _ _ hia, slice_length _ _ _ hjb] at hlen
    unfold applyHunks
    simp only [e1, e2]
    generalize fmtRange o.i1 i' = R1 at r1
    generalize fmtRange o.j1 j' = R2 at r2
    simp only [r1.1, r2.1]
    simp only [r1.2, r2.2]
    have hdrop : List.drop (o.i1 - i) (List.drop i a) = a.drop o.i1 := by
      rw [List.drop_drop]; congr 1; omega
    rw [if_neg (by omega), if_neg (by simp [List.length_drop]; omega), if_neg (by simp; omega),
      hdrop, body]
    simp only [List.append_nil]
    rw [if_neg (by simp [slice_length _ _ _ cf.jlen]),
      if_neg (by simp [List.length_drop]; have := cf.ile; have := cf.ilen; omega)]
    have e3 : o.i1 + (i' - o.i1) = i' := by have := cf.ile; omega
    have e4 : o.j1 + (j' - o.j1) = j' := by have := cf.jle; omega
    rw [e3, e4, ih]
    simp only [Option.map_some, Option.some.injEq]
    have t1 : List.take (o.i1 - i) (List.drop i a) = slice a i o.i1 := by
      rw [take_drop_eq_slice]; congr 1; omega
    rw [t1, hskip, drop_eq_slice_append b j o.j1 hj hjb,
      drop_eq_slice_append b o.j1 j' cf.jle cf.jlen]
    simp

theorem patch_roundtrip (gs : List Group) (a b : List Line) (hs : List Hunk)
    (hv : Valid gs a b) (hf : format a b gs = some hs) : applyPatch hs a = some b := by
  have := patch_roundtrip_from a b gs 0 0 hs hv hf
  simpa [applyPatch] using this

/-- non-vacuity: difflib's grouped opcodes for `["x = 1\n", ""]` → `["y = 1\n", ""]` -/
example : Valid [[⟨.replace, 0, 1, 0, 1⟩, ⟨.equal, 1, 2, 1, 2⟩]]
    ["x = 1\n".toList, []] ["y = 1\n".toList, []] := by decide

/-- the diff is empty exactly when the differ reports no group, and then the texts are
equal; so a changed file always has a non-empty diff.  (That difflib reports no group for
equal inputs is exercised by the correspondence stream, not proved.) -/
theorem diff_touches_iff_changed (gs : List Group) (a b : List Line) (hs : List Hunk)
    (hv : Valid gs a b) (hf : format a b gs = some hs) (from_ to_ : Str) :
    (diffText from_ to_ hs = [] ↔ gs = []) ∧ (gs = [] → a = b) ∧ (a ≠ b → diffText from_ to_ hs ≠ []) := by
  have hlen : hs.length = gs.length := by
    obtain ⟨hs', hf', hl⟩ := format_total a b gs 0 0 hv
    rw [hf] at hf'; cases hf'; exact hl
  have h1 : diffText from_ to_ hs = [] ↔ gs = [] := by
    cases hs with
    | nil => simp [diffText]; exact List.length_eq_zero_iff.mp hlen.symm
    | cons h hs =>
      constructor
      · intro e
        unfold diffText at e
        exact absurd e (by
          show rstripSpaces ("--- ".toList ++ _) ≠ []
          exact rstripSpaces_ne_nil '-' _ (by decide))
      · intro e; subst e; simp at hlen
  have h2 : gs = [] → a = b := by
    intro e; subst e
    unfold Valid at hv
    simp only [validFrom, Bool.and_eq_true, decide_eq_true_eq] at hv
    simpa using hv.2
  exact ⟨h1, h2, fun hne e => hne (h2 (h1.mp e))⟩

/-! ## the file system: nothing changes before apply, apply does what was announced -/

/-- `get_diff / get_new_code / get_changed_files / get_renames` leave the file system alone -/
theorem inspect_pure (nl : Option String) (ls : Str) (order : List String) (r : Refactoring)
    (q : Req) (fs : FS) (hq : q ≠ .apply) : (step nl ls order r q fs).fs = fs := by
  cases q <;> first | rfl | exact absurd rfl hq

/-- what `open(p, 'w', newline=<as in the source>)` writes is the text itself, on every
platform (whatever `os.linesep` is) -/
theorem write_preserves_bytes (linesep s : Str) : xlate Gen.C07.applyNewline linesep s = s :=
  xlate_id linesep s

/-- the phase order of `Refactoring.apply` found in the source is one of the two the model
knows: writes then renames, with or without the refusal for a path-less `Script` in front -/
theorem apply_order_known :
    Gen.C07.applyOrder = ["writes", "renames"] ∨
    Gen.C07.applyOrder = ["refuse-pathless", "writes", "renames"] := by decide

/-- the refusal in front does nothing for a result whose changes all have paths -/
theorem apply_order_canon (ls : Str) (r : Refactoring) (fs : FS)
    (hall : ∀ c ∈ r.changes, c.path ≠ none) :
    step Gen.C07.applyNewline ls Gen.C07.applyOrder r .apply fs
      = step Gen.C07.applyNewline ls ["writes", "renames"] r .apply fs := by
  rcases apply_order_known with h | h <;> rw [h]
  have hany : r.changes.any (fun c => c.path.isNone) = false := by
    rw [List.any_eq_false]
    intro c hc
    have := hall c hc
    cases hp : c.path with
    | none => exact absurd hp this
    | some p => simp
  show applyPhases _ _ _ ("refuse-pathless" :: ["writes", "renames"]) _ = _
  rw [applyPhases]
  simp [hany, step]

/-- `Refactoring.apply` with the phase order and `newline=` found in the source: when every
change has a path (distinct dict keys), apply succeeds, every changed path holds exactly
`get_new_code()`, every other path is untouched — and then the renames are performed. -/
theorem apply_spec (ls : Str) (r : Refactoring) (fs : FS)
    (hall : ∀ c ∈ r.changes, c.path ≠ none)
    (hnd : r.changes.Pairwise (fun c d => c.path ≠ d.path)) :
    ∃ mid : FS,
      step Gen.C07.applyNewline ls Gen.C07.applyOrder r .apply fs = ⟨applyRenames r.renames mid, none⟩ ∧
      (∀ c ∈ r.changes, ∀ p, c.path = some p → mid p = some (newCode c)) ∧
      (∀ q, (∀ c ∈ r.changes, c.path ≠ some q) → mid q = fs q) := by
  refine ⟨(applyWrites (some "") ls r.changes fs).fs, ?_, ?_, ?_⟩
  · have he := applyWrites_err_none (some "") ls r.changes fs hall
    rw [apply_order_canon ls r fs hall]
    simp only [step, Gen.C07.applyNewline, applyPhases, if_true]
    cases hw : applyWrites (some "") ls r.changes fs with
    | mk fs' err =>
      rw [hw] at he; simp only at he; subst he
      simp [applyPhases]
  · intro c hc p hp
    rw [applyWrites_written (some "") ls r.changes fs c p hnd hall hc hp, xlate_id]
  · intro q hq
    exact applyWrites_untouched (some "") ls q r.changes fs hq

/-- without renames the final state *is* that state -/
theorem apply_spec_no_renames (ls : Str) (r : Refactoring) (fs : FS)
    (hall : ∀ c ∈ r.changes, c.path ≠ none)
    (hnd : r.changes.Pairwise (fun c d => c.path ≠ d.path)) (hr : r.renames = []) :
    let out := step Gen.C07.applyNewline ls Gen.C07.applyOrder r .apply fs
    out.err = none ∧
    (∀ c ∈ r.changes, ∀ p, c.path = some p → out.fs p = some (newCode c)) ∧
    (∀ q, (∀ c ∈ r.changes, c.path ≠ some q) → out.fs q = fs q) := by
  obtain ⟨mid, h, h1, h2⟩ := apply_spec ls r fs hall hnd
  simp only [h, hr, applyRenames]
  exact ⟨trivial, h1, h2⟩

/-- one rename: the target holds what the source held (after the writes), the source is
gone, unrelated paths are untouched -/
theorem rename_spec (fs : FS) (old new : Path) :
    rename fs old new new = fs old ∧
    (∀ q, ¬ new <+: q → old <+: q → rename fs old new q = none) ∧
    (∀ q, ¬ new <+: q → ¬ old <+: q → rename fs old new q = fs q) ∧
    (∀ rest, rename fs old new (new ++ rest) = fs (old ++ rest)) := by
  refine ⟨by simp [rename], ?_, ?_, ?_⟩
  · intro q h1 h2; simp [rename, h1, h2]
  · intro q h1 h2; simp [rename, h1, h2]
  · intro rest; simp [rename]

/-- with the refusal in front of the loops (`"refuse-pathless"` first in the phase order, the
proposed fix), an `apply()` refused because a change has no path has written nothing -/
theorem apply_refusal_writes_nothing_partial (nl : Option String) (ls : Str) (rest : List String)
    (r : Refactoring) (fs : FS) (h : ∃ c ∈ r.changes, c.path = none) :
    step nl ls ("refuse-pathless" :: rest) r .apply fs = ⟨fs, some .refactoringError⟩ := by
  have hany : r.changes.any (fun c => c.path.isNone) = true := by
    obtain ⟨c, hc, hn⟩ := h
    exact List.any_eq_true.mpr ⟨c, hc, by simp [hn]⟩
  show applyPhases _ _ _ ("refuse-pathless" :: rest) _ = _
  rw [applyPhases]
  simp [hany]

/-- FULL statement "a refused apply() leaves the file system as it was" is false for the phase
order `["writes", "renames"]` (the source as it is: `ChangedFile.apply` of the entry without a
path raises only when the loop gets to it): every change in front of the path-less one has been
written. Reproduced on the real code (known finding C07-pathless-apply-half-applied). -/
theorem apply_refusal_half_applied_witness (ls : Str) (c : FileChange) (p : Path)
    (cs : List FileChange) (rs : List (Path × Path)) (fs : FS)
    (hp : c.path = some p) (hnone : ∃ d ∈ cs, d.path = none) (hnd : ∀ d ∈ cs, d.path ≠ some p) :
    (step (some "") ls ["writes", "renames"] ⟨c :: cs, rs⟩ .apply fs).err = some .refactoringError ∧
    (step (some "") ls ["writes", "renames"] ⟨c :: cs, rs⟩ .apply fs).fs p = some (newCode c) := by
  have he := applyWrites_pathless (some "") ls cs (write fs p (xlate (some "") ls (newCode c))) hnone
  have hu := applyWrites_untouched (some "") ls p cs (write fs p (xlate (some "") ls (newCode c))) hnd
  have hw : applyWrites (some "") ls (c :: cs) fs
      = applyWrites (some "") ls cs (write fs p (xlate (some "") ls (newCode c))) := by
    rw [applyWrites]; simp [hp]
  simp only [step, applyPhases, if_true, hw]
  cases hw2 : applyWrites (some "") ls cs (write fs p (xlate (some "") ls (newCode c))) with
  | mk fs' err =>
    rw [hw2] at he hu; simp only at he hu; subst he
    refine ⟨rfl, ?_⟩
    show fs' p = some (newCode c)
    rw [hu]; simp [write, xlate_id]

example : ∃ d ∈ [(⟨none, .leaf 0 "name" [] ['x'], []⟩ : FileChange)], d.path = none :=
  ⟨⟨none, .leaf 0 "name" [] ['x'], []⟩, List.mem_singleton.mpr rfl, rfl⟩

/-- a `Script` without path: `apply()` refuses with `RefactoringError` -/
theorem apply_refuses_pathless (ls : Str) (r : Refactoring) (fs : FS)
    (h : ∃ c ∈ r.changes, c.path = none) :
    (step Gen.C07.applyNewline ls Gen.C07.applyOrder r .apply fs).err = some .refactoringError := by
  rcases apply_order_known with ho | ho <;> rw [ho]
  · have he := applyWrites_pathless (some "") ls r.changes fs h
    simp only [step, Gen.C07.applyNewline, applyPhases, if_true]
    cases hw : applyWrites (some "") ls r.changes fs with
    | mk fs' err =>
      rw [hw] at he; simp only at he; subst he
      rfl
  · rw [apply_refusal_writes_nothing_partial _ ls _ r fs h]

/-! ## the name a changed file is announced under (`+++` header) -/

/- FULL (false of the unchanged code, see `to_path_string_prefix_witness`):
   toPath Gen.C07.toPathMode [(old, new)] p = renamedPath old new p   for all paths. -/

/-- `rename` really moves `q` to `renamedPath old new q` -/
theorem rename_moves (fs : FS) (old new q : Path) (h : old <+: q) :
    rename fs old new (renamedPath old new q) = fs q := by
  obtain ⟨rest, rfl⟩ := h
  simp [renamedPath, rename]

/-- component-wise `calculate_to_path` (the proposed fix) announces exactly that name -/
theorem to_path_components (old new p : Path) :
    toPath "components" [(old, new)] p = renamedPath old new p := by
  simp [toPath]

/-- the code as it is replaces a *string* prefix: untouched when the renamed path is not a
string prefix, rewritten when it is — also when the match ends in the middle of a component -/
theorem to_path_string_partial (f t p : Str) :
    (f.isPrefixOf p = false → toPathStr [(f, t)] p = p) ∧
    (∀ rest, toPathStr [(f, t)] (f ++ rest) = t ++ rest) := by
  constructor
  · intro h
    have h' : ¬ f <+: p := by
      intro hp; rw [← List.isPrefixOf_iff_prefix] at hp; rw [hp] at h; cases h
    simp [toPathStr, h']
  · intro rest
    simp [toPathStr]

/-- counter-witness, reproduced on the real code: renaming package `pkg` to `pk` announces the
sibling module `pkgextra.py` as `pkextra.py` -/
theorem to_path_string_prefix_witness :
    toPathStr [("/p/pkg".toList, "/p/pk".toList)] "/p/pkgextra.py".toList = "/p/pkextra.py".toList := by
  decide

theorem to_path_mode_known : Gen.C07.toPathMode ∈ ["string-prefix", "components"] := by decide

/-! ### `calculate_to_path` on the key of a `Script` without a path (`None`) -/

/-- the key `None` stays `None`, whatever file renames the refactoring carries: for an unsaved
buffer `get_changed_files()` - and `get_diff()`, `apply()`, which call it - does not run into
`None.relative_to(..)`.  (`toPathNoneGuard` is read from the source statement by statement.) -/
theorem to_path_none_stays_none (rs : List (Path × Path)) :
    calcToPath Gen.C07.toPathNoneGuard Gen.C07.toPathLoop Gen.C07.toPathMode rs none = .ok none := by
  simp [calcToPath, Gen.C07.toPathNoneGuard]

/-- `calculate_to_path` answers for every key of `file_to_node_changes`, and only `None` gives `None` -/
theorem to_path_total (rs : List (Path × Path)) (p : Option Path) :
    ∃ q, calcToPath Gen.C07.toPathNoneGuard Gen.C07.toPathLoop Gen.C07.toPathMode rs p = .ok q ∧
      (p = none ↔ q = none) := by
  cases p with
  | none => exact ⟨none, to_path_none_stays_none rs, by simp⟩
  | some p => exact ⟨_, rfl, by simp⟩

example : calcToPath true "fold" "components"
    [(["/", "p", "modx.py"], ["/", "p", "mody.py"])] (some ["/", "p", "modx.py"])
    = .ok (some ["/", "p", "mody.py"]) := by simp [calcToPath, toPath, renamedPath]

/-- counter-witness for the helper without the guard: one file rename is enough -/
theorem to_path_unguarded_witness :
    calcToPath false "first" "components" [(["/", "p", "modx.py"], ["/", "p", "mody.py"])] none
      = .error .attributeError ∧
    calcToPath false "fold" "components" [] none = .ok none := by
  constructor <;> rfl

theorem to_path_loop_known : Gen.C07.toPathLoop ∈ ["fold", "first"] := by decide

/-- for one rename, returning at the first match and going on over all renames are the same:
the component-wise new name -/
theorem to_path_some_single (g : Bool) (loop : String) (o n p : Path) :
    calcToPath g loop "components" [(o, n)] (some p) = .ok (some (renamedPath o n p)) := by
  by_cases h : loop = "first" <;> simp [calcToPath, h, toPathFirst, toPath, renamedPath]

/-! ## the names in the diff: `--- a` / `+++ b` headers and the `rename from / rename to` lines -/

/-- the `---` header of a file section is `_from_path` (the key of `get_changed_files()`),
relative to the project when it is inside, else as it is; `''` for a path-less Script.
The attribute names in `Gen.C07.diffFromHeader` are the ones written in the source. -/
theorem diff_header_from (project : Path) (fromP toP : Option Path) :
    headerPath Gen.C07.diffFromHeader project fromP toP = .ok (displayPath project fromP) := by
  cases fromP with
  | none => simp [headerPath, Gen.C07.diffFromHeader, cfAttr, displayPath]
  | some p =>
    by_cases h : project <+: p <;>
      simp [headerPath, Gen.C07.diffFromHeader, cfAttr, displayPath, displayParts, strOpt, h]

/-- the `+++` header is `_to_path` (where the renames of the same refactoring put the file),
shown by the same rule — in *both* branches: also a file outside the project, whose path
cannot be made relative, is announced under its new name -/
theorem diff_header_to (project : Path) (fromP toP : Option Path) :
    headerPath Gen.C07.diffToHeader project fromP toP = .ok (displayPath project toP) := by
  cases toP with
  | none => simp [headerPath, Gen.C07.diffToHeader, cfAttr, displayPath]
  | some p =>
    by_cases h : project <+: p <;>
      simp [headerPath, Gen.C07.diffToHeader, cfAttr, displayPath, displayParts, strOpt, h]

/-- the section of a buffer without a path names no file: both headers are the empty name,
also when the refactoring carries file renames -/
theorem pathless_section_names_nothing (project : Path) (rs : List (Path × Path)) :
    ∃ toP, calcToPath Gen.C07.toPathNoneGuard Gen.C07.toPathLoop Gen.C07.toPathMode rs none = .ok toP ∧
      headerPath Gen.C07.diffFromHeader project none toP = .ok [] ∧
      headerPath Gen.C07.diffToHeader project none toP = .ok [] := by
  refine ⟨none, to_path_none_stays_none rs, ?_, ?_⟩
  · rw [diff_header_from]; rfl
  · rw [diff_header_to]; rfl

/-- non-vacuity: a file outside the project that is moved; the two headers differ -/
example : headerPath Gen.C07.diffToHeader ["/", "t", "proj"]
      (some ["/", "t", "lib", "pkg", "mod.py"]) (some ["/", "t", "lib", "newpkg", "mod.py"])
    = .ok "/t/lib/newpkg/mod.py".toList ∧
    headerPath Gen.C07.diffFromHeader ["/", "t", "proj"]
      (some ["/", "t", "lib", "pkg", "mod.py"]) (some ["/", "t", "lib", "newpkg", "mod.py"])
    = .ok "/t/lib/pkg/mod.py".toList := by constructor <;> rfl

/-- a shown path, read back against the project, is the path itself — inside the project
(relative form) and outside it (absolute form) -/
theorem resolve_display (project p : Path) (hproj : AbsPath project) (hp : AbsPath p) :
    resolveParts project (displayParts project p) = p := by
  unfold displayParts resolveParts
  by_cases h : project <+: p
  · obtain ⟨rest, rfl⟩ := h
    simp only [List.prefix_append, if_true, List.drop_left]
    have hne : rest.head? ≠ some "/" := by
      intro hh
      obtain ⟨hh1, hh2⟩ := hp
      cases project with
      | nil => simp [AbsPath] at hproj
      | cons a pt =>
        apply hh2
        simp only [List.cons_append, List.tail_cons, List.mem_append]
        right
        cases rest with
        | nil => simp at hh
        | cons b rt => simp at hh; simp [hh]
    simp [hne]
  · simp [h, hp.1]

example : AbsPath ["/", "t", "proj"] ∧ AbsPath ["/", "t", "lib", "pkg", "mod.py"] ∧
    displayParts ["/", "t", "proj"] ["/", "t", "lib", "pkg", "mod.py"] = ["/", "t", "lib", "pkg", "mod.py"] ∧
    displayParts ["/", "t", "proj"] ["/", "t", "proj", "a", "m.py"] = ["a", "m.py"] := by
  simp [AbsPath, displayParts]

/-- **a moved file is announced under the name it has afterwards**: for a changed file at `p`
below a renamed path, the `+++` header is the rendering of `renamedPath old new p` and that
name, read back against the project, is where `rename` leaves the file's contents.
(`toPathMode`, the header attributes come from the source.) -/
theorem announced_name_holds_contents (project old new p : Path) (fromP : Option Path) (fs : FS)
    (hproj : AbsPath project) (hto : AbsPath (renamedPath old new p)) (hmoved : old <+: p) :
    headerPath Gen.C07.diffToHeader project fromP (some (toPath Gen.C07.toPathMode [(old, new)] p))
      = .ok (pathStr (displayParts project (renamedPath old new p))) ∧
    rename fs old new (resolveParts project (displayParts project (renamedPath old new p))) = fs p := by
  constructor
  · rw [diff_header_to]
    simp [displayPath, toPath, Gen.C07.toPathMode]
  · rw [resolve_display project _ hproj hto]
    exact rename_moves fs old new p hmoved

/-- a changed file that no rename touches keeps its name: both headers show `p` and the file
is still there after the renames -/
theorem announced_name_unmoved (project old new p : Path) (fs : FS)
    (hproj : AbsPath project) (hp : AbsPath p) (h1 : ¬ old <+: p) (h2 : ¬ new <+: p) :
    headerPath Gen.C07.diffToHeader project (some p) (some (toPath Gen.C07.toPathMode [(old, new)] p))
      = headerPath Gen.C07.diffFromHeader project (some p) (some (toPath Gen.C07.toPathMode [(old, new)] p)) ∧
    rename fs old new (resolveParts project (displayParts project p)) = fs p := by
  constructor
  · rw [diff_header_to, diff_header_from]
    simp [toPath, Gen.C07.toPathMode, renamedPath, h1]
  · rw [resolve_display project _ hproj hp]
    simp [rename, h1, h2]

example : renamedPath ["/", "t", "lib", "pkg"] ["/", "t", "lib", "newpkg"] ["/", "t", "lib", "pkg", "mod.py"]
    = ["/", "t", "lib", "newpkg", "mod.py"] ∧ ["/", "t", "lib", "pkg"] <+: ["/", "t", "lib", "pkg", "mod.py"] := by
  decide

/-- the `rename from … / rename to …` lines of `Refactoring.get_diff` name the old path, then
the new path, each by the same display rule (format string, argument order and
`_try_relative_to` read from the source) -/
theorem rename_lines_name_renames (project o n : Path) :
    renameLine Gen.C07.tryRelativeToSel Gen.C07.renameLinePieces Gen.C07.renameLineArgs project (o, n) =
      "rename from ".toList ++ pathStr (displayParts project o) ++ "\nrename to ".toList
        ++ pathStr (displayParts project n) ++ "\n".toList := by
  simp [renameLine, Gen.C07.tryRelativeToSel, Gen.C07.renameLinePieces, Gen.C07.renameLineArgs,
    tryRelativeTo, displayParts]

example : renameLines Gen.C07.tryRelativeToSel Gen.C07.renameLinePieces Gen.C07.renameLineArgs ["/", "t", "proj"]
    [(["/", "t", "lib", "ns"], ["/", "t", "lib", "nn"]), (["/", "t", "proj", "ns"], ["/", "t", "proj", "nn"])]
    = "rename from /t/lib/ns\nrename to /t/lib/nn\nrename from ns\nrename to nn\n".toList := by decide

/-! ## exception contract -/

/-- shape of the source the model relies on (a source edit breaks this) -/
theorem source_shape :
    Gen.C07.diffKeepends = true ∧ Gen.C07.diffRstrip = " " ∧
    Gen.C07.diffAppendsNewlineTo = ["new_lines[-1]", "old_lines[-1]"] ∧
    Gen.C07.entryPointsValidateLineColumn = true ∧
    Gen.C07.refactoringErrorBases = ["_JediError"] := by decide

/-- the refactoring code raises no exception class of its own besides `RefactoringError`
(`assert` / `NotImplementedError` guard states the code declares impossible) -/
theorem raised_classes_allowed :
    ∀ c ∈ Gen.C07.raisedClasses, c ∈ ["RefactoringError", "ValueError", "NotImplementedError", "assert"] := by
  decide

/- FULL (false of the unchanged code, see `until_pos_index_error_witness`):
   theorem until_pos_validated … : untilPos Gen.C07.untilValidated n len line ul uc ≠ .error .indexError
   for all inputs. -/

/-- with the range check in place the prologue fails only with `ValueError` -/
theorem until_pos_validated (n : Nat) (len : Nat → Nat) (line : Nat) (ul uc : Option Int) :
    untilPos true n len line ul uc ≠ .error .indexError := by
  unfold untilPos
  split
  · simp
  · simp
  · unfold untilIndex
    split
    · simp
    · rename_i hv
      simp at hv
      have : pyIndex n (ul.getD ↑line - 1) = some (ul.getD ↑line - 1).toNat := by
        unfold pyIndex; rw [if_pos (by omega), if_pos (by omega)]
      rw [this]; simp

/-- the code as it is: no `IndexError` provided the `until` line (when it is used as an
index, i.e. no `until_column` was given) is a valid python index of the line list -/
theorem until_pos_partial (n : Nat) (len : Nat → Nat) (line : Nat) (ul uc : Option Int)
    (h : uc ≠ none ∨ (-(n : Int) < ul.getD line ∧ ul.getD line ≤ n)) :
    untilPos Gen.C07.untilValidated n len line ul uc ≠ .error .indexError := by
  unfold untilPos
  split
  · simp
  · simp
  · rcases h with h | h
    · exact absurd rfl h
    · unfold untilIndex
      split
      · simp
      · have : (pyIndex n (ul.getD ↑line - 1)).isSome := by
          unfold pyIndex; split
          · rw [if_pos (by omega)]; rfl
          · rw [if_pos (by omega)]; rfl
        obtain ⟨k, hk⟩ := Option.isSome_iff_exists.mp this
        rw [hk]; simp

example : (0 : Int) < (none : Option Int).getD 1 := by decide

/-- counter-witness to the FULL statement, F3: `Script("x = 1 + 2\n").extract_variable(1, 4,
new_name='y', until_line=5)` — two code lines, `until_line = 5`, no `until_column` -/
theorem until_pos_index_error_witness :
    untilPos false 2 (fun _ => 0) 1 (some 5) none = .error .indexError ∧
    untilPos false 2 (fun _ => 0) 1 (some (-3)) none = .error .indexError := by
  constructor <;> rfl

end JediModel.Props.C07

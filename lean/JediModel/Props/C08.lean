import JediModel.Lemmas.Caches
import JediModel.Gen.C08
/-! # C08 — Answers do not depend on the editing history of a buffer

Property theorems over `Model/Caches` (one process; parser cache items with generation numbers,
module nodes mutated in place, the two derived caches keyed weakly on the item, the per-Script memo,
the signature time cache with a logical clock).  `parse` (from-scratch parse = what the diff
parser is promised to produce) and `compute` (what a derived lookup computes on a tree) are
universally quantified parameters.  All theorems are about `Gen.C08.cfg`, the design decisions the
translator reads from the source on every run. -/
namespace JediModel.Props.C08
open JediModel.Caches

/-- the source has the design decisions the proofs need -/
theorem cfg_sound : JediModel.Gen.C08.cfg.Sound := by
  constructor <;> rfl

section
variable {L T K V : Type} [DecidableEq L] [DecidableEq K]
variable (parse : L → T) (compute : T → K → V)

/-- **derived_cache_inv.**  In every state reachable by any history of Script constructions (any
mix of paths and path-less buffers), lookups, signature lookups, clock ticks and collections:
* every entry of a derived cache stored under the generation of an item that is still in the
  parser cache equals the direct computation on a from-scratch parse of that item's lines, and
  entries under any other generation are unreachable (generations are never reused);
* the item under the newest Script's key carries exactly the lines of the current text, its node is
  the Script's module node, and that node's present content is the from-scratch parse of the text;
* the per-Script memo only holds values computed on the current text. -/
theorem derived_cache_inv (h : List (Op L K)) :
    let st := run JediModel.Gen.C08.cfg parse compute (init : State L T K V) h
    (∀ g k v, st.derived.get? (g, k) = some v →
        g < st.nextGen ∧ ∀ key it, st.parser.get? key = some it → it.gen = g →
          v = compute (parse it.lines) k) ∧
    (∀ key it, st.parser.get? key = some it → it.gen < st.nextGen) ∧
    (∀ sc, st.cur = some sc → ∃ it, st.parser.get? sc.key = some it ∧ it.obj = sc.obj ∧
        st.heap.get? sc.obj = some (parse it.lines) ∧ curLines st = some it.lines) ∧
    (∀ sc it, st.cur = some sc → st.parser.get? sc.key = some it →
        ∀ k v, st.memo.get? k = some v → v = compute (parse it.lines) k) := by
  intro st
  have hi : Inv parse compute st := run_inv _ parse compute cfg_sound h _ (inv_init parse compute)
  refine ⟨hi.derivedOk, fun key it h => (hi.heapOk key it h).2.1, ?_, hi.memoOk⟩
  intro sc hsc
  obtain ⟨it, hit, hobj⟩ := hi.curOk sc hsc
  refine ⟨it, hit, hobj, ?_, ?_⟩
  · rw [← hobj]; exact (hi.heapOk _ it hit).1
  · simp [curLines, hsc, hit]

/-- the text of the newest Script is the last text the history constructed a Script with -/
theorem current_text (h t : List (Op L K)) (key : Option String) (s : L) (ptime : Option Nat)
    (ht : ∀ o ∈ t, Op.isScript o = false) :
    curLines (run JediModel.Gen.C08.cfg parse compute (init : State L T K V)
      (h ++ Op.script key s ptime :: t)) = some s := by
  rw [run_append]
  have hi := run_inv _ parse compute cfg_sound h _ (inv_init (L := L) (K := K) parse compute)
  have hs := script_spec JediModel.Gen.C08.cfg parse compute cfg_sound _ key s ptime hi
  show curLines (run _ parse compute (step _ parse compute _ (Op.script key s ptime)) t) = some s
  exact run_curLines _ parse compute cfg_sound t _ s hs.1 hs.2 ht

/- FULL (false for the source as it stands, see `stale_signature_cursor_below_bracket`):
   for every history `h`, text `s`, script-free activity `t` and EVERY query `q`
     answer (h ++ script key s :: t) q = answer [script key s] q.
   It fails for `get_signatures` with the cursor on a later line than the call's bracket: there
   `cache_signatures` builds the key `(path, None, bracket position)`, which is equal across
   Scripts, and serves the value set of the old text for `call_signatures_validity` seconds.
   It is proved below (`history_independent_when_unmatched_not_cached`) for the source with the
   proposed fix (no caching when the regex did not match). -/

/-- **history_independent_partial.**  For every edit history `h` (any length, any mix of buffers,
any queries, ticks and collections in between), every text `s` asked about through a new Script,
every further script-free activity `t` of that Script and every query `q` routed through the
derived caches, the memo and the signature cache *whose signature lookups all have a matching
regex* (cursor on the bracket's line, or another `(` between bracket line and cursor): the answer is
the one a fresh process gives for `s` — the query evaluated on a from-scratch parse — and it is an
answer (no internal error). -/
theorem history_independent_partial {A : Type} (h t : List (Op L K)) (key : Option String) (s : L)
    (ptime ptime' : Option Nat) (ht : ∀ o ∈ t, Op.isScript o = false) (q : Q K V A)
    (hq : q.Matched) :
    answer JediModel.Gen.C08.cfg parse compute (h ++ Op.script key s ptime :: t) q
      = answer JediModel.Gen.C08.cfg parse compute [Op.script key s ptime'] q
    ∧ answer JediModel.Gen.C08.cfg parse compute (h ++ Op.script key s ptime :: t) q
      = some (evalQ (compute (parse s)) q) := by
  have key1 : ∀ (h : List (Op L K)) (pt : Option Nat) (t : List (Op L K)),
      (∀ o ∈ t, Op.isScript o = false) →
      answer JediModel.Gen.C08.cfg parse compute (h ++ Op.script key s pt :: t) q
        = some (evalQ (compute (parse s)) q) := by
    intro h pt t ht
    unfold answer
    exact runQ_spec _ parse compute cfg_sound q _ s
      (run_inv _ parse compute cfg_sound _ _ (inv_init parse compute))
      (current_text parse compute h t key s pt ht) (Or.inl hq)
  refine ⟨?_, key1 h ptime t ht⟩
  rw [key1 h ptime t ht]
  have := key1 [] ptime' [] (by simp)
  simpa using this.symm

/-- nothing of an earlier text survives: two histories that end in the same text agree on every
query with matching signature lookups, whatever came before (deleted or moved code included) -/
theorem no_trace_of_earlier_text_partial {A : Type} (h₁ h₂ : List (Op L K)) (key : Option String)
    (s : L) (p₁ p₂ : Option Nat) (q : Q K V A) (hq : q.Matched) :
    answer JediModel.Gen.C08.cfg parse compute (h₁ ++ [Op.script key s p₁]) q
      = answer JediModel.Gen.C08.cfg parse compute (h₂ ++ [Op.script key s p₂]) q := by
  rw [(history_independent_partial parse compute h₁ [] key s p₁ none (by simp) q hq).2,
      (history_independent_partial parse compute h₂ [] key s p₂ none (by simp) q hq).2]

/-- **script_tree_from_parser.**  Where a Script takes its tree from (`Script.__init__`, the decision
`treeMemo` read from the source): in EVERY state of the process, for every key and text, no
remembered node object is used — the construction asks parso (`parseBuffer`: parser-cache item,
diff parser or from-scratch parse) and the Script's module node is parso's answer.  This is what
makes the premise "the incrementally re-parsed tree equals a from-scratch parse" sufficient for
`derived_cache_inv`: the tree under the newest Script is never one that parso was not asked about
for the current text. -/
theorem script_tree_from_parser (st : State L T K V) (key : Option String) (s : L)
    (ptime : Option Nat) :
    remembered JediModel.Gen.C08.cfg st key s = none ∧
    obtainTree JediModel.Gen.C08.cfg parse st key s ptime
      = parseBuffer JediModel.Gen.C08.cfg parse st key s ptime := by
  refine ⟨?_, obtainTree_eq_parseBuffer _ parse cfg_sound.nomemo st key s ptime⟩
  unfold remembered
  cases key <;> simp [cfg_sound.nomemo]

/-- **undo_redo_independent_partial.**  Returning to an earlier text (undo, redo, revert, toggling a
line: `… a … b₁ … bₙ … a`, any number of other texts, buffers, queries, ticks and collections in
between, any distance): every query with matching signature lookups is answered as by a process
that has only ever seen `a`.  (Partial for the same reason as `history_independent_partial`.) -/
theorem undo_redo_independent_partial {A : Type} (h mid : List (Op L K)) (key : Option String)
    (a : L) (p₁ p₂ p₃ : Option Nat) (q : Q K V A) (hq : q.Matched) :
    answer JediModel.Gen.C08.cfg parse compute
        (h ++ Op.script key a p₁ :: mid ++ [Op.script key a p₂]) q
      = answer JediModel.Gen.C08.cfg parse compute [Op.script key a p₃] q := by
  have := (history_independent_partial parse compute (h ++ Op.script key a p₁ :: mid) []
    key a p₂ p₃ (by simp) q hq).1
  simpa [List.append_assoc] using this

/-- the FULL statement holds for every query once unmatched keys are not cached (the proposed fix
`proposed_fixes/c08-signature-cache-none-key.diff`); stated for the source's other decisions -/
theorem history_independent_when_unmatched_not_cached {A : Type} (h t : List (Op L K))
    (key : Option String) (s : L) (ptime ptime' : Option Nat)
    (ht : ∀ o ∈ t, Op.isScript o = false) (q : Q K V A) :
    answer { JediModel.Gen.C08.cfg with sigCachesUnmatched := false } parse compute
        (h ++ Op.script key s ptime :: t) q
      = answer { JediModel.Gen.C08.cfg with sigCachesUnmatched := false } parse compute
        [Op.script key s ptime'] q := by
  have hs : Cfg.Sound { JediModel.Gen.C08.cfg with sigCachesUnmatched := false } := by
    constructor <;> rfl
  have key1 : ∀ (h : List (Op L K)) (pt : Option Nat) (t : List (Op L K)),
      (∀ o ∈ t, Op.isScript o = false) →
      answer { JediModel.Gen.C08.cfg with sigCachesUnmatched := false } parse compute
          (h ++ Op.script key s pt :: t) q = some (evalQ (compute (parse s)) q) := by
    intro h pt t ht
    unfold answer
    have hi := run_inv _ parse compute hs (h ++ Op.script key s pt :: t) _
      (inv_init (L := L) (K := K) parse compute)
    refine runQ_spec _ parse compute hs q _ s hi ?_ (Or.inr rfl)
    rw [run_append]
    have hi0 := run_inv _ parse compute hs h _ (inv_init (L := L) (K := K) parse compute)
    have hsp := script_spec _ parse compute hs _ key s pt hi0
    exact run_curLines _ parse compute hs t _ s hsp.1 hsp.2 ht
  rw [key1 h ptime t ht]
  have := key1 [] ptime' [] (by simp)
  simpa using this.symm

end

/-! ## witnesses: which design decision each theorem rests on

Concrete instance: lines, trees, keys and values are numbers, `parse = id`, a lookup returns the
tree it was computed on (so a stale answer is visible as the old text's number). -/

abbrev real := JediModel.Gen.C08.cfg
def P : Nat → Nat := id
def C : Nat → Nat → Nat := fun t k => 100 * t + k
def ask1 : Q Nat Nat Nat := .ask 7 .done
def sig1 : Q Nat Nat Nat := .askSig 5 true 7 .done
def sig0 : Q Nat Nat Nat := .askSig 5 false 7 .done
def p : Option String := some "/b.py"

/-- non-vacuity of `history_independent`: a history with a hit in the derived cache, a
replacement of the item and an undo -/
example : answer real P C [.script p 1 none, .lookup 7, .script p 2 none, .lookup 7, .gc,
    .script p 1 none, .sigq 5 true 7, .tick 1, .script p 2 none] ask1 = some 207 := by decide

/-- **stale_if_keyed_on_tree.**  The same machine with the derived caches keyed on the module node
(which the diff parser updates in place, so it is the same object for every version of the buffer)
is *not* history independent: after `a`, lookup, `b` the lookup still answers for `a`. -/
theorem stale_if_keyed_on_tree :
    answer { real with keyOnTree := true } P C [.script p 1 none, .lookup 7, .script p 2 none] ask1
      = some 107
    ∧ answer { real with keyOnTree := true } P C [.script p 2 none] ask1 = some 207 := by decide

/-- the signature cache is harmless only because its key contains a fresh `re.Match` object: with a
key made of (path, text before the bracket, bracket position) the old signature is served for
`validity` ticks -/
theorem stale_if_sig_key_comparable :
    answer { real with sigKeyFresh := false } P C [.script p 1 none, .sigq 5 true 7, .tick 1, .script p 2 none] sig1
      = some 107
    ∧ answer real P C [.script p 1 none, .sigq 5 true 7, .tick 1, .script p 2 none] sig1 = some 207 := by decide

/-- **counter-witness to the FULL statement** (reproduced on the real code, known finding
`C08-signature-cache-none-key`): `get_signatures` with the cursor below the bracket's line caches
under `(path, None, bracket position)`; one tick later a new Script for an edited buffer still gets
the value set of the old text.  After `validity` ticks the entry has expired, and a path-less
buffer is never cached. -/
theorem stale_signature_cursor_below_bracket :
    answer { real with sigCachesUnmatched := true } P C
        [.script p 1 none, .sigq 5 false 7, .tick 1, .script p 2 none] sig0 = some 107
    ∧ answer { real with sigCachesUnmatched := true } P C [.script p 2 none] sig0 = some 207
    ∧ answer { real with sigCachesUnmatched := true } P C
        [.script p 1 none, .sigq 5 false 7, .tick real.validity, .script p 2 none] sig0 = some 207
    ∧ answer { real with sigCachesUnmatched := true } P C
        [.script none 1 none, .sigq 5 false 7, .tick 1, .script none 2 none] sig0 = some 207 := by
  decide

/-- **stale_if_script_remembers_trees.**  The same machine with a table of the module nodes of the
last `n` (path, text) states in `Script.__init__` ("undo/redo" memo; parso is not asked on a hit) is
not history independent although parso keeps its promise at every call: the remembered object is
the one node the diff parser updates in place, so after `a, b, a` the Script for `a` holds the tree
of `b`.  Exactly the histories that return to a text still in the table are affected: no revisit,
a path-less buffer, or a table too small to still hold `a` give the fresh answer. -/
theorem stale_if_script_remembers_trees :
    answer { real with treeMemo := 8 } P C [.script p 1 none, .script p 2 none, .script p 1 none] ask1
      = some 207
    ∧ answer { real with treeMemo := 8 } P C [.script p 1 none] ask1 = some 107
    ∧ answer real P C [.script p 1 none, .script p 2 none, .script p 1 none] ask1 = some 107
    ∧ answer { real with treeMemo := 8 } P C [.script p 1 none, .script p 2 none, .script p 3 none] ask1
      = some 307
    ∧ answer { real with treeMemo := 8 } P C [.script none 1 none, .script none 2 none, .script none 1 none] ask1
      = some 107
    ∧ answer { real with treeMemo := 1 } P C [.script p 1 none, .script p 2 none, .script p 1 none] ask1
      = some 107
    ∧ answer { real with treeMemo := 8 } P C [.script p 1 none, .script p 1 none] ask1 = some 107 := by
  decide

/-- non-vacuity of `undo_redo_independent_partial`: an undo, a redo and a revert over three texts -/
example : answer real P C [.script p 1 none, .lookup 7, .script p 2 none, .script p 1 none,
    .script p 2 none, .script p 3 none, .lookup 7, .gc, .script p 1 none] ask1 = some 107 := by decide

/-- the hypothesis of `history_independent_partial` is satisfiable by a query that does go through
the signature cache -/
example : sig1.Matched := ⟨rfl, fun _ => trivial⟩

/-- a memo that outlives the Script (shared `memoize_cache`) serves the old text -/
theorem stale_if_memo_shared :
    answer { real with memoPerScript := false } P C [.script none 1 none, .lookup 7, .script none 2 none] ask1
      = some 107 := by decide

/-- parsing the buffer with `cache=True` lets `load_module` return the cached node of the file on
disk (mtime not newer than the item) whatever the buffer's text is -/
theorem stale_if_script_uses_disk_cache :
    answer { real with scriptCache := true } P C [.script p 1 (some 5), .script p 2 (some 5)] ask1
      = some 107 := by decide

/-- with `settings.fast_parser = False` nothing stores an item for the buffer and
`get_parso_cache_node` raises `KeyError` for a buffer with a path (reproduced on the real code:
`jedi.settings.fast_parser = False; Script('x=1\nx', path='/p.py').infer(2, 0)`); so the hypothesis
`diffCache = true` of `Cfg.Sound` is needed for "it is an answer" -/
theorem keyerror_without_fast_parser :
    answer { real with diffCache := false } P C [.script p 1 none] ask1 = none
    ∧ answer { real with diffCache := false } P C [.script none 1 none] ask1 = some 107 := by decide

end JediModel.Props.C08

#!/bin/sh
# Run once after a fresh restore, offline: regenerate Gen/*.lean from /repo and build every Lean target.
set -e
cd "$(dirname "$0")"
PYTHONPATH=/repo /venv/bin/python -m translator.extract all /repo
cd lean
lake build JediModel

#!/bin/sh
# Runs the repository's pinned baseline with the guard OFF and compares with /root/.vp/BASELINE.json stable_pass.
unset DAVIDHALTER_JEDI_VERIF
# the pinned baseline was recorded with the pyenv shim python3.13 selectable (test_versions[3.13])
[ -d /root/.pyenv/versions/3.13.0 ] && export PYENV_VERSION=${PYENV_VERSION:-3.11.7:3.13.0}
OUT=$(mktemp -d /var/tmp/jedi-baseline.XXXXXX)
cd /repo && /venv/bin/python -m pytest -ra -q -p no:cacheprovider --timeout=900 --continue-on-collection-errors --junitxml=$OUT/run.junit.xml > $OUT/log.txt 2>&1
/venv/bin/python - "$OUT/run.junit.xml" <<'PY'
import json, sys, xml.etree.ElementTree as ET
root = ET.parse(sys.argv[1]).getroot()
passed, failed = set(), set()
for tc in root.iter('testcase'):
    tid = (tc.get('classname') or '') + '::' + (tc.get('name') or '')
    if tc.find('failure') is not None or tc.find('error') is not None:
        failed.add(tid)
    elif tc.find('skipped') is None:
        passed.add(tid)
passed -= failed
base = set(json.load(open('/root/.vp/BASELINE.json'))['stable_pass'])
missing = sorted(base - passed)
print('baseline stable_pass: %d, passed now: %d, missing: %d' % (len(base), len(passed), len(missing)))
for m in missing:
    print('  MISSING', m)
sys.exit(1 if missing else 0)
PY
rc=$?
rm -rf "$OUT"
exit $rc

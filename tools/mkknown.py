#!/usr/bin/env python3
"""Rebuilds known_findings.json from known_findings.d/*.json (the per-property source of truth):
`findings` = every finding entry of the .d files; `fixed` = fixed entries already present plus those of the .d
files (order preserved). Run by hand at commit time; checks never write this file."""
import glob, json, os
HERE = os.path.dirname(os.path.dirname(os.path.abspath(__file__)))
k = json.load(open(os.path.join(HERE, 'known_findings.json')))
findings, seen = [], set()
fixed = list(k.get('fixed', []))
for p in sorted(glob.glob(os.path.join(HERE, 'known_findings.d', '*.json'))):
    d = json.load(open(p))
    for f in d.get('findings', []):
        if f['id'] not in seen:
            findings.append(f)
            seen.add(f['id'])
    for f in d.get('fixed', []):
        if f not in fixed:
            fixed.append(f)
k['findings'] = findings
k['fixed'] = [f for f in fixed if '<COMMIT>' not in f]
json.dump(k, open(os.path.join(HERE, 'known_findings.json'), 'w'), indent=1, ensure_ascii=False)
print(len(k['findings']), 'findings,', len(k['fixed']), 'fixed')

#!/usr/bin/env python3
"""Merges known_findings.d/*.json (lists of finding entries) into known_findings.json (run by hand at commit time)."""
import glob, json, os
HERE = os.path.dirname(os.path.dirname(os.path.abspath(__file__)))
k = json.load(open(os.path.join(HERE, 'known_findings.json')))
have = {f['id'] for f in k['findings']}
for p in sorted(glob.glob(os.path.join(HERE, 'known_findings.d', '*.json'))):
    d = json.load(open(p))
    for f in d.get('findings', []):
        if f['id'] in have:
            k['findings'] = [x for x in k['findings'] if x['id'] != f['id']]
        k['findings'].append(f)
        have.add(f['id'])
    for f in d.get('fixed', []):
        if f not in k['fixed']:
            k['fixed'].append(f)
json.dump(k, open(os.path.join(HERE, 'known_findings.json'), 'w'), indent=1, ensure_ascii=False)
print(len(k['findings']), 'findings,', len(k['fixed']), 'fixed')

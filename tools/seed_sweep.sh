#!/bin/sh
# tools/seed_sweep.sh <from> <to> [pids...]: quick tier for every property and seed on the current tree; prints non-zero exits
from=$1; to=$2; shift 2
pids=${@:-C01 C02 C03 C04 C05 C06 C07 C08 C09 C10 C11 C12 C13 C14 C15 C16 C17 C18 C19 C20}
cd "$(dirname "$0")/.."
mkdir -p /var/tmp/verif-sweep
for s in $(seq $from $to); do for p in $pids; do echo "$p $s"; done; done | xargs -P 4 -L 1 sh -c '
  p=$0; s=$1
  out=$(VERIF_SEED=$s ./check $p 2>&1); rc=$?
  if [ $rc -ne 0 ]; then echo "FAIL $p seed=$s rc=$rc $(echo "$out" | grep "VIOLATION\|INFRA" | head -2 | tr "\n" " ")"; echo "$out" > /var/tmp/verif-sweep/$p-$s.log; fi'
echo sweep-done

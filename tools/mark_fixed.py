#!/usr/bin/env python3
"""tools/mark_fixed.py <pid> <commit> <finding-id> [<finding-id>...]: move findings to `fixed` in known_findings.d and known_findings.json"""
import json, sys, os
HERE = os.path.dirname(os.path.dirname(os.path.abspath(__file__)))
pid, commit, ids = sys.argv[1], sys.argv[2], sys.argv[3:]
p = os.path.join(HERE, 'known_findings.d', pid + '.json')
d = json.load(open(p))
for f in list(d['findings']):
    if f['id'] in ids:
        d['findings'].remove(f)
        d.setdefault('fixed', []).append('fixed: property=%s %s %s' % (pid, commit, f['description']))
json.dump(d, open(p, 'w'), indent=1, ensure_ascii=False)
k = json.load(open(os.path.join(HERE, 'known_findings.json')))
k['findings'] = [f for f in k['findings'] if f['id'] not in ids]
json.dump(k, open(os.path.join(HERE, 'known_findings.json'), 'w'), indent=1, ensure_ascii=False)

#!/bin/sh
# tools/try_seed.sh <seed-dir-name> <pid> [more pids...]: confirm a seeded defect and run the checks against it.
# The seed lives in /tmp/seed/<name>/ (patch.diff, demo.py, meta.json). A fresh scratch worktree of /repo is used.
name=$1; shift
R=${SEEDROOT:-/tmp/seed}
S=$R/$name
W=$R/eval-$name
git -C /repo worktree remove --force $W 2>/dev/null
git -C /repo worktree add -q $W HEAD || exit 2
(cd $W && git apply $S/patch.diff) || { echo "PATCH DOES NOT APPLY"; git -C /repo worktree remove --force $W; exit 2; }
/venv/bin/python $S/demo.py /repo >/dev/null 2>&1; a=$?
/venv/bin/python $S/demo.py $W >/dev/null 2>&1; b=$?
echo "demo: clean=$a (want 0) mutated=$b (want 1)"
for pid in "$@"; do
  out=$(VERIF_REPO=$W ./check $pid 2>&1 | grep -v WARNING)
  rc=$?
  echo "$out" | grep "VIOLATION\|INFRA" | head -3
  echo "$pid: $(echo "$out" | grep -c VIOLATION) violation lines"
done
git -C /repo worktree remove --force $W
# the runs above rewrote evidence/ and lean/JediModel/Gen/ from the MUTATED tree: restore the committed (clean-tree) files
git -C "$(dirname "$0")/.." checkout -- evidence lean/JediModel/Gen 2>/dev/null

#!/usr/bin/env python3
"""Writes MANIFEST.json from the per-property table below (single source of truth)."""
import json
import os

HERE = os.path.dirname(os.path.dirname(os.path.abspath(__file__)))

TB = ('Trusted: Lean 4.33 kernel; axioms propext/Classical.choice/Quot.sound only (audited by #print axioms each run); '
      'translator/extract.py; the correspondence harness (generators, canonicalisers, JSON line protocol). ')

import importlib
import sys

sys.path.insert(0, os.path.join(HERE, 'harness'))

NOT_YET = {}


def load_claimed():
    """per-property metadata lives in harness/props/cXX.py as MANIFEST = dict(text=, note=, technique=, design=)"""
    out = {}
    d = os.path.join(HERE, 'harness', 'props')
    for f in sorted(os.listdir(d)):
        if f.startswith('c') and f.endswith('.py') and f[1:-3].isdigit():
            mod = importlib.import_module('props.' + f[:-3])
            m = getattr(mod, 'MANIFEST', None)
            if m:
                out[f[:-3].upper()] = m
    return out


def main():
    CLAIMED = load_claimed()
    props = [json.loads(l) for l in open(os.path.join(HERE, 'properties.jsonl'))]
    checks = []
    na = []
    for p in props:
        pid = p['id']
        if pid in CLAIMED:
            c = CLAIMED[pid]
            checks.append({
                'property_id': pid,
                'quick_cmd': './check %s --tier quick' % pid,
                'thorough_cmd': './check %s --tier thorough' % pid,
                'evidence_file': 'evidence/%s.json' % pid,
                'replay_cmd_template': './check %s --replay {path}' % pid,
                'engine': 'lean4-model+correspondence',
                'level_claimed': {'category': 'proof', 'text': c['text'], 'design_ref': c['design']},
                'level_note': TB + c['note'],
                'technique': c['technique'],
            })
        else:
            na.append({'property_id': pid,
                       'reason': NOT_YET.get(pid, 'not claimed yet: model/theorems/correspondence for this property '
                                                  'are not built at this commit (see DESIGN.md section 5 for the plan); '
                                                  'the technique does apply')})
    m = {
        'version': 1,
        'setup_cmd': './setup.sh',
        'hooks': {
            'guard': 'DAVIDHALTER_JEDI_VERIF',
            'enable': 'no source hooks: probes are installed by monkey-patching inside the harness process; the helper '
                      'process is reached through harness/helper_wrapper/python (guarded by DAVIDHALTER_JEDI_VERIF=1)',
            'baseline_off_cmd': 'tools/baseline.sh',
            'source_commits': [],
            'add_only': True,
        },
        'engines': [{
            'name': 'lean4-model+correspondence', 'path': 'check',
            'serves_properties': sorted(CLAIMED),
            'kind_free_text': 'Lean 4 theorems about executable models (lean/JediModel), regenerated constants from the '
                              'source (translator/extract.py), differential correspondence model vs real jedi through a '
                              'JSON line protocol, direct property oracle as failing-input search',
        }],
        'checks': checks,
        'not_applicable': na,
        'notes': 'See DESIGN.md. known_findings.json lists genuine defects recorded rather than repaired and the fix: commits.',
    }
    with open(os.path.join(HERE, 'MANIFEST.json'), 'w') as f:
        json.dump(m, f, indent=1)
    print('claimed:', sorted(CLAIMED), 'unclaimed:', [x['property_id'] for x in na])


if __name__ == '__main__':
    main()

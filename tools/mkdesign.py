#!/usr/bin/env python3
"""Refreshes the generated blocks of DESIGN.md (between <!-- BEGIN GENERATED:x --> / <!-- END GENERATED:x -->):
theorem inventory per property, findings tables, seeded-defect catch matrix."""
import json, os, re, sys
HERE = os.path.dirname(os.path.dirname(os.path.abspath(__file__)))
sys.path.insert(0, os.path.join(HERE, 'harness'))
import common


def theorems():
    out = ['| property | theorems in `lean/JediModel/Props/Cxx.lean` (each audited with `#print axioms` on every run) |', '|---|---|']
    for i in range(1, 21):
        pid = 'C%02d' % i
        p = os.path.join(HERE, 'lean', 'JediModel', 'Props', pid + '.lean')
        if not os.path.exists(p):
            continue
        names = [n.split('.')[-1] for n in common.theorems_of(p)]
        out.append('| %s | %d: %s |' % (pid, len(names), ', '.join('`%s`' % n for n in names)))
    return '\n'.join(out)


def findings():
    k = json.load(open(os.path.join(HERE, 'known_findings.json')))
    out = ['**Repaired in /repo (`fix:` commits; entries of `known_findings.json` → `fixed`, they suppress nothing):**', '']
    for f in k['fixed']:
        m = re.match(r'fixed: property=(\S+) (\S+) (.*)', f, re.S)
        out.append('- %s `%s` — %s' % (m.group(1), m.group(2), m.group(3).replace('\n', ' ')[:330]))
    out += ['', '**Recorded, not repaired (`known_findings.json` → `findings`; printed as `KNOWN-FINDING`, matched by stream + case keys):**', '']
    for f in k['findings']:
        out.append('- %s `%s` — %s' % (f['property'], f['id'], f['description'].replace('\n', ' ')[:330]))
    return '\n'.join(out)


def seeds():
    p = os.path.join(HERE, 'seeded', 'INDEX.json')
    if not os.path.exists(p):
        return '(none recorded yet)'
    idx = json.load(open(p))
    out = ['| seed | property | what the change does | caught | by which check / stream |', '|---|---|---|---|---|']
    for name in sorted(idx):
        e = idx[name]
        out.append('| `seeded/%s` | %s | %s | %s | %s%s |' % (
            name, e['property'], e['summary'].replace('|', '/').replace('\n', ' ')[:230], e['caught'],
            e['caught_by'].replace('|', '/'), (' — ' + e['note'].replace('|', '/')) if e.get('note') else ''))
    return '\n'.join(out)


BLOCKS = {'theorems': theorems, 'findings': findings, 'seeds': seeds}


def main():
    p = os.path.join(HERE, 'DESIGN.md')
    s = open(p, encoding='utf-8').read()
    for name, fn in BLOCKS.items():
        a, b = '<!-- BEGIN GENERATED:%s -->' % name, '<!-- END GENERATED:%s -->' % name
        if a in s and b in s:
            s = s[:s.index(a) + len(a)] + '\n' + fn() + '\n' + s[s.index(b):]
    open(p, 'w', encoding='utf-8').write(s)


if __name__ == '__main__':
    main()

#!/usr/bin/env python3
"""tools/record_seed.py <name> <pid> <caught:yes|no|after-strengthening> <by> [note]: copy a confirmed seeded defect from
/tmp/seed/<name>/ to seeded/<name>/ and (re)write seeded/INDEX.json (the catch matrix)."""
import json, os, shutil, sys
HERE = os.path.dirname(os.path.dirname(os.path.abspath(__file__)))
name, pid, caught, by = sys.argv[1:5]
note = sys.argv[5] if len(sys.argv) > 5 else ''
src = os.path.join(os.environ.get('SEEDROOT', '/tmp/seed'), name)
store = name + os.environ.get('SEEDSUFFIX', '')
dst = os.path.join(HERE, 'seeded', store)
os.makedirs(dst, exist_ok=True)
for f in ('patch.diff', 'demo.py'):
    shutil.copy(os.path.join(src, f), os.path.join(dst, f))
meta = json.load(open(os.path.join(src, 'meta.json')))
meta.update({'property': pid, 'caught': caught, 'caught_by': by, 'note': note,
             'confirmed': 'demo.py exits 0 on /repo and 1 on a scratch worktree with patch.diff applied; '
                          'baseline stable tests unchanged (reported by the seeding agent, junit before/after); '
                          'checks run with tools/try_seed.sh (VERIF_REPO=<scratch worktree> ./check %s)' % pid})
json.dump(meta, open(os.path.join(dst, 'meta.json'), 'w'), indent=1, ensure_ascii=False)
ip = os.path.join(HERE, 'seeded', 'INDEX.json')
idx = json.load(open(ip)) if os.path.exists(ip) else {}
idx[store] = {'property': pid, 'summary': meta.get('summary', '')[:300], 'needs': meta.get('needs', '')[:300],
             'caught': caught, 'caught_by': by, 'note': note}
json.dump(idx, open(ip, 'w'), indent=1, ensure_ascii=False, sort_keys=True)
print(name, caught)

"""PyCore programs (DESIGN 5.0 Model/PyCore): straight-line module bodies over

  expr := int | str | name x | (e, ..) tuple | e[k] | e(args) | e.a | (a if OPQ else b)
  stmt := x = e | x1, .., xn = e | def f(p..): return e | class C(Base?): a = e .. | probe e

Abstract syntax (JSON-able), the same object is
  * printed to Python source for jedi (`source`), probes become `_pN = e` followed by a line `_pN`
    on which Script.infer is asked,
  * printed to an instrumented source for CPython (`run`) recording the run-time shape of each probe,
  * sent to the Lean model (Drivers/C02) which runs `exec` and `may`.

Expressions: ["int"] ["str"] ["name", x] ["tuple", [e..]] ["index", e, k] ["call", f, [e..]]
             ["attr", e, a] ["tern", c, a, b]   (c = which branch really runs)
Statements:  ["assign", x, e] ["unpack", [x..], e] ["def", f, [p..], e] ["class", c, base|None, [[a, e]..]]
             ["probe", e]
Names are strings from disjoint pools: module variables v0.., functions f0.., classes C0..,
parameters p0.., class attributes a0... Every module-level name is bound at most once (SSA).
"""
import random

OPAQUE_PRELUDE = "import _verif_unknown_module\n"   # jedi cannot evaluate its attributes


def pexpr(e):
    k = e[0]
    if k == 'int':
        return '1'
    if k == 'str':
        return "'s'"
    if k == 'name':
        return e[1]
    if k == 'self':
        return 'self'
    if k == 'tuple':
        es = e[1]
        if len(es) == 1:
            return '(%s,)' % pexpr(es[0])
        return '(%s)' % ', '.join(pexpr(x) for x in es)
    if k == 'index':
        return '%s[%d]' % (pexpr(e[1]), e[2])
    if k == 'call':
        return '%s(%s)' % (pexpr(e[1]), ', '.join(pexpr(x) for x in e[2]))
    if k == 'attr':
        return '%s.%s' % (pexpr(e[1]), e[2])
    if k == 'tern':
        return '(%s if _OPQ_%s else %s)' % (pexpr(e[2]), 'T' if e[1] else 'F', pexpr(e[3]))
    raise ValueError(k)


def source(prog):
    """returns (text, probes) with probes = [(probe index, line, column)] positions to infer at,
    and def_lines = {statement index: line} for def/class statements"""
    lines = ['import _verif_unknown_module',
             '_OPQ_T = _verif_unknown_module.t',
             '_OPQ_F = _verif_unknown_module.f']
    probes = []
    def_lines = {}
    meth_lines = {}
    n = 0
    for i, st in enumerate(prog):
        k = st[0]
        if k == 'assign':
            lines.append('%s = %s' % (st[1], pexpr(st[2])))
        elif k == 'unpack':
            lines.append('%s = %s' % (', '.join(st[1]) + (',' if len(st[1]) == 1 else ''), pexpr(st[2])))
        elif k == 'def':
            def_lines[i] = len(lines) + 1
            lines.append('def %s(%s):' % (st[1], ', '.join(st[2])))
            lines.append('    return %s' % pexpr(st[3]))
        elif k == 'class':
            def_lines[i] = len(lines) + 1
            lines.append('class %s%s:' % (st[1], '(%s)' % st[2] if st[2] else ''))
            init = st[4] if len(st) > 4 else None
            methods = st[5] if len(st) > 5 else []
            if not st[3] and not init and not methods:
                lines.append('    pass')
            for a, e in st[3]:
                lines.append('    %s = %s' % (a, pexpr(e)))
            if init:
                meth_lines[(i, None)] = len(lines) + 1
                lines.append('    def __init__(%s):' % ', '.join(['self'] + init[0]))
                if not init[1]:
                    lines.append('        pass')
                for a, e in init[1]:
                    lines.append('        self.%s = %s' % (a, pexpr(e)))
            for m, ps, ret in methods:
                meth_lines[(i, m)] = len(lines) + 1
                lines.append('    def %s(%s):' % (m, ', '.join(['self'] + ps)))
                lines.append('        return %s' % pexpr(ret))
        elif k == 'probe':
            lines.append('_p%d = %s' % (n, pexpr(st[1])))
            lines.append('_p%d' % n)
            probes.append((n, len(lines), 0))
            n += 1
        else:
            raise ValueError(k)
    def_lines['methods'] = meth_lines
    return '\n'.join(lines) + '\n', probes, def_lines


def run(prog):
    """executes the program in CPython; returns {probe index: shape} (probes reached before any
    exception) and the terminating exception class or None.
    shape: 'int' | 'str' | ['tuple', [shape..]] | ['func', line] | ['cls', line] | ['inst', line]"""
    text, probes, def_lines = source(prog)
    body = text.split('\n')[3:]
    pre = ['_OPQ_T = True', '_OPQ_F = False']
    out = []
    for ln in body:
        if ln.startswith('_p') and ' = ' not in ln and ln.strip():
            n = int(ln[2:])
            out.append('_rec(%d, _p%d)' % (n, n))
        else:
            out.append(ln)
    code = '\n'.join(pre + [''] + out)      # keep line numbers: 3 header lines in both
    seen = {}

    def shape(v):
        if isinstance(v, bool):
            return 'bool'
        if isinstance(v, int):
            return 'int'
        if isinstance(v, str):
            return 'str'
        if isinstance(v, tuple):
            return ['tuple', [shape(x) for x in v]]
        if isinstance(v, type):
            return ['cls', v.__firstlineno__ if hasattr(v, '__firstlineno__') else _class_line(v)]
        code_ = getattr(v, '__code__', None)
        if code_ is not None:
            if hasattr(v, '__self__') and '.' in getattr(v, '__qualname__', ''):
                return ['meth', code_.co_firstlineno]
            # a module-level function reached through an instance is bound as well, but the
            # definition it points at is the `def` statement
            return ['func', code_.co_firstlineno]
        return ['inst', _class_line(type(v))]

    class_lines = {}

    def _class_line(c):
        return class_lines.get(c.__qualname__, -1)

    def _rec(n, v):
        seen[n] = shape(v)
    # class definition lines from the source text
    for i, ln in enumerate(code.split('\n'), 1):
        if ln.startswith('class '):
            class_lines[ln[6:].split('(')[0].split(':')[0]] = i
    g = {'_rec': _rec, '__name__': '__pycore__'}
    try:
        exec(compile(code, '<pycore>', 'exec'), g)
        err = None
    except RecursionError:
        err = 'RecursionError'
    except Exception as e:
        err = type(e).__name__
    return seen, err


# ----------------------------------------------------------------------------- generator

class Gen:
    def __init__(self, rng, max_stmts=10, depth=3):
        self.rng = rng
        self.max_stmts = max_stmts
        self.depth = depth
        self.vars = {}      # name -> static shape guess (to generate mostly-valid programs)
        self.funcs = {}     # name -> (nparams, ret guess builder)
        self.classes = {}   # name -> {attr: guess}
        self.nv = self.nf = self.nc = self.na = 0
        # jedi gives up beyond documented limits (2 nested / 6 total executions of one function
        # per query, arguments are evaluated lazily *inside* the callee's execution). The property
        # quantifies over programs that stay below them, so: arguments of a call are call-free
        # (and reference only call-free names), every function has at most 2 call sites, and a
        # function body calls only leaf functions (functions whose body has no call).
        self.callfree = set()      # names whose value expression involves no call
        self.sites = {}            # function -> number of call sites so far
        self.leaf = set()          # functions without a call in their body
        self.mode = []             # stack: 'nocall' while generating call arguments
        self.cinfo = {}            # class -> init / self attributes / methods

    # static guesses: 'int' | 'str' | ('tuple', [g..]) | ('func', name) | ('cls', name) | ('inst', name) | None
    def callable_funcs(self, in_body):
        return [f for f in self.funcs if self.sites.get(f, 0) < 2 and (not in_body or f in self.leaf)]

    def usable_vars(self):
        if 'nocall' in self.mode:
            return {x: g for x, g in self.vars.items() if x in self.callfree}
        return self.vars

    def expr(self, depth, params=None, want=None):
        """returns (expr, guess)"""
        rng = self.rng
        params = params or {}
        nocall = 'nocall' in self.mode
        in_body = 'body' in self.mode
        all_vars = self.vars
        self_vars = self.usable_vars()
        choices = ['int', 'str']
        if self_vars or params:
            choices += ['name'] * 4
        if depth > 0:
            choices += ['tuple', 'tuple', 'tern']
            if any(isinstance(g, tuple) and g[0] == 'tuple' and g[1] for g in list(self_vars.values()) + list(params.values())):
                choices += ['index'] * 3
            if not nocall and self.callable_funcs(in_body):
                choices += ['call'] * 3
            if not nocall and self.classes:
                choices += ['inst'] * 4
            if not nocall and not in_body and any(
                    isinstance(g, tuple) and g[0] == 'inst' and g[1] in self.cinfo and
                    (self.init_owner_selfattrs(g[1]) or self.all_methods(g[1])) for g in self_vars.values()):
                choices += ['member'] * 10
            if any(isinstance(g, tuple) and g[0] in ('inst', 'cls') and g[1] in self.classes and self.all_attrs(g[1]) for g in self_vars.values()):
                choices += ['attr'] * 3
        k = rng.choice(choices)
        if k == 'int':
            return ['int'], 'int'
        if k == 'str':
            return ['str'], 'str'
        if k == 'name':
            pool = list(params.items()) + list(self_vars.items())
            x, g = rng.choice(pool)
            return ['name', x], g
        if k == 'tuple':
            n = rng.randint(1, 3)
            parts = [self.expr(depth - 1, params) for _ in range(n)]
            return ['tuple', [p[0] for p in parts]], ('tuple', [p[1] for p in parts])
        if k == 'tern':
            a, ga = self.expr(depth - 1, params)
            b, gb = self.expr(depth - 1, params)
            c = rng.random() < 0.5
            return ['tern', c, a, b], (ga if c else gb)
        if k == 'index':
            pool = [(x, g) for x, g in list(params.items()) + list(self_vars.items())
                    if isinstance(g, tuple) and g[0] == 'tuple' and g[1]]
            x, g = rng.choice(pool)
            i = rng.randrange(len(g[1]))
            return ['index', ['name', x], i], g[1][i]
        if k == 'call':
            f = rng.choice(self.callable_funcs(in_body))
            self.sites[f] = self.sites.get(f, 0) + 1
            nparams, build = self.funcs[f]
            self.mode.append('nocall')
            args = [self.expr(depth - 1, params) for _ in range(nparams)]
            self.mode.pop()
            self.used_call = True
            return ['call', ['name', f], [a[0] for a in args]], build([a[1] for a in args])
        if k == 'inst':
            c = rng.choice(list(self.classes))
            self.used_call = True
            self.mode.append('nocall')
            args = [self.expr(depth - 1, params)[0] for _ in range(self.init_arity(c))]
            self.mode.pop()
            return ['call', ['name', c], args], ('inst', c)
        if k == 'member':
            pool = [(x, g) for x, g in self_vars.items() if isinstance(g, tuple) and g[0] == 'inst'
                    and g[1] in self.cinfo]
            x, g = rng.choice(pool)
            self.used_call = True
            c = g[1]
            sattrs = self.init_owner_selfattrs(c)
            meths = self.all_methods(c)
            opts = [('s', a) for a in sattrs] + [('m', m) for m in meths]
            if not opts:
                return ['name', x], g
            kind, nm = rng.choice(opts)
            if kind == 's':
                return ['attr', ['name', x], nm], None
            if rng.random() < 0.2:
                return ['attr', ['name', x], nm], None          # the bound method itself
            self.mode.append('nocall')
            args = [self.expr(depth - 1, params)[0] for _ in range(meths[nm])]
            self.mode.pop()
            return ['call', ['attr', ['name', x], nm], args], None
        if k == 'attr':
            pool = [(x, g) for x, g in self_vars.items()
                    if isinstance(g, tuple) and g[0] in ('inst', 'cls') and g[1] in self.classes and self.all_attrs(g[1])]
            x, g = rng.choice(pool)
            self.used_call = True      # class attribute expressions may contain calls
            attrs = self.all_attrs(g[1])
            a = rng.choice(list(attrs))
            return ['attr', ['name', x], a], attrs[a]
        raise AssertionError

    def init_arity(self, c):
        seen = set()
        while c is not None and c not in seen:
            seen.add(c)
            info = self.cinfo.get(c)
            if info is None:
                return 0
            if info['init'] is not None:
                return len(info['init'][0])
            c = info['base']
        return 0

    def init_owner_selfattrs(self, c):
        seen = set()
        while c is not None and c not in seen:
            seen.add(c)
            info = self.cinfo.get(c)
            if info is None:
                return []
            if info['init'] is not None:
                return list(info['selfattrs'])
            c = info['base']
        return []

    def all_methods(self, c):
        out = {}
        seen = set()
        while c is not None and c not in seen:
            seen.add(c)
            info = self.cinfo.get(c)
            if info is None:
                break
            for m, n in info['methods'].items():
                out.setdefault(m, n)
            c = info['base']
        return out

    def inst_attr_names(self, c, base, selfattrs, guesses):
        names = list(selfattrs) + list(guesses)
        if base is not None:
            names += list(self.all_attrs(base)) + self.init_owner_selfattrs(base)
        return names

    def member_expr(self, depth, params, attr_names):
        """expression for an __init__ right-hand side / a method body: literals, parameters,
        call-free module names, `self.<attr>`, tuples, conditionals (no calls: keeps jedi below
        its execution limits)"""
        rng = self.rng
        choices = ['int', 'str']
        if params:
            choices += ['param'] * 3
        if attr_names:
            choices += ['selfattr'] * 2
        cf = [x for x in self.vars if x in self.callfree]
        if cf:
            choices += ['name']
        if depth > 0:
            choices += ['tuple', 'tern']
        k = rng.choice(choices)
        if k == 'int':
            return ['int']
        if k == 'str':
            return ['str']
        if k == 'param':
            return ['name', rng.choice(params)]
        if k == 'selfattr':
            return ['attr', ['self'], rng.choice(attr_names)]
        if k == 'name':
            return ['name', rng.choice(cf)]
        if k == 'tuple':
            return ['tuple', [self.member_expr(depth - 1, params, attr_names) for _ in range(rng.randint(1, 2))]]
        return ['tern', rng.random() < 0.5, self.member_expr(depth - 1, params, attr_names),
                self.member_expr(depth - 1, params, attr_names)]

    def all_attrs(self, c):
        out = {}
        seen = set()
        while c is not None and c not in seen:
            seen.add(c)
            base, attrs = self.classes[c]
            for a, g in attrs.items():
                out.setdefault(a, g)
            c = base
        return out

    def program(self):
        rng = self.rng
        prog = []
        for _ in range(rng.randint(3, self.max_stmts)):
            r = rng.random()
            if r < 0.35:
                self.used_call = False
                e, g = self.expr(self.depth)
                x = 'v%d' % self.nv
                self.nv += 1
                prog.append(['assign', x, e])
                self.vars[x] = g
                if not self.used_call and all(n in self.callfree for n in names_of(e)):
                    self.callfree.add(x)
            elif r < 0.45:
                pool = [(x, g) for x, g in self.vars.items() if isinstance(g, tuple) and g[0] == 'tuple' and g[1]]
                if not pool:
                    continue
                x, g = rng.choice(pool)
                names = []
                for gi in g[1]:
                    n = 'v%d' % self.nv
                    self.nv += 1
                    names.append(n)
                prog.append(['unpack', names, ['name', x]])
                for n, gi in zip(names, g[1]):
                    self.vars[n] = gi
                    if x in self.callfree:
                        self.callfree.add(n)
            elif r < 0.65:
                f = 'f%d' % self.nf
                self.nf += 1
                nparams = rng.randint(0, 2)
                ps = ['p%d' % i for i in range(nparams)]
                # body is built symbolically over parameter placeholders
                pg = {p: ('param', i) for i, p in enumerate(ps)}
                self.used_call = False
                self.mode.append('body')
                body, gb = self.expr(self.depth - 1, params=pg)
                self.mode.pop()
                if not self.used_call:
                    self.leaf.add(f)

                def build(arg_guesses, gb=gb):
                    def sub(g):
                        if isinstance(g, tuple) and g[0] == 'param':
                            return arg_guesses[g[1]]
                        if isinstance(g, tuple) and g[0] == 'tuple':
                            return ('tuple', [sub(x) for x in g[1]])
                        return g
                    return sub(gb)
                prog.append(['def', f, ps, body])
                self.funcs[f] = (nparams, build)
                self.vars[f] = ('func', f)
                self.callfree.add(f)
            elif r < 0.8:
                c = 'C%d' % self.nc
                self.nc += 1
                base = rng.choice(list(self.classes)) if self.classes and rng.random() < 0.5 else None
                attrs = []
                guesses = {}
                for _ in range(rng.randint(0, 3)):
                    a = 'a%d' % rng.randint(0, 3)
                    e, g = self.expr(self.depth - 1)
                    attrs.append([a, e])
                    guesses[a] = g
                init = None
                selfattrs = []
                # __init__ only in classes without a base most of the time (a derived __init__
                # that hides a base __init__ is a known imprecision, generated rarely)
                if rng.random() < (0.5 if base is None else 0.08):
                    ps = ['p%d' % i for i in range(rng.randint(0, 2))]
                    assigns = []
                    targets = [rng.choice(['b0', 'b1', 'b2', 'a0']) for _ in range(rng.randint(0, 3))]
                    # the fragment is pure: an `__init__` right-hand side reads, through `self`,
                    # only class-level attributes that `__init__` itself never assigns
                    readable = [a for a in guesses if a not in targets]
                    for b in targets:
                        e = self.member_expr(self.depth - 1, ps, readable)
                        assigns.append([b, e])
                        selfattrs.append(b)
                    init = [ps, assigns]
                methods = []
                for _ in range(rng.randint(0, 2)):
                    m = 'm%d' % rng.randint(0, 2)
                    if any(x[0] == m for x in methods):
                        continue
                    ps = ['p%d' % i for i in range(rng.randint(0, 1))]
                    ret = self.member_expr(self.depth - 1, ps, self.inst_attr_names(c, base, selfattrs, guesses))
                    methods.append([m, ps, ret])
                prog.append(['class', c, base, attrs, init, methods])
                self.classes[c] = (base, guesses)
                self.cinfo[c] = {'base': base, 'init': init, 'selfattrs': selfattrs,
                                 'methods': {m[0]: len(m[1]) for m in methods}}
                self.vars[c] = ('cls', c)
                self.callfree.add(c)
            else:
                e, g = self.expr(self.depth)
                prog.append(['probe', e])
        # probe every variable at the end as well
        for x in list(self.vars)[-6:]:
            prog.append(['probe', ['name', x]])
        return prog


def names_of(e):
    if e[0] == 'name':
        return [e[1]]
    out = []
    for part in e[1:]:
        if isinstance(part, list):
            if part and isinstance(part[0], str):
                out += names_of(part)
            else:
                for sub in part:
                    if isinstance(sub, list):
                        out += names_of(sub)
    return out


def gen_program(rng, max_stmts=10, depth=3):
    return Gen(rng, max_stmts, depth).program()

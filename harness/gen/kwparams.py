"""Generated single-module programs for C05 in which parameters are passed BY KEYWORD at call sites.

The keyword `k` of a call `f(k=...)` is an occurrence of the parameter `k` of the callee: renaming
the parameter must rewrite it, renaming from it must rewrite the parameter.  Every way a parameter
can be reached by keyword is generated:

    kind            signature                 call
    pk              (a, k=D)                  f(1, k=2)  f(a=1, k=2)  f(k=2, a=1)  f(1, 2)
    kwonly-star     (a, *, k=D)               f(1, k=2)  f(a=1, k=2)  f(k=2, a=1)
    kwonly-args     (a, *rest, k=D)           f(1, 5, k=2)  f(1, k=2)
    kwonly-nodef    (a, *, k)                 f(1, k=2)                      (no default value)
    posonly         (a, /, k=D)               f(1, k=2)
    varkw           (a, **opts)               f(1, k=2, other=3)             (keywords are dict keys)
  and the three shapes in which a call keyword is SPELLED like a parameter it can never bind:
    varkw-collide   (a, **k)                  f(1, k=2)
    posonly-collide (k, /, **opts)            f(1, k=2)
    varargs-collide (a, *k, **opts)           f(1, 2, k=3)

for module-level functions, methods (called on an instance, on a fresh instance, through `self`,
through a subclass), `__init__` (called through the class and a subclass), nested functions and
lambdas; call sites at module level, inside other functions, nested in keyword values; spellings
of parameters shared between callables, with attributes (`self.k = k`), with module variables
(`f(1, k=k)`) and with locals.

A program is {'source', 'dictkeys': [[line, col]] (keyword tokens that end up as keys of a
`**` dictionary: strings, outside the property's quantifier as START points), 'collide': [spellings
of the *-collide shapes], 'features': [...]}.  It prints a deterministic text.

Nothing in here imports jedi.
"""
import io
import keyword
import tokenize

KW_POOL = ['factor', 'depth', 'label', 'times', 'bonus']
FIRST_POOL = ['item', 'val', 'num', 'by']
FUNC_POOL = ['scaled', 'spread', 'shift', 'blend', 'weigh']
METH_POOL = ['grow', 'push', 'mix']
CLASS_POOL = ['Box', 'Tank']
OTHER_KEYS = ['extra_a', 'extra_b']
FRESH = 'zz_new'

KINDS = ['pk', 'kwonly-star', 'kwonly-args', 'kwonly-nodef', 'posonly', 'varkw']
COLLIDE_KINDS = ['varkw-collide', 'posonly-collide', 'varargs-collide']
#: names that are not defined by the program (builtins and methods of builtin types): never a start
SKIP = {'print', 'self', 'len', 'sorted', 'list', 'sum', 'values', 'super'}
MARK = '\x01'       # written in front of a keyword that is a dictionary key


def _sig(kind, a, k, d, observe):
    """(parameter list, int- or list-valued return expression over the parameters)"""
    if kind == 'pk':
        return '%s, %s=%d' % (a, k, d), '%s * %s' % (a, k)
    if kind == 'kwonly-star':
        return '%s, *, %s=%d' % (a, k, d), '%s * %s' % (a, k)
    if kind == 'kwonly-nodef':
        return '%s, *, %s' % (a, k), '%s * %s + 1' % (a, k)
    if kind == 'kwonly-args':
        return '%s, *rest, %s=%d' % (a, k, d), '%s * %s + len(rest)' % (a, k)
    if kind == 'posonly':
        return '%s, /, %s=%d' % (a, k, d), '%s - %s' % (a, k)
    if kind == 'varkw':
        return '%s, **opts' % a, ('[%s] + sorted(opts)' if observe else '%s + sum(opts.values())') % a
    if kind == 'varkw-collide':
        return '%s, **%s' % (a, k), ('[%s] + sorted(%s)' if observe else '%s + sum(%s.values())') % (a, k)
    if kind == 'posonly-collide':
        return '%s, /, **opts' % k, ('[%s] + sorted(opts)' if observe else '%s + sum(opts.values())') % k
    if kind == 'varargs-collide':
        return '%s, *%s, **opts' % (a, k), ('[%s, len(%s)] + sorted(opts)' if observe
                                             else '%s + len(%s) + sum(opts.values())') % (a, k)
    raise AssertionError(kind)


def _call_args(rng, c, value):
    """argument text of one call of callable c; `value` = text of the value given to the keyword"""
    kind, a, k = c['kind'], c['first'], c['kw']
    one = str(rng.randint(1, 6))
    if kind == 'pk':
        return _pk(rng, a, k, one, value, True)
    if kind in ('kwonly-star',):
        return _pk(rng, a, k, one, value, False)
    if kind == 'kwonly-nodef':
        return _pk(rng, a, k, one, value, False)
    if kind == 'kwonly-args':
        return rng.choice(['%s, %d, %s=%s' % (one, rng.randint(1, 6), k, value), '%s, %s=%s' % (one, k, value)])
    if kind == 'posonly':
        return '%s, %s=%s' % (one, k, value)
    if kind == 'varkw':
        return '%s, %s%s=%s, %s%s=%d' % (one, MARK, k, value, MARK, rng.choice(OTHER_KEYS), rng.randint(1, 6))
    if kind == 'varkw-collide':
        return '%s, %s%s=%s' % (one, MARK, k, value)
    if kind == 'posonly-collide':
        return '%s, %s%s=%s' % (one, MARK, k, value)
    if kind == 'varargs-collide':
        return '%s, %d, %s%s=%s' % (one, rng.randint(1, 6), MARK, k, value)
    raise AssertionError(kind)


def _pk(rng, a, k, one, value, positional_ok):
    forms = ['%s, %s=%s' % (one, k, value), '%s=%s, %s=%s' % (a, one, k, value), '%s=%s, %s=%s' % (k, value, a, one)]
    if positional_ok:
        forms.append('%s, %s' % (one, value))
    return rng.choice(forms)


def gen_program(rng, plan=None):
    """plan: {'kinds': [kind of every callable in order], 'collide': bool}"""
    plan = dict(plan or {})
    feats = set()
    kinds = list(plan.get('kinds') or [])
    n_callables = 6
    while len(kinds) < n_callables:
        kinds.append(rng.choice(KINDS))
    if plan.get('collide'):
        kinds[rng.randrange(len(kinds))] = plan['collide'] if isinstance(plan['collide'], str) \
            else rng.choice(COLLIDE_KINDS)
    # keyword names: a small pool so that spellings coincide between callables
    kw_pool = rng.sample(KW_POOL, 3)
    funcs = rng.sample(FUNC_POOL, 3)
    meths = rng.sample(METH_POOL, 2)
    cls = rng.choice(CLASS_POOL)
    observe = rng.random() < 0.7
    callables = []

    def mk(owner, name, kind):
        c = {'owner': owner, 'name': name, 'kind': kind, 'first': rng.choice(FIRST_POOL),
             'kw': rng.choice(kw_pool), 'default': rng.randint(2, 9)}
        c['sig'], c['expr'] = _sig(kind, c['first'], c['kw'], c['default'], observe)
        callables.append(c)
        feats.add('%s:%s' % (owner, kind))
        return c

    f1 = mk('function', funcs[0], kinds[0])
    f2 = mk('function', funcs[1], kinds[1])
    init = mk('init', '__init__', kinds[2] if kinds[2] not in ('posonly-collide',) else 'kwonly-star')
    m1 = mk('method', meths[0], kinds[3])
    nested_or_lambda = rng.choice(['nested', 'lambda', 'method2'])
    f3 = mk(nested_or_lambda if nested_or_lambda != 'method2' else 'method', funcs[2] if nested_or_lambda != 'method2'
            else meths[1], kinds[4])
    f4 = mk('function', 'combine', kinds[5])
    L = []

    def val(c, depth=0):
        """value text for a keyword: a constant, a module variable of the same spelling, or a call"""
        r = rng.random()
        if r < 0.25 and c['kw'] in modvars:
            feats.add('keyword-value-spelled-like-keyword')
            return c['kw']
        if r < 0.4 and depth == 0 and callsite_ok(f1):
            feats.add('call-nested-in-keyword-value')
            return call(f1, depth + 1)
        return str(rng.randint(2, 9))

    modvars = set()
    in_scope = {'function'}

    def callsite_ok(c):
        return c['owner'] == 'function' and c['kind'] not in ('varkw', 'varkw-collide', 'posonly-collide',
                                                              'varargs-collide') and c['name'] != 'combine'

    def call(c, depth=0, recv=None):
        args = _call_args(rng, c, val(c, depth))
        if c['owner'] in ('function', 'nested', 'lambda'):
            return '%s(%s)' % (c['name'], args)
        if c['owner'] == 'init':
            return '%s(%s)' % (recv or cls, args)
        return '%s.%s(%s)' % (recv, c['name'], args)

    # ---- definitions
    for c in (f1, f2):
        L += ['def %s(%s):' % (c['name'], c['sig']), '    return %s' % c['expr'], '', '']
    L += ['class %s:' % cls, '    def __init__(self, %s):' % init['sig']]
    attr = rng.choice([init['kw'], init['kw'], 'stored'])
    if init['kind'] in ('varkw', 'varkw-collide', 'varargs-collide'):
        L += ['        self.base = %s' % init['first'], '        self.%s = %s' % (attr, init['expr'])]
    else:
        L += ['        self.base = %s' % init['first'], '        self.%s = %s' % (attr, init['kw'])]
    L += ['', '    def %s(self, %s):' % (m1['name'], m1['sig'])]
    if isinstance_list(m1):
        L += ['        return [self.base] + %s' % m1['expr']]
    else:
        L += ['        return self.base + %s' % m1['expr']]
    if f3['owner'] == 'method':
        L += ['', '    def %s(self, %s):' % (f3['name'], f3['sig']), '        return %s' % f3['expr']]
    # a method that calls the other one through self
    L += ['', '    def again(self, val):', '        return self.%s(%s)' % (m1['name'], _call_args(rng, m1, str(rng.randint(2, 9)))),
          '', '']
    sub = None
    if rng.random() < 0.5:
        sub = 'Big' + cls
        L += ['class %s(%s):' % (sub, cls), '    def extra(self):', '        return self.base', '', '']
        feats.add('subclass')
    # ---- a function with a nested function / lambda and local call sites
    L += ['def %s(%s):' % (f4['name'], f4['sig'])]
    if f3['owner'] == 'nested':
        L += ['    def %s(%s):' % (f3['name'], f3['sig']), '        return %s' % f3['expr']]
    elif f3['owner'] == 'lambda':
        L += ['    %s = lambda %s: %s' % (f3['name'], f3['sig'], f3['expr'])]
    # a local spelled like the keyword of another callable, passed as the value of that keyword
    loc = m1['kw'] if m1['kw'] not in (f4['kw'], f4['first']) and rng.random() < 0.35 else 'local_v'
    L += ['    %s = %d' % (loc, rng.randint(2, 9))]
    L += ['    box = %s' % call(init, 1, recv=rng.choice([cls, sub or cls]))]
    L += ['    shown = [box.%s(%s), box.again(2)]' % (m1['name'], _call_args(rng, m1, loc))]
    if f3['owner'] in ('nested', 'lambda'):
        L += ['    shown = shown + [%s]' % call(f3, 1)]
    else:
        L += ['    shown = shown + [box.%s(%s)]' % (f3['name'], _call_args(rng, f3, '4'))]
    L += ['    shown = shown + [%s, %s]' % (call(f1, 1), f4['expr']), '    return shown', '', '']
    # ---- module level: variables spelled like keywords, call sites
    # sometimes a module variable spelled like a keyword (used as the value of that keyword)
    if rng.random() < 0.4:
        k = rng.choice(kw_pool)
        L += ['%s = %d' % (k, rng.randint(2, 9))]
        modvars.add(k)
    for c in (f1, f2, f1, f2):
        L += ['print(%s)' % call(c)]
    L += ['print(%s)' % call(f4)]
    recv = sub if sub and rng.random() < 0.5 else cls
    L += ['thing = %s' % call(init, recv=recv)]
    L += ['print(%s, thing.%s)' % (call(m1, recv='thing'), attr)]
    L += ['print(%s)' % call(m1, recv=call(init))]
    src_marked = '\n'.join(L) + '\n'
    source, dictkeys = strip_marks(src_marked)
    collide = sorted({c['kw'] for c in callables if c['kind'] in COLLIDE_KINDS})
    return {'source': source, 'dictkeys': dictkeys, 'collide': collide, 'features': sorted(feats),
            'kinds': [c['kind'] for c in callables]}


def isinstance_list(c):
    return c['expr'].startswith('[')


def strip_marks(text):
    """(text without MARK, [[line, col] of every marked token])"""
    keys = []
    out = []
    for i, line in enumerate(text.split('\n'), 1):
        while MARK in line:
            c = line.index(MARK)
            keys.append([i, c])
            line = line[:c] + line[c + 1:]
        out.append(line)
    return '\n'.join(out), keys


def tokens(source):
    """identifier tokens (line, col, spelling) the property quantifies over (SKIP removed)"""
    return [(t.start[0], t.start[1], t.string) for t in tokenize.generate_tokens(io.StringIO(source).readline)
            if t.type == tokenize.NAME and not keyword.iskeyword(t.string) and t.string not in SKIP
            and not (t.string.startswith('__') and t.string.endswith('__'))]


def run_output(source):
    """(printed text, class of the terminating exception or None) of executing the program"""
    import contextlib
    buf = io.StringIO()
    end = None
    try:
        code = compile(source, '<c05kw>', 'exec')
        with contextlib.redirect_stdout(buf):
            exec(code, {'__name__': '__c05kw__'})
    except BaseException as e:
        end = type(e).__name__
    return [buf.getvalue(), end]


# ---------------------------------------------------------------------------- signatures (stream kwgoto)

KIND_NO = {'posonly': 0, 'pk': 1, 'varpos': 2, 'kwonly': 3, 'varkw': 4}      # inspect.Parameter numbers
SIG_NAMES = ['alpha', 'beta', 'gamma', 'delta']


def enumerate_signatures(max_params=3):
    """every well-formed order of at most `max_params` parameter kinds:
    posonly* pk* [varpos] kwonly* [varkw]"""
    out = []

    def rec(prefix, stage):
        if prefix:
            out.append(list(prefix))
        if len(prefix) == max_params:
            return
        stages = ['posonly', 'pk', 'varpos', 'kwonly', 'varkw']
        for i in range(stage, len(stages)):
            k = stages[i]
            nxt = i if k in ('posonly', 'pk', 'kwonly') else i + 1
            rec(prefix + [k], nxt)
    rec([], 0)
    return out


def signature_text(kinds, names):
    """parameter list text of a def with the given kinds (a bare `*` in front of keyword-only
    parameters when there is no *args, `/` behind the positional-only ones)"""
    parts = []
    seen_star = False
    for i, (k, n) in enumerate(zip(kinds, names)):
        if k == 'posonly':
            parts.append(n)
            if i + 1 == len(kinds) or kinds[i + 1] != 'posonly':
                parts.append('/')
        elif k == 'pk':
            parts.append(n)
        elif k == 'varpos':
            parts.append('*' + n)
            seen_star = True
        elif k == 'kwonly':
            if not seen_star:
                parts.append('*')
                seen_star = True
            parts.append(n + '=0')
        else:
            parts.append('**' + n)
    return ', '.join(parts)


def goto_cases():
    """[{'source', 'line', 'col' (of the call keyword), 'sig': [[name index, kind number]], 'k': name
    index, 'params': [[line, col] of every parameter], 'form'}]: the call is only parsed, never run"""
    cases = []
    for kinds in enumerate_signatures(3):
        names = SIG_NAMES[:len(kinds)]
        sig = signature_text(kinds, names)
        for ki, kname in enumerate(names + ['omega']):
            for form in ('function', 'method', 'init'):
                if form == 'function':
                    lines = ['def target(%s):' % sig, '    return 0', '', '', 'target(%s=1)' % kname]
                    def_line, pad = 1, len('def target(')
                elif form == 'method':
                    lines = ['class Holder:', '    def target(self, %s):' % sig, '        return 0', '', '',
                             'Holder().target(%s=1)' % kname]
                    def_line, pad = 2, len('    def target(self, ')
                else:
                    lines = ['class Holder:', '    def __init__(self, %s):' % sig, '        self.done = 0', '', '',
                             'Holder(%s=1)' % kname]
                    def_line, pad = 2, len('    def __init__(self, ')
                src = '\n'.join(lines) + '\n'
                params = []
                for n in names:
                    import re
                    m = re.search(r'(?<![\w])%s(?![\w])' % n, lines[def_line - 1][pad:])
                    params.append([def_line, pad + m.start()])
                call_line = len(lines)
                cases.append({'source': src, 'line': call_line, 'col': lines[-1].index(kname + '=1'),
                              'sig': [[i + 1, KIND_NO[k]] for i, k in enumerate(kinds)], 'k': ki + 1,
                              'params': params, 'form': form, 'kinds': kinds})
    return cases

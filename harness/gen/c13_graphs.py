"""C13: generator of live object graphs + counters inside every user special method.

A graph is Python *source text* (so that it can be exec'd - dynamically created classes, pure
CompiledValue - or written to a file and imported - MixedObject with a syntax tree) plus a list
of namespace entry names.  Every user special method calls `_hit(kind, obj)`; the recorder notes
the kind, the identity of the descriptor / object and the innermost jedi frame that triggered it.
"""
import importlib.util
import os
import sys
import types

PRELUDE = '''\
class ND:
    def __get__(self, inst, owner):
        _hit('__get__', self)
        return 'nd'
class DD:
    def __get__(self, inst, owner):
        _hit('__get__', self)
        return 'dd'
    def __set__(self, inst, v):
        pass
class DDel:
    def __get__(self, inst, owner):
        _hit('__get__', self)
        return 'ddel'
    def __delete__(self, inst):
        pass
class SO:
    def __set__(self, inst, v):
        pass
class K:
    kv = 1
    def km(self):
        return 1
def mkprop(ann=False):
    box = []
    if ann:
        def g(self) -> int:
            _hit('property', box[0])
            return 7
    else:
        def g(self):
            _hit('property', box[0])
            return 7
    box.append(property(g))
    return box[0]
def plainf():
    return 1
'''

# kinds of class attributes: source of the right-hand side
ATTR_KINDS = {
    'int': '1', 'str': "'s'", 'inst': 'K()', 'cls': 'K', 'list': '[K(), 1]', 'dict': "{'k': K()}",
    'prop': 'mkprop()', 'propAnn': 'mkprop(True)',
    'nd': 'ND()', 'dd': 'DD()', 'ddel': 'DDel()', 'so': 'SO()',
    'static': 'staticmethod(plainf)', 'classm': 'classmethod(lambda c: 1)',
    'mdescr': 'object.__reduce__', 'wrapper': 'object.__str__', 'cmdescr': "object.__dict__['__init_subclass__']",
    'func': None,   # def
}
USER_GET_KINDS = ('prop', 'propAnn', 'nd', 'dd', 'ddel')
PLAIN_KINDS = ('int', 'str', 'inst', 'cls', 'list', 'dict')
INST_KINDS = {'int': '2', 'str': "'t'", 'inst': 'K()', 'descr': 'ND()', 'propobj': 'mkprop()',
              'list': '[K(), 2]', 'func': 'plainf'}
PROTOCOLS = {
    '__getitem__': ("def __getitem__(self, k):", "return 'item'"),
    '__iter__': ("def __iter__(self):", "return iter([1, 2])"),
    '__next__': ("def __next__(self):", "raise StopIteration"),
    '__call__': ("def __call__(self, *a):", "return 1"),
    '__len__': ("def __len__(self):", "return 2"),
    '__bool__': ("def __bool__(self):", "return True"),
}
NAMES = ['a', 'b', 'c', 'd', 'e']


class Recorder:
    """the counters.  `events`: list of (kind, obj, site)"""

    def __init__(self, repo):
        self.events = []
        self.repo = os.path.realpath(repo) + os.sep
        self._files = {}

    def hit(self, kind, obj):
        f = sys._getframe(2)
        site = ''
        while f is not None:
            fn = f.f_code.co_filename
            rel = self._files.get(fn)
            if rel is None:
                rel = ''
                if (os.sep + 'jedi' + os.sep) in fn and os.path.realpath(fn).startswith(self.repo):
                    rel = fn.split(os.sep + 'jedi' + os.sep)[-1]
                self._files[fn] = rel
            if rel:
                site = rel + ':' + f.f_code.co_name
                break
            f = f.f_back
        self.events.append((kind, obj, site))

    def reset(self):
        del self.events[:]

    def take(self):
        ev = list(self.events)
        del self.events[:]
        return ev


def gen_class(rng, name, bases, meta, is_meta=False, protocols=None, slots=None, p_attr=0.6):
    """returns (source lines, info dict)"""
    bl = list(bases)
    if is_meta and not bl:
        bl = ['type']
    head = 'class %s(%s):' % (name, ', '.join(bl + (['metaclass=' + meta] if meta else [])))
    if head.endswith('():'):
        head = 'class %s:' % name
    lines = [head]
    attrs = {}
    if slots is not None:
        lines.append('    __slots__ = %r' % (tuple(slots),))
    for n in NAMES:
        if slots is not None and n in slots:
            continue
        if rng.random() < p_attr:
            kind = rng.choice(list(ATTR_KINDS))
            if is_meta and kind == 'func':
                kind = 'prop'
            attrs[n] = kind
            if kind == 'func':
                lines.append('    def %s(self):' % n)
                lines.append('        return 1')
            else:
                lines.append('    %s = %s' % (n, ATTR_KINDS[kind]))
    for p in protocols or ():
        h, b = PROTOCOLS[p]
        lines.append('    ' + h)
        lines.append("        _hit(%r, self)" % p)
        lines.append('        ' + b)
    if len(lines) == 1:
        lines.append('    pass')
    return lines, {'name': name, 'bases': bl, 'meta': meta, 'attrs': attrs, 'slots': slots,
                   'protocols': list(protocols or ()), 'is_meta': is_meta}


def gen_graph(rng, n_classes=4, with_meta=True, with_protocols=True):
    """source text of a world: metaclasses, classes (inheritance, slots), instances with
    instance attributes; returns (source, info)"""
    lines = []
    classes = []
    metas = []
    if with_meta:
        for i in range(rng.randint(1, 2)):
            l, info = gen_class(rng, 'M%d' % i, [m['name'] for m in metas if rng.random() < 0.4][:1], None,
                                is_meta=True, p_attr=0.5)
            lines += l
            metas.append(info)
    for i in range(n_classes):
        cands = [c for c in classes]
        bases = []
        if cands and rng.random() < 0.55:
            bases = [rng.choice(cands)['name']]
        meta = None
        if metas and not bases and rng.random() < 0.6:
            meta = rng.choice(metas)['name']
        slots = None
        if not bases and rng.random() < 0.2:
            slots = rng.sample(NAMES, rng.randint(1, 2))
        protos = []
        if with_protocols and rng.random() < 0.6:
            protos = [p for p in PROTOCOLS if rng.random() < 0.45]
        l, info = gen_class(rng, 'C%d' % i, bases, meta, protocols=protos, slots=slots)
        lines += l
        classes.append(info)
    objs = []
    for i, c in enumerate(classes):
        for j in range(rng.randint(1, 2)):
            on = 'o%d_%d' % (i, j)
            lines.append('%s = %s()' % (on, c['name']))
            inst_attrs = {}
            has_dict = not _all_slots(c, classes)
            for n in NAMES:
                if _is_slot(c, classes, n):
                    # always fill slots (an empty slot makes getattr raise)
                    kind = rng.choice(['int', 'inst', 'str'])
                    lines.append('vars(%s)[%r].__set__(%s, %s)' % (_slot_owner(c, classes, n), n, on, INST_KINDS[kind]))
                    inst_attrs[n] = 'slot:' + kind
                elif has_dict and rng.random() < 0.4:
                    kind = rng.choice(list(INST_KINDS))
                    lines.append('vars(%s)[%r] = %s' % (on, n, INST_KINDS[kind]))
                    inst_attrs[n] = kind
            objs.append({'name': on, 'cls': c['name'], 'inst_attrs': inst_attrs})
    # a dynamically created class holding builtin values, functions and classes
    base = '%s,' % classes[0]['name'] if classes and not classes[0]['slots'] and not classes[0]['meta'] else ''
    lines.append("Dyn = type('Dyn', (%s), {'z': 3, 'f': plainf, 'k': K, 'lst': [K(), 'x', 2]})" % base)
    lines.append('dyn = Dyn()')
    lines.append("vars(dyn)['w'] = {'k': [K(), 5]}")
    src = PRELUDE + '\n'.join(lines) + '\n'
    return src, {'metas': metas, 'classes': classes, 'objs': objs}


def _by_name(classes, n):
    for c in classes:
        if c['name'] == n:
            return c
    return None


def _chain(c, classes):
    out = []
    while c is not None:
        out.append(c)
        b = [x for x in c['bases'] if x != 'type']
        c = _by_name(classes, b[0]) if b else None
    return out


def _is_slot(c, classes, n):
    return any(k['slots'] and n in k['slots'] for k in _chain(c, classes))


def _slot_owner(c, classes, n):
    for k in _chain(c, classes):
        if k['slots'] and n in k['slots']:
            return k['name']


def _all_slots(c, classes):
    return all(k['slots'] is not None for k in _chain(c, classes))


_FILE_N = [0]


def build(src, recorder, flavor='exec', tmpdir=None):
    """returns the namespace dict of the executed graph"""
    if flavor == 'exec':
        ns = {'_hit': recorder.hit, '__name__': 'c13graph'}
        exec(compile(src, '<c13-graph>', 'exec'), ns)
        return ns
    _FILE_N[0] += 1
    modname = 'c13graph_%d_%d' % (os.getpid(), _FILE_N[0])
    path = os.path.join(tmpdir, modname + '.py')
    with open(path, 'w', encoding='utf-8') as f:
        f.write('_hit = None\n' + src)
    spec = importlib.util.spec_from_file_location(modname, path)
    mod = importlib.util.module_from_spec(spec)
    sys.modules[modname] = mod
    # _hit has to exist before the body runs: pre-seed the module dict and drop the first line's effect
    mod.__dict__['_hit'] = recorder.hit
    code = compile('\n' + src, path, 'exec')      # same line numbers as the file
    exec(code, mod.__dict__)
    return mod.__dict__


# ------------------------------------------------------------------ describing objects to the model

class Registry:
    def __init__(self):
        self.ids = {}
        self.keep = []

    def id(self, obj):
        k = id(obj)
        if k not in self.ids:
            self.ids[k] = len(self.keep) + 1
            self.keep.append(obj)
        return self.ids[k]

    def known(self, obj):
        return self.ids.get(id(obj))


def static_has(t, name):
    return any(name in vars(k) for k in t.__mro__)


def classify(v):
    """Tag of a stored value (mirrors Model/ObjModel.Tag)."""
    t = type(v)
    hg = static_has(t, '__get__')
    hs = static_has(t, '__set__') or static_has(t, '__delete__')
    if t is property:
        ann = False
        try:
            ann = v.fget.__annotations__.get('return') is not None
        except AttributeError:
            pass
        return 'propAnn' if ann else 'prop'
    if t is types.MemberDescriptorType:
        return 'slot'
    if t.__module__ in ('builtins', 'types', 'functools') and not getattr(t, '__c13_user__', False):
        if hg:
            return 'b:%s:%d' % (t.__name__, 1 if hs else 0)
        return 'plain'          # builtin value; builtin set-only descriptors do not exist
    if hg and hs:
        return 'getData'
    if hg:
        return 'getNonData'
    if hs:
        return 'setOnly'
    return 'plain'


def describe(obj, names, reg):
    """Target JSON for the Lean driver; only entries whose name is in `names` are sent (the model
    looks entries up by name only, so the others cannot influence the answer)."""
    names = set(names) | {'__dict__'}
    is_type = isinstance(obj, type)
    klass = obj if is_type else type(obj)

    def entries(d):
        return [{'n': n, 't': classify(v), 'id': reg.id(v)} for n, v in d.items() if n in names]

    mro = [entries(vars(c)) for c in klass.__mro__]
    meta = [entries(vars(c)) for c in type(klass).__mro__] if is_type else []
    inst = None
    if not is_type:
        try:
            inst = entries(object.__getattribute__(obj, '__dict__'))
        except AttributeError:
            inst = None
    return {'isType': is_type, 'inst': inst, 'mro': mro, 'meta': meta}


BUILTIN_METHOD_TYPES = ('wrapper_descriptor', 'method_descriptor', 'classmethod_descriptor',
                        'builtin_function_or_method')


def slot_entry(f):
    """Slot string of one raw class-dictionary entry"""
    if f is None:
        return 'none'
    if isinstance(f, types.FunctionType):
        # calling a generator function runs none of its body (user code starts at next())
        return 'other' if f.__code__.co_flags & 0x20 else 'user'
    if type(f).__name__ in BUILTIN_METHOD_TYPES and type(f).__module__ == 'builtins':
        return 'b:' + type(f).__name__
    return 'other'


def slot_of(t, n):
    """Slot string (mirrors Model/ObjModel.Slot): what `_PyType_Lookup(t, n)` finds, classified by the
    harness itself from the class dictionaries (never through jedi)"""
    for k in t.__mro__:
        if n in vars(k):
            return slot_entry(vars(k)[n])
    return 'absent'


def describe_mro_slots(t, names=('__bool__', '__len__')):
    """List ClassSlots JSON (mirrors Model/ObjModel.ClassSlots): per class of `t.__mro__`, in MRO order,
    the raw entries its own `__dict__` stores under the given special-method names"""
    return [[{'n': n, 's': slot_entry(vars(k)[n])} for n in names if n in vars(k)] for k in t.__mro__]


# ------------------------------------------------------------------ classes with several bases

# builtin bases (at most one per class: their instance layouts conflict) and a constructor argument
BUILTIN_BASES = {
    'list': '[K(), 2]', 'tuple': '(K(), 2)', 'dict': "{0: K(), 'k': 1}", 'str': "'ab'", 'bytes': "b'ab'",
    'bytearray': "b'ab'", 'set': '[1, 2]', 'frozenset': '[1]',          # __len__, no __bool__
    'int': '3', 'float': '0.5',                                          # __bool__, no __len__
}
NO_BOOL_BASES = ('list', 'tuple', 'dict', 'str', 'bytes', 'bytearray', 'set', 'frozenset')
MIXIN_PROTOCOLS = {
    '__bool__': 'return True', '__len__': 'return 2', '__iter__': 'return iter([K()])',
    '__getitem__': "return 'item'",
}


def _mixin(name, defs, base=''):
    """defs: name -> 'user' | 'none'"""
    lines = ['class %s%s:' % (name, '(%s)' % base if base else '')]
    for n, kind in defs.items():
        if kind == 'none':
            lines.append('    %s = None' % n)
        else:
            lines.append('    def %s(self%s):' % (n, ', k' if n == '__getitem__' else ''))
            lines.append('        _hit(%r, self)' % n)
            lines.append('        ' + MIXIN_PROTOCOLS[n])
    if len(lines) == 1:
        lines.append('    pass')
    return lines


def gen_proto_mro(rng, n_triples=6, n_deep=4):
    """A world of classes with SEVERAL bases: one builtin container, a builtin number and user mixins
    that define the truth-value / container special methods, combined in every order (all ordered
    pairs, a sample of the ordered triples, grandchildren, own redefinitions).  What a special method
    resolves to then depends on the order of the MRO *and* of the names asked.
    Returns (source, info): info['objs'] = [{'name', 'cls', 'bases'}], info['box'] = path prefix that
    reaches the same objects through attribute / item steps."""
    import itertools
    b1 = rng.choice(NO_BOOL_BASES)
    b2 = rng.choice(sorted(BUILTIN_BASES))
    lines = []
    lines += _mixin('MB', {'__bool__': 'user'})
    lines += _mixin('ML', {'__len__': 'user'})
    xdefs = {}
    for n in MIXIN_PROTOCOLS:
        r = rng.random()
        if r < 0.45:
            xdefs[n] = 'user'
        elif r < 0.6:
            xdefs[n] = 'none'
    lines += _mixin('MX', xdefs)
    lines += _mixin('MP', {})
    atoms = [b1, 'MB', 'ML', 'MX', 'MP']
    if b2 != b1:
        atoms.append(b2)

    def arg(bases):
        bs = [b for b in bases if b in BUILTIN_BASES]
        return BUILTIN_BASES[bs[0]] if bs else ''

    def valid(bases):
        return len([b for b in bases if b in BUILTIN_BASES]) <= 1

    classes = []      # (name, bases tuple, ctor arg)
    for a in atoms:
        if a not in BUILTIN_BASES:
            classes.append((None, (a,), ''))
    pairs = [p for p in itertools.permutations(atoms, 2) if valid(p)]
    triples = [p for p in itertools.permutations(atoms, 3) if valid(p)]
    chosen = pairs + rng.sample(triples, min(n_triples, len(triples)))
    for bases in chosen:
        classes.append((None, bases, arg(bases)))
    objs = []
    named = []
    i = 0
    for _, bases, a in classes:
        if len(bases) == 1:
            cname = bases[0]
        else:
            cname = 'P%d' % i
            i += 1
            own = {}
            if rng.random() < 0.15:
                own[rng.choice(['__bool__', '__len__'])] = rng.choice(['user', 'none'])
            body = _mixin(cname, own, ', '.join(bases))
            lines += body
        named.append((cname, bases, a))
    # one more level: children of the classes above, optionally with one more mixin in front / behind
    multi = [c for c in named if len(c[1]) > 1]
    for j in range(min(n_deep, len(multi))):
        parent, pbases, a = rng.choice(multi)
        extra = rng.choice([None, 'MB', 'ML', 'MP'])
        if extra is not None and extra in pbases:
            extra = None                                    # would not linearise in front of its subclass
        bases = (parent,) if extra is None else rng.choice([(parent, extra), (extra, parent)])
        cname = 'G%d' % j
        lines += _mixin(cname, {}, ', '.join(bases))
        named.append((cname, bases, a))
    for cname, bases, a in named:
        on = 'p_' + cname.lower()
        lines.append('%s = %s(%s)' % (on, cname, a))
        objs.append({'name': on, 'cls': cname, 'bases': list(bases)})
    lines.append('class Box:')
    lines.append('    pass')
    lines.append('box = Box()')
    lines.append("box.a = {'k': [{%s}]}" % ', '.join('%r: %s' % (o['name'], o['name']) for o in objs))
    src = PRELUDE + '\n'.join(lines) + '\n'
    return src, {'objs': objs, 'builtin': [b1, b2], 'mx': xdefs}


def describe_ty(obj, reg):
    """Ty JSON: exact type; for user types what the special methods resolve to"""
    t = type(obj)
    if t.__module__ == 'builtins':
        return {'builtin': t.__name__}
    return {'user': reg.id(t), 'getitem': slot_of(t, '__getitem__'), 'iter': slot_of(t, '__iter__'),
            'next': slot_of(t, '__next__'), 'bool': slot_of(t, '__bool__'), 'len': slot_of(t, '__len__')}

"""C01: code being typed, systematically for CALLS.

A fixed, valid program head defines callables of every shape jedi resolves without typeshed
(plain / defaulted / keyword-only / positional-only / star parameters, classes with and without
`__init__`, bound methods, methods through a call chain, lambdas, a function in a list) and a
few values.  Below it ONE statement containing a call is typed character by character; the
argument list is built from every kind of argument expression of the grammar (names, attribute
chains, subscripts, slices, calls, unary / binary / comparison / boolean / conditional
expressions, lambdas, strings, f-strings, displays, comprehensions, generator expressions,
walrus, `*x`, `**x`, `kw=expr`), in every kind of statement context a call occurs in, laid out on
one or several lines.

  lines(rng, n_random) -> list of items {'id', 'kinds', 'stmt', 'start'}   (the head is HEAD)
  cuts(stmt, start)    -> the prefix lengths of `stmt` that are typed

The systematic part is independent of the seed in WHAT it covers (every expression kind in
positional, `== 1`-compared and keyword-value position of an open call); the seed picks the
variant of the kind, the callee and the context.

Nothing here needs typeshed: no True / False / None, no results of builtin calls."""

HEAD = '''def f0():
    return 1


def f1(a1):
    return a1


def check(cond, msg=3, *, key=4):
    return cond


def fpos(p1, p2, /, r1, *rest, kw1=1, **more):
    return r1


def fstar(*args, **kwargs):
    return args


class A:
    x = 1

    def __init__(self, u=0, v=1):
        self.u = u

    def meth(self, p, q=2):
        return p

    def make(self):
        return A()


class B(A):
    y = 'txt'


class Plain:
    z = 2


lam = lambda l1, l2=1: l1
a = A()
bb = B()
n = 3
s = 'txt'
b = [1, 2]
d = {'k': 1}
t = (n, s)
fl = [f1]
'''

# callee expression -> names usable as keywords
CALLEES = [
    ('check', ['cond', 'msg', 'key']),
    ('f1', ['a1']),
    ('f0', []),
    ('fpos', ['r1', 'kw1', 'other']),
    ('fstar', ['any']),
    ('A', ['u', 'v']),
    ('B', ['u', 'v']),
    ('Plain', []),
    ('a.meth', ['p', 'q']),
    ('bb.meth', ['p', 'q']),
    ('a.make().meth', ['p', 'q']),
    ('A().meth', ['p', 'q']),
    ('lam', ['l1', 'l2']),
    ('fl[0]', ['a1']),
    ('(f1)', ['a1']),
    ('undefined_function', ['k']),
]
# the ones whose signature jedi resolves for sure (used by the systematic part)
RESOLVED = ['check', 'f1', 'fpos', 'fstar', 'A', 'a.meth', 'bb.meth', 'a.make().meth', 'lam']

EXPRS = {
    'name': ['n', 'a', 's', 'undefined'],
    'attr': ['a.x', 'a.u', 'bb.y'],
    'attr-chain': ['a.make().x', 'bb.make().u'],
    'subscript': ['b[0]', "d['k']", 't[1]', 'b[n]', 'b[-1]'],
    'slice': ['b[1:2]', 'b[:n]', 'b[::2]'],
    'call': ['f1(n)', 'f0()', 'a.meth(1)', 'A()', 'A(1, v=2)', 'f1(a1=n)'],
    'number': ['1', '0x1f', '1.5', '1j', '1_0'],
    'string': ["'s'", '"a=b, c"', "'''t'''", "b'x'", "'('", "r'\\d'", "'a' 'b'"],
    'fstring': ["f'{n}'", "f'{a.x!r:>4}'", "f'{n=}'", "f'{f1(n)}x'"],
    'unary': ['-n', '-a.x', '~n', 'not n', '+b[0]', '--n'],
    'binary': ['n + 1', 'a.x * 2', 'n ** -1', 's % n', 'b[0] // 2', 'n @ n', 'n | 1', 'n << 2', 'n - a.x'],
    'compare': ['a.x == 1', 'b[0] != 2', 'n < 3 <= a.x', 'n is a', 'n is not a', 'n in b', 'n not in b',
                '-a.x == 1', 'f1(n) == n', '(n) == 1', "'s' == s", '[n] == b', 'n >= 1', 'a.make().x == 1'],
    'bool': ['n and a', 'n or a.x', 'not n and n'],
    'conditional': ['n if a else s', 'a.x if n == 1 else 2'],
    'lambda': ['lambda q: q', 'lambda: 0', 'lambda q, r=1: q == r', 'lambda *z, **k: z'],
    'tuple': ['(n, s)', '()', '(n,)'],
    'list': ['[n, 1]', '[]', '[n, *b]'],
    'dict': ["{'k': n}", '{}', '{**d}', '{i: s for i in b}'],
    'set': ['{n, 1}', '{i for i in b}'],
    'list-comp': ['[y for y in b]', '[y for y in b if y == 1]'],
    'paren': ['(a.x)', '((n))', '(n + 1) * 2'],
    'walrus-paren': ['(w := 1)', '(w := a.x)'],
    'ellipsis': ['...'],
    'yield-paren': ['(yield)', '(yield n)'],
}
# only as an argument of their own
SOLE = {
    'genexp': ['y for y in b', 'y == 1 for y in b', 'y for y in b if y'],
    'walrus': ['w := n', 'w := a.x == 1'],
}
STARS = {
    'star': ['*b', '*a.x', '*[1, 2]', '*f1(b)', '*t'],
    'dstar': ['**d', '**a.u', "**{'k': 1}", '**f1(d)'],
}
# operators that continue an argument expression (typed after it); typing `f(expr == 1` passes
# through `f(expr =`, `f(expr <` ... : the half-typed operator
TAILS = [' == 1', ' != 2', ' <= n', ' is a', ' in b', ' + 1', '.x', '[0]', '(n)', ' if n else s', ' and n', ' >= 1', '==1']

# statement contexts: `%s` is the call
CONTEXTS = [
    ('stmt', '%s\n'),
    ('assign', 'r = %s\n'),
    ('attr-of-result', 'r = %s.x\n'),
    ('return', 'def g(gp=1):\n    return %s\n'),
    ('await', 'async def co():\n    r = await %s\n'),
    ('if', 'if %s:\n    pass\n'),
    ('elif', 'if n:\n    pass\nelif %s:\n    pass\n'),
    ('while', 'while %s:\n    break\n'),
    ('for', 'for i in %s:\n    pass\n'),
    ('with', 'with %s as w:\n    pass\n'),
    ('decorator', '@%s\ndef g():\n    pass\n'),
    ('bases', 'class C(%s):\n    pass\n'),
    ('in-list', 'r = [%s, n]\n'),
    ('in-dict', "r = {'k': %s}\n"),
    ('in-fstring', 'r = f"{%s}"\n'),
    ('lambda-body', 'r = lambda: %s\n'),
    ('default', 'def g(gp=%s):\n    pass\n'),
    ('annotation', 'def g(gp: %s):\n    pass\n'),
    ('assert', 'assert %s, s\n'),
    ('index', 'r = b[%s]\n'),
    ('after-semicolon', 'n = 1; %s\n'),
    ('conditional', 'r = %s if n else s\n'),
    ('nested', 'f1(%s)\n'),
    ('nested-kw', 'check(n, key=%s)\n'),
    ('method-arg', 'a.meth(%s).x\n'),
    ('try', 'try:\n    %s\nexcept A as e:\n    pass\n'),
    ('raise', 'raise %s\n'),
    ('class-body', 'class C:\n    z = %s\n'),
    ('self-call', 'class C:\n    def h(self, hp, hq=1):\n        return hp\n\n    def m(self):\n        return self.h(%s)\n'),
    ('comprehension', 'r = [%s for i in b]\n'),
    ('augassign', 'n += %s\n'),
    ('compare-result', 'r = %s == 1\n'),
    ('star-target', 'r, *q = %s\n'),
    ('print-like', 'f1(n, %s)\n'),
    ('del-subscript', 'del b[%s]\n'),
    ('global-in-def', 'def g():\n    global n\n    n = %s\n'),
]

LAYOUTS = ['flat', 'flat', 'flat', 'nospace', 'multi', 'multi-trailing', 'comment', 'backslash']


def pick(rng, xs):
    return xs[rng.randrange(len(xs))]


def expr_of(rng, kind):
    return pick(rng, EXPRS[kind])


def any_expr(rng, fstring_safe=False):
    kinds = sorted(EXPRS)
    for _ in range(20):
        e = expr_of(rng, pick(rng, kinds))
        if not fstring_safe or '"' not in e:
            return e
    return 'n'


def with_tail(e, tail):
    if tail == '.x' and e[-1].isdigit():
        return e + ' .x'
    return e + tail


def join_args(rng, args, layout):
    if not args:
        return '(\n)' if layout.startswith('multi') else '()'
    if layout == 'nospace':
        return '(' + ','.join(args) + ')'
    if layout == 'multi':
        return '(\n    ' + ',\n    '.join(args) + ')'
    if layout == 'multi-trailing':
        return '(\n    ' + ',\n    '.join(args) + ',\n)'
    if layout == 'comment':
        return '(' + ',  # c=1, (\n    '.join(args) + ')'
    if layout == 'backslash':
        return '(' + ', \\\n    '.join(args) + ')'
    return '(' + ', '.join(args) + ')'


def call_text(rng, callee, kws, layout=None, nargs=None, force=None, shuffle=False):
    """one call `callee(args)`; `force` = list of argument strings to place first; `shuffle`: the
    arguments in random order (a keyword or `**x` in front of a positional one: an argument moved
    by a small edit; CPython rejects the result, jedi has to live with it)"""
    args = list(force or [])
    kinds = []
    npos = rng.randint(0, 2) if nargs is None else nargs
    r = rng.random()
    if not args and r < 0.08:
        k = pick(rng, sorted(SOLE))
        args.append(pick(rng, SOLE[k]))
        kinds.append(k)
        layout = 'flat' if k == 'genexp' else layout
    else:
        for _ in range(npos):
            k = pick(rng, sorted(EXPRS))
            e = expr_of(rng, k)
            if rng.random() < 0.3:
                e = with_tail(e, pick(rng, TAILS))
            args.append(e)
            kinds.append(k)
        if rng.random() < 0.25:
            args.append(pick(rng, STARS['star']))
            kinds.append('star')
        used = []
        for _ in range(rng.randint(0, 2)):
            names = [x for x in kws if x not in used] or ['zz']
            kw = pick(rng, names)
            used.append(kw)
            k = pick(rng, sorted(EXPRS))
            e = expr_of(rng, k)
            if rng.random() < 0.3:
                e = with_tail(e, pick(rng, TAILS))
            args.append('%s=%s' % (kw, e) if rng.random() < 0.8 else '%s = %s' % (kw, e))
            kinds.append('kw:' + k)
        if rng.random() < 0.2:
            args.append(pick(rng, STARS['dstar']))
            kinds.append('dstar')
    layout = layout or pick(rng, LAYOUTS)
    if shuffle:
        rng.shuffle(args)
    return callee + join_args(rng, args, layout), kinds + ['layout:' + layout]


def in_context(rng, call, ctx=None):
    name, tpl = ctx or pick(rng, CONTEXTS)
    if name == 'in-fstring' and ('"' in call or '\\' in call or '#' in call or '\n' in call):
        name, tpl = CONTEXTS[1]
    return name, tpl % call, tpl.index('%s')


def systematic(rng, n_ctx=None):
    """every expression kind x {positional, compared, keyword value, after another argument}
    in an open call of a callable jedi resolves; the typed prefixes of these lines contain
    `f(<expr> <first character of every operator>` for every kind of <expr>"""
    items = []
    kinds = sorted(EXPRS)
    rng.shuffle(kinds)
    for i, k in enumerate(kinds):
        e1, e2, e3 = expr_of(rng, k), expr_of(rng, k), expr_of(rng, k)
        callee = RESOLVED[(i + rng.randrange(len(RESOLVED))) % len(RESOLVED)]
        kws = dict(CALLEES)[callee]
        kw = pick(rng, kws)
        tail1 = pick(rng, TAILS[:2])
        tail2 = pick(rng, TAILS)
        # `callee(e1 == 1[, e2 <tail>], kw=e3 != 2)`
        args = [with_tail(e1, tail1), '%s=%s%s' % (kw, e3, pick(rng, TAILS[:3]))]
        if rng.random() < 0.4:
            args.insert(1, with_tail(e2, tail2))
        layout = 'flat' if rng.random() < 0.7 else pick(rng, LAYOUTS)
        call = callee + join_args(rng, args, layout)
        cname, stmt, start = in_context(rng, call, CONTEXTS[i % 3] if rng.random() < 0.6 else None)
        items.append({'kinds': ['sys', k, 'callee:' + callee, 'ctx:' + cname, 'layout:' + layout], 'stmt': stmt,
                      'start': start})
    for k in sorted(SOLE):
        for e in SOLE[k]:
            callee = pick(rng, RESOLVED)
            items.append({'kinds': ['sys', k, 'callee:' + callee, 'ctx:stmt'], 'stmt': '%s(%s)\n' % (callee, e)})
    for k in sorted(STARS):
        e = pick(rng, STARS[k])
        callee = pick(rng, RESOLVED)
        items.append({'kinds': ['sys', k, 'callee:' + callee, 'ctx:stmt'],
                      'stmt': '%s(n, %s == 1, %s=2)\n' % (callee, e, pick(rng, dict(CALLEES)[callee]))})
    # an argument moved behind a keyword / `**` argument (small edit; not valid for CPython):
    # `callee(kw=e1, e2 == 1)`, `callee(**d, e1 != 2, kw=e2)`
    for j in range(3):
        callee = pick(rng, RESOLVED)
        kws = dict(CALLEES)[callee]
        k1, k2 = pick(rng, kinds), pick(rng, kinds)
        front = '%s=%s' % (pick(rng, kws), expr_of(rng, k1)) if j != 1 else pick(rng, STARS['dstar'])
        items.append({'kinds': ['moved', k2, 'callee:' + callee, 'ctx:stmt'], 'edited': True,
                      'stmt': '%s(%s, %s)\n' % (callee, front, with_tail(expr_of(rng, k2), pick(rng, [' == 1', '==1'])))})
    # every context once (a random `n_ctx` of them in the quick tier), every callee once
    ctxs = list(enumerate(CONTEXTS))
    if n_ctx is not None and n_ctx < len(ctxs):
        ctxs = sorted(rng.sample(ctxs, n_ctx))
    for j, c in ctxs:
        callee, kws = CALLEES[j % len(CALLEES)]
        call, kinds2 = call_text(rng, callee, kws, layout='flat',
                                 force=[any_expr(rng, c[0] == 'in-fstring') + pick(rng, TAILS[:2])])
        cname, stmt, start = in_context(rng, call, c)
        items.append({'kinds': ['ctx', 'callee:' + callee, 'ctx:' + cname] + kinds2, 'stmt': stmt, 'start': start})
    return items


def random_items(rng, n):
    items = []
    for _ in range(n):
        callee, kws = pick(rng, CALLEES)
        moved = rng.random() < 0.2
        call, kinds = call_text(rng, callee, kws, shuffle=moved, nargs=rng.randint(1, 2) if moved else None)
        if rng.random() < 0.25 and kinds[-1] in ('layout:flat', 'layout:nospace'):
            # a call as an argument of a call
            inner, k2 = call_text(rng, *pick(rng, CALLEES), layout='flat')
            head, rest = call.split('(', 1) if callee not in ('(f1)', 'A().meth', 'a.make().meth') else (None, None)
            if head is not None and 'genexp' not in kinds:
                call = head + '(' + inner + ('' if rest == ')' else ',' if 'nospace' in kinds[-1] else ', ') + rest
            kinds = kinds + ['inner-call']
        cname, stmt, start = in_context(rng, call)
        items.append({'kinds': ['moved' if moved else 'rnd', 'callee:' + callee, 'ctx:' + cname] + kinds, 'stmt': stmt,
                      'start': start, 'edited': moved})
    return items


def lines(rng, n_random, n_ctx=None):
    """all statements are valid programs when put below HEAD (checked with `ast.parse`; a
    generated statement that is not valid is dropped, not repaired) -- except the family `moved`
    (kind 'moved', 'edited': True): one argument of a valid call moved behind a keyword / `**`
    argument, i.e. a small edit of a valid program"""
    import ast
    import warnings
    items = systematic(rng, n_ctx) + random_items(rng, n_random)
    seen = set()
    out = []
    for i, it in enumerate(items):
        if it['stmt'] in seen:
            continue
        try:
            with warnings.catch_warnings():
                warnings.simplefilter('ignore')
                ast.parse(HEAD + it['stmt'])
        except SyntaxError:
            if not it.get('edited'):
                continue
        seen.add(it['stmt'])
        it['id'] = i
        out.append(it)
    return out


def cuts(stmt, start=0):
    """every prefix length from the first character of the call on (the statement text in front
    of the call is there already: typing it is the business of the generic prefix family)"""
    return list(range(start + 1, len(stmt) + 1))


def hot(stmt, n):
    """is the prefix stmt[:n] one where the query methods do most work: right after an operator,
    bracket, comma, dot, blank or at the end of a word"""
    c = stmt[n - 1]
    if not (c.isalnum() or c == '_'):
        return True
    return n == len(stmt) or not (stmt[n].isalnum() or stmt[n] == '_')


def end_position(text):
    line = text.count('\n') + 1
    col = len(text) - (text.rfind('\n') + 1)
    return line, col

"""Programs exercising argument-to-parameter binding (positional, defaults, *args, keyword-only,
**kwargs, keyword arguments; functions, methods, lambdas) for the direct C02 oracle.
Values are instances of tiny distinct classes, so the run-time class of a result says exactly
which argument / default reached it.  No Lean model stands behind this stream: it is the
failing-input search over code the PyCore fragment does not cover yet."""

NCLS = 6


def gen_signature(rng):
    """returns dict(pos=[(name, default_cls|None)], star=name|None, kwonly=[(name, default|None)], kw=name|None)"""
    npos = rng.randint(0, 3)
    pos = []
    seen_default = False
    for i in range(npos):
        d = None
        if seen_default or rng.random() < 0.3:
            d = rng.randrange(NCLS)
            seen_default = True
        pos.append(('p%d' % i, d))
    star = 'rest' if rng.random() < 0.55 else None
    kwonly = []
    for i in range(rng.randint(0, 2) if (star or rng.random() < 0.5) else 0):
        kwonly.append(('k%d' % i, rng.randrange(NCLS) if rng.random() < 0.6 else None))
    kw = 'opts' if rng.random() < 0.4 else None
    return {'pos': pos, 'star': star, 'kwonly': kwonly, 'kw': kw}


def sig_text(sig, with_self=False):
    parts = ['self'] if with_self else []
    for n, d in sig['pos']:
        parts.append(n if d is None else '%s=V%d()' % (n, d))
    if sig['star']:
        parts.append('*' + sig['star'])
    elif sig['kwonly']:
        parts.append('*')
    for n, d in sig['kwonly']:
        parts.append(n if d is None else '%s=V%d()' % (n, d))
    if sig['kw']:
        parts.append('**' + sig['kw'])
    return ', '.join(parts)


def gen_call(rng, sig):
    """a call that binds: returns (arg text list, extra positional count, extra keyword names)"""
    args = []
    npos_given = 0
    required = [n for n, d in sig['pos'] if d is None]
    optional = [n for n, d in sig['pos'] if d is not None]
    by_kw = []
    # required positionals: positionally, or by keyword from some point on (only when no surplus)
    k_from = len(required) if sig['star'] and rng.random() < 0.7 else rng.randint(0, len(required))
    for i, n in enumerate(required):
        if i < k_from:
            args.append('V%d()' % rng.randrange(NCLS))
            npos_given += 1
        else:
            by_kw.append(n)
    extras = 0
    if npos_given == len(required):
        for n in optional:
            if rng.random() < 0.5 and not by_kw:
                args.append('V%d()' % rng.randrange(NCLS))
                npos_given += 1
            else:
                break
        if sig['star'] and npos_given == len(sig['pos']):
            extras = rng.randint(0, 2)
            for _ in range(extras):
                args.append('V%d()' % rng.randrange(NCLS))
    given_names = set(n for n, _ in sig['pos'][:npos_given])
    for n in by_kw:
        args.append('%s=V%d()' % (n, rng.randrange(NCLS)))
        given_names.add(n)
    for n, d in sig['pos']:
        if n not in given_names and d is not None and rng.random() < 0.3:
            args.append('%s=V%d()' % (n, rng.randrange(NCLS)))
            given_names.add(n)
    for n, d in sig['kwonly']:
        if d is None or rng.random() < 0.6:
            args.append('%s=V%d()' % (n, rng.randrange(NCLS)))
    extra_kw = []
    if sig['kw']:
        for i in range(rng.randint(0, 2)):
            name = 'x%d' % i
            extra_kw.append(name)
            args.append('%s=V%d()' % (name, rng.randrange(NCLS)))
    # keyword arguments may come in any order among themselves
    pos_part = [a for a in args if '=' not in a]
    kw_part = [a for a in args if '=' in a]
    rng.shuffle(kw_part)
    return pos_part + kw_part, extras, extra_kw


def gen_program(rng):
    """returns (source, probes) with probes = [(name, line)] ; every probe `name` stands alone on
    its line after being assigned the result of one call"""
    lines = ['class V%d: pass' % i for i in range(NCLS)]
    funcs = []
    for i in range(rng.randint(2, 4)):
        sig = gen_signature(rng)
        kind = rng.choice(['def', 'def', 'method', 'lambda'])
        funcs.append((i, kind, sig))
    calls = []
    for i, kind, sig in funcs:
        # what to return
        for attempt in range(rng.randint(1, 3)):
            args, extras, extra_kw = gen_call(rng, sig)
            rets = [n for n, _ in sig['pos']] + [n for n, _ in sig['kwonly']]
            if sig['star'] and extras:
                rets.append('%s[%d]' % (sig['star'], rng.randrange(extras)))
            if sig['kw'] and extra_kw:
                rets.append("%s['%s']" % (sig['kw'], rng.choice(extra_kw)))
            if not rets:
                continue
            calls.append((i, kind, sig, rng.choice(rets), args))
    defined = set()
    out_calls = []
    for j, (i, kind, sig, ret, args) in enumerate(calls):
        fname = 'f%d_%d' % (i, j)
        if kind == 'def':
            lines.append('def %s(%s):' % (fname, sig_text(sig)))
            lines.append('    return %s' % ret)
            callee = fname
        elif kind == 'method':
            lines.append('class B%d_%d:' % (i, j))
            lines.append('    def m(%s):' % sig_text(sig, with_self=True))
            lines.append('        return %s' % ret)
            callee = 'B%d_%d().m' % (i, j)
        else:
            lines.append('%s = lambda %s: %s' % (fname, sig_text(sig), ret))
            callee = fname
        out_calls.append((callee, args))
    probes = []
    for j, (callee, args) in enumerate(out_calls):
        lines.append('r%d = %s(%s)' % (j, callee, ', '.join(args)))
        lines.append('r%d' % j)
        probes.append(('r%d' % j, len(lines)))
    return '\n'.join(lines) + '\n', probes


def run(source, probes):
    """{probe name: (class name, class def line)} for probes whose value is an instance of a V class"""
    g = {'__name__': '__argbind__'}
    try:
        exec(compile(source, '<argbind>', 'exec'), g)
    except Exception as e:
        return None, type(e).__name__
    class_line = {}
    for i, ln in enumerate(source.split('\n'), 1):
        if ln.startswith('class V'):
            class_line[ln[6:].split(':')[0]] = i
    out = {}
    for name, _ in probes:
        v = g.get(name)
        cn = type(v).__name__
        if cn in class_line:
            out[name] = (cn, class_line[cn])
    return out, None

"""Programs exercising argument-to-parameter binding (positional, defaults, *args, keyword-only,
**kwargs, keyword arguments; functions, methods, lambdas) for the direct C02 oracle.
Values are instances of tiny distinct classes, so the run-time class of a result says exactly
which argument / default reached it.  No Lean model stands behind this stream: it is the
failing-input search over code the PyCore fragment does not cover yet."""

NCLS = 6


def gen_signature(rng):
    """returns dict(pos=[(name, default_cls|None)], star=name|None, kwonly=[(name, default|None)], kw=name|None)"""
    npos = rng.randint(0, 3)
    pos = []
    seen_default = False
    for i in range(npos):
        d = None
        if seen_default or rng.random() < 0.3:
            d = rng.randrange(NCLS)
            seen_default = True
        pos.append(('p%d' % i, d))
    star = 'rest' if rng.random() < 0.55 else None
    kwonly = []
    for i in range(rng.randint(0, 2) if (star or rng.random() < 0.5) else 0):
        kwonly.append(('k%d' % i, rng.randrange(NCLS) if rng.random() < 0.6 else None))
    kw = 'opts' if rng.random() < 0.4 else None
    return {'pos': pos, 'star': star, 'kwonly': kwonly, 'kw': kw}


def sig_text(sig, with_self=False):
    parts = ['self'] if with_self else []
    for n, d in sig['pos']:
        parts.append(n if d is None else '%s=V%d()' % (n, d))
    if sig['star']:
        parts.append('*' + sig['star'])
    elif sig['kwonly']:
        parts.append('*')
    for n, d in sig['kwonly']:
        parts.append(n if d is None else '%s=V%d()' % (n, d))
    if sig['kw']:
        parts.append('**' + sig['kw'])
    return ', '.join(parts)


def gen_call(rng, sig):
    """a call that binds: returns (arg text list, extra positional count, extra keyword names)"""
    args = []
    npos_given = 0
    required = [n for n, d in sig['pos'] if d is None]
    optional = [n for n, d in sig['pos'] if d is not None]
    by_kw = []
    # required positionals: positionally, or by keyword from some point on (only when no surplus)
    k_from = len(required) if sig['star'] and rng.random() < 0.7 else rng.randint(0, len(required))
    for i, n in enumerate(required):
        if i < k_from:
            args.append('V%d()' % rng.randrange(NCLS))
            npos_given += 1
        else:
            by_kw.append(n)
    extras = 0
    if npos_given == len(required):
        for n in optional:
            if rng.random() < 0.5 and not by_kw:
                args.append('V%d()' % rng.randrange(NCLS))
                npos_given += 1
            else:
                break
        if sig['star'] and npos_given == len(sig['pos']):
            extras = rng.randint(0, 2)
            for _ in range(extras):
                args.append('V%d()' % rng.randrange(NCLS))
    given_names = set(n for n, _ in sig['pos'][:npos_given])
    for n in by_kw:
        args.append('%s=V%d()' % (n, rng.randrange(NCLS)))
        given_names.add(n)
    for n, d in sig['pos']:
        if n not in given_names and d is not None and rng.random() < 0.3:
            args.append('%s=V%d()' % (n, rng.randrange(NCLS)))
            given_names.add(n)
    for n, d in sig['kwonly']:
        if d is None or rng.random() < 0.6:
            args.append('%s=V%d()' % (n, rng.randrange(NCLS)))
    extra_kw = []
    if sig['kw']:
        for i in range(rng.randint(0, 2)):
            name = 'x%d' % i
            extra_kw.append(name)
            args.append('%s=V%d()' % (name, rng.randrange(NCLS)))
    # keyword arguments may come in any order among themselves
    pos_part = [a for a in args if '=' not in a]
    kw_part = [a for a in args if '=' in a]
    rng.shuffle(kw_part)
    return pos_part + kw_part, extras, extra_kw


def gen_program(rng):
    """returns (source, probes) with probes = [(name, line)] ; every probe `name` stands alone on
    its line after being assigned the result of one call"""
    lines = ['class V%d: pass' % i for i in range(NCLS)]
    funcs = []
    for i in range(rng.randint(2, 4)):
        sig = gen_signature(rng)
        kind = rng.choice(['def', 'def', 'method', 'lambda'])
        funcs.append((i, kind, sig))
    calls = []
    for i, kind, sig in funcs:
        # what to return
        for attempt in range(rng.randint(1, 3)):
            args, extras, extra_kw = gen_call(rng, sig)
            rets = [n for n, _ in sig['pos']] + [n for n, _ in sig['kwonly']]
            if sig['star'] and extras:
                rets.append('%s[%d]' % (sig['star'], rng.randrange(extras)))
            if sig['kw'] and extra_kw:
                rets.append("%s['%s']" % (sig['kw'], rng.choice(extra_kw)))
            if not rets:
                continue
            calls.append((i, kind, sig, rng.choice(rets), args))
    defined = set()
    out_calls = []
    for j, (i, kind, sig, ret, args) in enumerate(calls):
        fname = 'f%d_%d' % (i, j)
        if kind == 'def':
            lines.append('def %s(%s):' % (fname, sig_text(sig)))
            lines.append('    return %s' % ret)
            callee = fname
        elif kind == 'method':
            lines.append('class B%d_%d:' % (i, j))
            lines.append('    def m(%s):' % sig_text(sig, with_self=True))
            lines.append('        return %s' % ret)
            callee = 'B%d_%d().m' % (i, j)
        else:
            lines.append('%s = lambda %s: %s' % (fname, sig_text(sig), ret))
            callee = fname
        out_calls.append((callee, args))
    probes = []
    for j, (callee, args) in enumerate(out_calls):
        lines.append('r%d = %s(%s)' % (j, callee, ', '.join(args)))
        lines.append('r%d' % j)
        probes.append(('r%d' % j, len(lines)))
    return '\n'.join(lines) + '\n', probes


def run(source, probes):
    """{probe name: (class name, class def line)} for probes whose value is an instance of a V class"""
    g = {'__name__': '__argbind__'}
    try:
        exec(compile(source, '<argbind>', 'exec'), g)
    except Exception as e:
        return None, type(e).__name__
    class_line = {}
    for i, ln in enumerate(source.split('\n'), 1):
        if ln.startswith('class V'):
            class_line[ln[6:].split(':')[0]] = i
    out = {}
    for name, _ in probes:
        v = g.get(name)
        cn = type(v).__name__
        if cn in class_line:
            out[name] = (cn, class_line[cn])
    return out, None


# ------------------------------------------------------------------------------------------
# stream `bind`: signatures x calls for Model/ArgBind (bindJ = jedi, bindPy = CPython)
#
# signature = list of [name, kind, has_default] with kind in pos|star|kwonly|dstar, in the
# order of the `def`; call = (number of positional arguments, [keyword names in call order]).
# Argument i of the call (positionals first, then keywords) is the expression `A<i>()`, the
# default of parameter `n` is `D_<n>()`: the class of a run-time value says which one it is.

FOREIGN = ['x0', 'x1']
MAXARGS = 8


def enum_signatures(max_pos, max_kwonly):
    for npos in range(max_pos + 1):
        for ndef in range(npos + 1):                       # defaults are trailing
            pos = [['p%d' % i, 'pos', i >= npos - ndef] for i in range(npos)]
            for star in (False, True):
                for nk in range(max_kwonly + 1):
                    for mask in range(2 ** nk):
                        kwo = [['k%d' % i, 'kwonly', bool(mask >> i & 1)] for i in range(nk)]
                        for ds in (False, True):
                            yield pos + ([['rest', 'star', False]] if star else []) + kwo + \
                                ([['opts', 'dstar', False]] if ds else [])


def enum_calls(sig, max_posargs, max_kws, foreign=FOREIGN):
    """every (npos, keyword names): keywords = ordered selections of distinct names among all
    parameter names (the *args / **kwargs names too) and the foreign names"""
    import itertools
    names = [p[0] for p in sig] + list(foreign)
    for npos in range(max_posargs + 1):
        for nk in range(max_kws + 1):
            for kws in itertools.permutations(names, nk):
                yield [npos, list(kws)]


def random_signature(rng):
    npos = rng.randint(0, 4)
    ndef = rng.randint(0, npos)
    sig = [['p%d' % i, 'pos', i >= npos - ndef] for i in range(npos)]
    if rng.random() < 0.55:
        sig.append(['rest', 'star', False])
    for i in range(rng.choice([0, 0, 1, 2, 3])):
        sig.append(['k%d' % i, 'kwonly', rng.random() < 0.5])
    if rng.random() < 0.5:
        sig.append(['opts', 'dstar', False])
    return sig


def random_call(rng, sig):
    """mostly calls CPython accepts, some it rejects"""
    posn = [p[0] for p in sig if p[1] == 'pos']
    has_star = any(p[1] == 'star' for p in sig)
    has_ds = any(p[1] == 'dstar' for p in sig)
    if rng.random() < 0.8:
        npos = rng.randint(0, len(posn) + (3 if has_star else 0))
        kws = []
        for p in sig:
            if p[1] == 'pos' and posn.index(p[0]) < npos:
                continue
            if p[1] in ('pos', 'kwonly') and (not p[2] or rng.random() < 0.5):
                kws.append(p[0])
        if has_ds:
            kws += rng.sample(FOREIGN + [p[0] for p in sig if p[1] in ('star', 'dstar')], rng.choice([0, 0, 1, 2]))
        if rng.random() < 0.15 and kws:
            kws.pop(rng.randrange(len(kws)))
        rng.shuffle(kws)
        kws = kws[:MAXARGS - 2]
        return [max(0, min(npos, MAXARGS - len(kws))), kws]
    names = [p[0] for p in sig] + FOREIGN
    kws = rng.sample(names, rng.randint(0, min(3, len(names))))
    return [rng.randint(0, len(posn) + 2), kws]


def bind_sig_text(sig, default=lambda n: 'D_%s()' % n):
    parts = []
    seen_star = False
    for n, k, d in sig:
        if k == 'kwonly' and not seen_star:
            parts.append('*')
            seen_star = True
        if k == 'star':
            seen_star = True
        parts.append({'pos': '', 'kwonly': '', 'star': '*', 'dstar': '**'}[k] + n + ('=' + default(n) if d else ''))
    return ', '.join(parts)


def bind_call_text(call, arg=lambda i: 'A%d()' % i):
    npos, kws = call
    return ', '.join([arg(i) for i in range(npos)] + ['%s=%s' % (k, arg(npos + j)) for j, k in enumerate(kws)])


def bind_encode(sig, call):
    """request for the Lean driver: parameter i is name i, foreign keyword j is name 100+j"""
    idx = {p[0]: i for i, p in enumerate(sig)}
    for j, x in enumerate(FOREIGN):
        idx[x] = 100 + j
    npos, kws = call
    return {'op': 'bind', 'params': [[idx[n], k, bool(d)] for n, k, d in sig],
            'pos': list(range(npos)), 'kws': [[idx[k], npos + j] for j, k in enumerate(kws)]}


def bind_decode(sig, env):
    """driver answer -> [[param name, bound]] with keyword names spelled out"""
    if env is None:
        return None
    names = {i: p[0] for i, p in enumerate(sig)}
    for j, x in enumerate(FOREIGN):
        names[100 + j] = x
    out = []
    for n, b in env:
        if b[0] == 'dict':
            b = ['dict', [[names[k], a] for k, a in b[1]]]
        out.append([names[n], b])
    return out


def cpython_bind(sig, calls):
    """[[param name, bound]] or None (TypeError) for every call, by CPython itself: a real
    function returning its locals is really called"""
    g = {}
    exec('def f(%s): return locals()' % bind_sig_text(sig, default=lambda n: "'default'"), g)
    out = []
    for call in calls:
        try:
            loc = eval('f(%s)' % bind_call_text(call, arg=str), g)
        except TypeError:
            out.append(None)
            continue
        env = []
        for n, k, _ in sig:
            v = loc[n]
            if k == 'star':
                b = ['tuple', list(v)]
            elif k == 'dstar':
                b = ['dict', [[kk, vv] for kk, vv in v.items()]]
            elif v == 'default':
                b = ['default']
            else:
                b = ['arg', v]
            env.append([n, b])
        out.append(env)
    return out


def kw_spelled_like_star(sig, call):
    stars = {p[0] for p in sig if p[1] in ('star', 'dstar')}
    return any(k in stars for k in call[1])


HEADER = ['class A%d: pass' % i for i in range(MAXARGS)]


def bind_module(sig, calls):
    """source with one `def f` and one call statement per call (arguments are bare names: they are
    identified by position, never inferred); returns (source, line of the first call)"""
    lines = ['def f(%s): pass' % bind_sig_text(sig, default=lambda n: 'd_' + n)]
    first = len(lines) + 1
    lines += ['f(%s)' % bind_call_text(c, arg=lambda i: 'a%d' % i) for c in calls]
    return '\n'.join(lines) + '\n', first


def observables(sig, call, py_env):
    """expressions over the parameters whose run-time class identifies the binding"""
    obs = []
    for n, b in py_env:
        obs.append(n)
        if b[0] == 'tuple':
            obs += ['%s[%d]' % (n, i) for i in range(len(b[1]))]
        elif b[0] == 'dict':
            obs += ["%s['%s']" % (n, k) for k, _ in b[1]]
    return obs


def oracle_program(sig, call, obs):
    """one function per observable, all with the same signature and call; probes r<i> alone on a
    line.  returns (source, [(probe name, line)], {class name: def line})"""
    lines = list(HEADER)
    lines += ['class D_%s: pass' % n for n, _, d in sig if d]
    class_line = {ln[6:].split(':')[0]: i for i, ln in enumerate(lines, 1)}
    for i, o in enumerate(obs):
        lines.append('def f%d(%s):' % (i, bind_sig_text(sig)))
        lines.append('    return %s' % o)
    probes = []
    for i, o in enumerate(obs):
        lines.append('r%d = f%d(%s)' % (i, i, bind_call_text(call)))
        lines.append('r%d' % i)
        probes.append(('r%d' % i, len(lines)))
    return '\n'.join(lines) + '\n', probes, class_line

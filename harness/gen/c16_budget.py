"""Programs for C16 in which ONE query uses up one of jedi's per-query budgets, and questions that
need one more unit of that budget.

The budgets (all re-created by InferenceState.reset_recursion_limitations at the start of every
public query method, which is what makes them *per query*):

  perfunc  recursion.per_function_execution_limit   executions of one function          (6)
  total    recursion.total_function_execution_limit executions of non-builtin functions (200)
  cap      syntax_tree._limit_value_infers          inferences in one context           (300)
  dyn      dynamic_params.MAX_PARAM_SEARCHES        call sites looked at per parameter  (20)

The limits are read from the sources of the checkout under test (`limits(repo)`, python ast, jedi
is not imported) and the programs are generated from them: for a limit n a program whose exhausting
query uses n-1, n, n+1 units (`delta`).  How much a query really used is measured by the harness on
the real InferenceState afterwards (bucket of the stream), so a generator that is off by a few units
(family cap: ~4 inferences per name) shows in the histogram instead of silently missing the boundary.

build(spec) -> {'source', 'exhaust': [query...], 'probes': [query...], 'cheap': [query...]}
   query = [method, line, column]; method is a Script method name, or 'search:<string>',
   'complete_search:<string>', 'get_names', 'get_context'
   exhaust: each of them, asked as the first query of a Script, uses the budget up to n+delta
            (the same budget through different public methods)
   probes:  each needs at least one more unit of the exhausted budget (an execution of the callee /
            an inference in the module context) and has a non-empty answer on a fresh Script
   cheap:   queries that need none (they only reset)

Only user classes, instances and functions are used as values (the sandbox has no typeshed).
"""
import ast
import os

FAMILIES = ('perfunc', 'total', 'cap', 'dyn')
SHAPES = ('branches', 'tuple', 'method')


def limits(repo):
    """the limits as they stand in the sources of `repo`"""
    out = {}
    with open(os.path.join(repo, 'jedi/inference/recursion.py'), encoding='utf-8') as f:
        tree = ast.parse(f.read())
    for n in tree.body:
        if isinstance(n, ast.Assign) and isinstance(n.targets[0], ast.Name) and isinstance(n.value, ast.Constant) \
                and isinstance(n.value.value, int):
            out[n.targets[0].id] = n.value.value
    with open(os.path.join(repo, 'jedi/inference/dynamic_params.py'), encoding='utf-8') as f:
        tree = ast.parse(f.read())
    for n in tree.body:
        if isinstance(n, ast.Assign) and isinstance(n.targets[0], ast.Name) and n.targets[0].id == 'MAX_PARAM_SEARCHES' \
                and isinstance(n.value, ast.Constant):
            out['MAX_PARAM_SEARCHES'] = n.value.value
    with open(os.path.join(repo, 'jedi/inference/syntax_tree.py'), encoding='utf-8') as f:
        tree = ast.parse(f.read())
    for fn in ast.walk(tree):
        if isinstance(fn, ast.FunctionDef) and fn.name == '_limit_value_infers':
            for n in ast.walk(fn):
                if isinstance(n, ast.Assign) and isinstance(n.targets[0], ast.Name) and n.targets[0].id == 'maximum' \
                        and isinstance(n.value, ast.Constant):
                    out['node_cap'] = n.value.value
    need = ['per_function_execution_limit', 'total_function_execution_limit', 'recursion_limit',
            'per_function_recursion_limit', 'MAX_PARAM_SEARCHES', 'node_cap']
    missing = [k for k in need if not isinstance(out.get(k), int)]
    if missing:
        raise ValueError('limits not found in the sources: %s' % missing)
    return {k: out[k] for k in need}


class _Src:
    def __init__(self):
        self.lines = []

    def add(self, text):
        for l in text.split('\n'):
            self.lines.append(l)
        return len(self.lines)      # 1-based number of the last line added

    def text(self):
        return '\n'.join(self.lines) + '\n'


HEAD = """class A:
    def m(self, p, q):
        pass
    def g(self, x):
        return x


def g(x):
    return x


def h(x):
    return x


a = A()"""


def _probe_block(s, call, tag):
    """the questions: each needs one more execution of the callee of `call` (and a handful of
    inferences in the module context).  Every public query method of Script is asked."""
    probes = []
    t = 't' + tag
    n = s.add('%s = %s' % (t, call))
    n = s.add(t)
    probes += [['infer', n, len(t)], ['help', n, len(t)]]
    n = s.add('%s.m' % t)
    c = len(t) + 1
    probes += [['complete', n, c], ['goto', n, c + 1], ['infer', n, c + 1], ['help', n, c + 1],
               ['get_references', n, c + 1]]
    probes += [['search:%s.m' % t, 0, 0], ['complete_search:%s.' % t, 0, 0]]
    cheap = [['get_names', 0, 0], ['get_context', n, 1], ['goto', n - 1, 1], ['search:%s' % t, 0, 0],
             ['infer', n - 1, 10000]]       # the last one: out of range, raises ValueError
    n = s.add('%s.m' % call)
    probes += [['infer', n, len(call) + 2], ['complete', n, len(call) + 1]]
    # last line (the bracket stays open): the signature of m, and the completion of its parameter
    # names, which Script.complete asks Script.get_signatures for (signatures callback)
    n = s.add('%s.m(p' % call)
    probes += [['get_signatures', n, len(call) + 3], ['complete', n, len(call) + 4]]
    return probes, cheap


def _use_block(s, name):
    """the same exhausting computation reached through different public methods"""
    ex = []
    n = s.add(name)
    ex += [['infer', n, len(name)], ['help', n, len(name)]]
    n = s.add('%s.m' % name)
    c = len(name) + 1
    ex += [['complete', n, c], ['goto', n, c + 1], ['get_references', n, c + 1]]
    n = s.add('%s.m(a, a)' % name)
    ex += [['get_signatures', n, c + 2]]
    ex += [['search:%s.m' % name, 0, 0]]
    return ex


def build(spec):
    """spec: {'family', 'n' (the limit), 'delta', 'shape', 'variant'}; deterministic text"""
    fam, n, delta, shape = spec['family'], spec['n'], spec['delta'], spec.get('shape', 'branches')
    units = max(0, n + delta)
    s = _Src()
    s.add(HEAD)
    if fam == 'perfunc':
        call = 'a.g(a)' if shape == 'method' else 'g(a)'
        if shape == 'tuple':
            s.add('y = (%s,)' % ', '.join([call] * units))
            s.add('for r in y:\n    pass')
        else:
            for i in range(units):
                kw = 'if c%d:' % i if i == 0 else ('elif c%d:' % i if i < units - 1 else 'else:')
                s.add('%s\n    r = %s' % (kw, call))
            if units == 0:
                s.add('r = a')
        exhaust = _use_block(s, 'r')
        probes, cheap = _probe_block(s, call, '')
    elif fam == 'total':
        # groups of functions, each group in a scope of its own (the per-context cap is another
        # budget); calling group k costs 1 + size_k executions, every function is executed once
        per = max(1, min(39, spec.get('group', 39)))
        sizes, left = [], units
        while left > 0:
            k = min(per, left - 1)
            sizes.append(k)
            left -= k + 1
        for gi, k in enumerate(sizes):
            for i in range(k):
                s.add('def f%d_%d():\n    return a' % (gi, i))
            if k:
                s.add('def grp%d():\n    y = (%s,)\n    for z in y:\n        return z'
                      % (gi, ', '.join('f%d_%d()' % (gi, i) for i in range(k))))
            else:
                s.add('def grp%d():\n    return a' % gi)
        s.add('y = (%s)' % ''.join('grp%d(), ' % gi for gi in range(len(sizes))) if sizes else 'y = (a,)')
        s.add('for r in y:\n    pass')
        exhaust = _use_block(s, 'r')
        probes, cheap = _probe_block(s, 'h(a)', '')
    elif fam == 'cap':
        # `units` is the number of inferences in the module context the exhausting query should
        # make; one name costs about 4 of them (measured by the harness, see the module docstring)
        k = max(1, (units - 6) // 4)
        for i in range(k):
            s.add('x%d = a' % i)
        s.add('y = (%s,)' % ', '.join('x%d' % i for i in range(k)))
        s.add('for r in y:\n    pass')
        exhaust = _use_block(s, 'r')[:2]
        probes, cheap = _probe_block(s, 'h(a)', '')
    elif fam == 'dyn':
        # a parameter whose values come from `units` call sites with distinct argument classes
        for i in range(units):
            s.add('class K%d:\n    def m(self, p, q):\n        pass' % i)
        n0 = s.add('def dpbudget(v):')
        n1 = s.add('    v')
        n2 = s.add('    v.m')
        n3 = s.add('    return v')
        for i in range(units):
            s.add('dpbudget(K%d())' % i)
        exhaust = [['infer', n1, 5], ['help', n1, 5], ['complete', n2, 6]]
        probes = [['infer', n3, 12], ['infer', n2, 7], ['goto', n2, 7], ['get_references', n2, 7],
                  ['complete', n2, 6], ['help', n3, 12]]
        p2, cheap = _probe_block(s, 'h(a)', '')
        probes += p2[-2:] + p2[:1]
    else:
        raise ValueError(fam)
    return {'source': s.text().rstrip('\n'), 'exhaust': exhaust, 'probes': probes, 'cheap': cheap}


def boundary_specs(lim, quick):
    """for every budget the programs at n-1, n, n+1 (thorough: also far below / above)"""
    out = []
    deltas = [-1, 0, 1] if quick else [-2, -1, 0, 1, 2, 5]
    for d in deltas:
        for shape in SHAPES:
            out.append({'family': 'perfunc', 'n': lim['per_function_execution_limit'], 'delta': d, 'shape': shape})
    for d in ([-1, 0, 1] if quick else [-2, -1, 0, 1, 3]):
        out.append({'family': 'total', 'n': lim['total_function_execution_limit'], 'delta': d})
    # family cap: steps of 4 units = one name
    for d in ([-8, -4, 0, 4] if quick else [-16, -12, -8, -4, 0, 4, 8, 40]):
        out.append({'family': 'cap', 'n': lim['node_cap'], 'delta': d})
    for d in ([-1, 0, 1] if quick else [-10, -1, 0, 1, 2]):
        out.append({'family': 'dyn', 'n': lim['MAX_PARAM_SEARCHES'], 'delta': d})
        out.append({'family': 'dyn', 'n': lim['MAX_PARAM_SEARCHES'] // 2, 'delta': d})
    return out


def sessions(rng, prog, quick, family):
    """histories on ONE Script: an exhausting query directly followed by a question that needs one
    more unit (every pair exhausting method x asking method in the thorough tier, a sample that
    still asks every probe in the quick tier); the question first, then the exhausting query, then
    the question again; a resetting cheap query in between; random longer histories"""
    ex, pr, ch = prog['exhaust'], prog['probes'], prog['cheap']
    out = []
    heavy = family == 'total'
    if quick or heavy:
        # every probe once behind some exhausting query, every exhausting query at least once
        order = list(ex)
        rng.shuffle(order)
        if quick and heavy:
            # 200 executions per exhausting query (about a second): two exhausting methods, and
            # get_signatures + three other asking methods chosen by the seed (thorough: all)
            order = order[:2]
            sig = [p for p in pr if p[0] == 'get_signatures']
            seen, some = {'get_signatures'}, []
            for p in rng.sample(pr, len(pr)):
                if p[0].split(':')[0] not in seen:
                    seen.add(p[0].split(':')[0])
                    some.append(p)
            pr = sig + some[:3]
        for i, p in enumerate(pr):
            out.append([order[i % len(order)], p])
    else:
        out += [[e, p] for e in ex for p in pr]
    if quick and heavy:
        return out
    for _ in range(2 if quick else 6):
        e, p, c = rng.choice(ex), rng.choice(pr), rng.choice(ch)
        out.append([p, e, p])
        out.append([e, p, c, p])
        out.append([c, e, p])
    for _ in range(2 if quick else 8):
        pool = ex + pr + ch
        k = rng.randint(3, 8)
        out.append([rng.choice(pool) for _ in range(k)])
    return out

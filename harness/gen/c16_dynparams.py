"""Programs for C16 whose answers depend on jedi's *dynamic parameter search*
(jedi/inference/dynamic_params.py): unannotated parameters are inferred from the call sites of
their function.  The search looks at call site number i only while
`i * inference_state.dynamic_params_depth <= MAX_PARAM_SEARCHES (20)`, so a function with more
than 10 call sites with distinct argument classes makes the depth counter observable in the
*number of results* of `infer` on the parameter.

Only user classes and their instances are used as values (the sandbox has no typeshed).

gen_program(rng) -> (source, queries, meta)
   queries: list of (kind, function name, line, column); kind in PARAM_KINDS
   meta: {'functions': [{'name','kind','sites'}], 'classes': n}

Function names are prefixed (`dp_`, `dpf`): with settings.dynamic_params_for_other_modules jedi also
greps the files of the default project (the directory the check is started from) for the function
name; ordinary words like `walk` occur there (`os.walk`).
"""

KINDS = ['plain', 'selfrec', 'mutual', 'nested', 'plain', 'selfrec', 'raising']
PARAM_KINDS = ('param', 'param2')


class _Src:
    def __init__(self):
        self.lines = []

    def add(self, line):
        self.lines.append(line)
        return len(self.lines)      # 1-based line number of what was just added

    def text(self):
        return '\n'.join(self.lines) + '\n'


def _sites(rng, big):
    return rng.randint(11, 16) if big else rng.choice([1, 2, 3, 5])


def build(spec, nclasses):
    """spec: list of (kind, name, nsites). Deterministic text for a spec (used by replays/corpus)."""
    s = _Src()
    for i in range(nclasses):
        s.add('class C%d: pass' % i)
    queries = []
    calls = []
    meta = []
    for kind, name, n in spec:
        if kind == 'plain':
            s.add('def %s(p):' % name)
            ln = s.add('    return p')
            queries.append(('param', name, ln, 12))
        elif kind == 'selfrec':
            # an ordinary self-recursive function: the search for its own call sites finds the
            # call inside its body and re-enters the lookup of the same function (blocked path)
            s.add('def %s(node, level):' % name)
            s.add('    %s(node, level)' % name)
            ln = s.add('    return node')
            queries.append(('param', name, ln, 15))
            ln = s.add('    level')
            queries.append(('param2', name, ln, 9))
        elif kind == 'mutual':
            s.add('def %s(a, k):' % name)
            s.add('    %s_b(a, k)' % name)
            ln = s.add('    return a')
            queries.append(('param', name, ln, 12))
            s.add('def %s_b(b, k):' % name)
            s.add('    %s(b, k)' % name)
            ln = s.add('    return b')
            queries.append(('param', name + '_b', ln, 12))
        elif kind == 'nested':
            # the parameter is handed on to a helper: looking up the helper's parameter searches
            # the call sites of the helper, one of which needs this function's parameter (depth 2)
            s.add('def %s(p):' % name)
            s.add('    %s_h(p)' % name)
            ln = s.add('    return p')
            queries.append(('param', name, ln, 12))
            s.add('def %s_h(x):' % name)
            ln = s.add('    return x')
            queries.append(('param', name + '_h', ln, 12))
        elif kind == 'raising':
            # one call site passes `True`: without typeshed (this sandbox) inferring it raises an
            # AttributeError in the middle of the lookup - a failing query in the session
            s.add('def %s(r):' % name)
            ln = s.add('    return r')
            queries.append(('param', name, ln, 12))
            calls.append('%s(True)' % name)
        else:
            raise ValueError(kind)
        two = kind in ('selfrec', 'mutual')
        for j in range(n if kind != 'raising' else 0):
            c = 'C%d()' % (j % nclasses)
            calls.append('%s(%s, C%d())' % (name, c, (j + 1) % nclasses) if two else '%s(%s)' % (name, c))
        meta.append({'name': name, 'kind': kind, 'sites': n})
    for c in calls:
        s.add(c)
    return s.text(), queries, {'functions': meta, 'classes': nclasses}


def gen_spec(rng):
    nf = rng.randint(2, 4)
    kinds = [rng.choice(KINDS) for _ in range(nf)]
    # every program has a function with many call sites and a recursive one: the pair that makes
    # a leaked depth counter visible
    if not any(k in ('selfrec', 'mutual') for k in kinds):
        kinds[rng.randrange(nf)] = rng.choice(['selfrec', 'mutual'])
    spec = []
    big_seen = False
    for i, k in enumerate(kinds):
        big = rng.random() < 0.6
        big_seen = big_seen or (big and k in ('plain', 'nested'))
        spec.append((k, 'dpf%d' % i, _sites(rng, big)))
    if not big_seen:
        spec.append(('plain', 'dpf%d' % len(spec), rng.randint(11, 16)))
    rng.shuffle(spec)
    return spec, 16


def gen_program(rng, allow_nested=True):
    spec, ncls = gen_spec(rng)
    if not allow_nested:
        spec = [(('plain' if k == 'nested' else k), n, s) for k, n, s in spec]
    src, queries, meta = build(spec, ncls)
    meta['spec'] = [list(x) for x in spec]
    return src, queries, meta


# fixed programs, always run -------------------------------------------------------------------

def fixed_programs():
    out = []
    # 12 call sites + a self-recursive function (seeded-defect shape)
    out.append(('dyn-sites12-selfrec',) + build([('plain', 'dp_target', 12), ('selfrec', 'dp_walk', 1)], 12))
    out.append(('dyn-sites15-mutual',) + build([('mutual', 'dp_ping', 2), ('plain', 'dp_target', 15)], 15))
    out.append(('dyn-two-big-selfrec',) + build([('selfrec', 'dp_walk', 11), ('plain', 'dp_target', 14),
                                                 ('plain', 'dp_other', 11)], 14))
    out.append(('dyn-sites12-raising',) + build([('raising', 'dp_boom', 1), ('plain', 'dp_target', 12)], 12))
    # nested lookup (depth 2 on the unchanged code)
    out.append(('dyn-nested14',) + build([('nested', 'dp_target', 14)], 14))
    return out

"""C18: class hierarchies whose members are reached through REFERENCES (attribute access on classes and
on instances), not through their own definition.

The `full_name` clause of C18 speaks about a definition at module or class level - whichever way the
Name that describes it was obtained.  Script.infer() / Script.goto() on `receiver.attr` hand out Names of
definitions that live in a class body somewhere along the receiver's MRO: the class a method is LOOKED UP
through (the instance's class) and the class whose body holds the `def` (the one `__qualname__` names)
differ as soon as the member is inherited.

Abstract hierarchy (JSON-able): dict(classes=[..], queries=[..])
  class   = dict(name=, parent=index|None (lexically enclosing class), bases=[index..] (each an earlier
            class that is visible where the class statement stands), members=[{'kind': 'def'|'async',
            'name':..}..])   nested classes are members of their parent too (after its methods)
  query   = dict(cls=index, attr=name, form='inst'|'call'|'class')
            inst:  `iK = <path>()` once, then `rN = iK.attr`
            call:  `rN = <path>().attr`
            class: `rN = <path>.attr`
`render(h)` -> (source, table): table = dict(classes=[{'path':[..], 'bases':[..], 'members':[..]}..] in the
order of the indices, refs=[{'line':, 'column': (of attr), 'cls':, 'attr':, 'form':}..]) - what the Lean model
(Model/Members.lean) consumes.  Nothing is derived from jedi or parso.
"""

METHODS = ['f', 'g', 'h', 'k']


def path_of(h, i):
    out = []
    while i is not None:
        out.append(h['classes'][i]['name'])
        i = h['classes'][i]['parent']
    return out[::-1]


def top_of(h, i):
    while h['classes'][i]['parent'] is not None:
        i = h['classes'][i]['parent']
    return i


def base_expr(h, i, b):
    """how class i spells its base b: an earlier sibling by its bare name (class bodies see their own
    names), a class of an earlier, finished top-level statement by its dotted path"""
    ci, cb = h['classes'][i], h['classes'][b]
    if cb['parent'] == ci['parent']:
        return cb['name']
    return '.'.join(path_of(h, b))


def visible_bases(h, i):
    ci = h['classes'][i]
    out = []
    for j in range(i):
        cj = h['classes'][j]
        if cj['parent'] == ci['parent'] or top_of(h, j) < top_of(h, i):
            out.append(j)
    return out


def children(h, i):
    return [j for j, c in enumerate(h['classes']) if c['parent'] == i]


def member_names(h, i):
    return [m['name'] for m in h['classes'][i]['members']] + [h['classes'][j]['name'] for j in children(h, i)]


def render(h):
    lines = []
    classes = h['classes']

    def emit(i, ind):
        c = classes[i]
        pad = ' ' * ind
        bases = ', '.join(base_expr(h, i, b) for b in c['bases'])
        lines.append('%sclass %s%s:' % (pad, c['name'], '(%s)' % bases if c['bases'] else ''))
        n = 0
        for m in c['members']:
            lines.append('%s    %sdef %s(self): return ()' % (pad, 'async ' if m['kind'] == 'async' else '', m['name']))
            n += 1
        for j in children(h, i):
            emit(j, ind + 4)
            n += 1
        if not n:
            lines.append(pad + '    pass')

    for i, c in enumerate(classes):
        if c['parent'] is None:
            emit(i, 0)
    inst = {}
    refs = []
    for q in h['queries']:
        p = '.'.join(path_of(h, q['cls']))
        if q['form'] == 'inst' and q['cls'] not in inst:
            inst[q['cls']] = 'i%d' % q['cls']
            lines.append('%s = %s()' % (inst[q['cls']], p))
    for n, q in enumerate(h['queries']):
        p = '.'.join(path_of(h, q['cls']))
        recv = {'inst': inst.get(q['cls']), 'call': p + '()', 'class': p}[q['form']]
        text = 'r%d = %s.' % (n, recv)
        lines.append(text + q['attr'])
        refs.append({'line': len(lines), 'column': len(text), 'cls': q['cls'], 'attr': q['attr'], 'form': q['form']})
    src = '\n'.join(lines) + '\n'
    table = {'classes': [{'path': path_of(h, i), 'bases': list(c['bases']), 'members': member_names(h, i)}
                         for i, c in enumerate(classes)],
             'refs': refs}
    return src, table


def ancestors(h, i):
    seen, todo = [], [i]
    while todo:
        x = todo.pop()
        if x not in seen:
            seen.append(x)
            todo += h['classes'][x]['bases']
    return seen


def gen_hierarchy(rng, n_classes=6, n_queries=8, names=None):
    """a hierarchy that CPython accepts (consistent MRO: checked by executing the class statements)"""
    for _ in range(100):
        classes = []
        for i in range(n_classes):
            # lexical parent: none (top level) or an earlier class of depth < 2 that is the last open one
            # on its level (pre-order numbering = source order)
            parent = None
            if classes and rng.random() < 0.45:
                # candidates: the chain of the previous class (so that pre-order stays source order)
                chain = []
                j = i - 1
                while j is not None:
                    chain.append(j)
                    j = classes[j]['parent']
                chain = [j for j in chain if len(_path(classes, j)) < 3]
                if chain:
                    parent = rng.choice(chain)
            name = (names[i % len(names)] if names else 'K%d' % i)
            classes.append({'name': name, 'parent': parent, 'bases': [], 'members': []})
            h = {'classes': classes, 'queries': []}
            vis = visible_bases(h, i)
            if vis and rng.random() < 0.75:
                k = rng.choice([1, 1, 1, 2, 2, 3])
                classes[i]['bases'] = rng.sample(vis, min(k, len(vis)))
            ms = rng.sample(METHODS, rng.choice([0, 1, 1, 2, 3]))
            classes[i]['members'] = [{'kind': 'async' if rng.random() < 0.15 else 'def', 'name': m} for m in sorted(ms)]
        h = {'classes': classes, 'queries': []}
        # names of sibling classes must differ (a second statement would rebind the first)
        ok = True
        for i, c in enumerate(classes):
            sib = [d['name'] for j, d in enumerate(classes) if d['parent'] == c['parent']]
            if len(sib) != len(set(sib)) or c['name'] in [m['name'] for m in c['members']]:
                ok = False
        if not ok:
            continue
        for _q in range(n_queries):
            # receivers: mostly classes that inherit something
            heirs = [i for i in range(n_classes) if any(member_names(h, x) for x in ancestors(h, i) if x != i)]
            c = rng.choice(heirs) if heirs and rng.random() < 0.85 else rng.randrange(n_classes)
            anc = ancestors(h, c)
            # prefer members that are NOT in the body of the receiver's own class
            far = [a for x in anc if x != c for a in member_names(h, x)]
            near = member_names(h, c)
            pool = far if far and rng.random() < 0.8 else (near or far)
            if not pool:
                continue
            h['queries'].append({'cls': c, 'attr': rng.choice(pool),
                                 'form': rng.choice(['inst', 'inst', 'inst', 'call', 'class'])})
        if not h['queries']:
            continue
        src, _ = render(h)
        try:
            exec(compile(src, '<c18-members>', 'exec'), {'__name__': 'c18_members_probe'})
        except Exception:
            continue        # inconsistent MRO / duplicate base: not a program
        return h
    return FIXED[0]


def _path(classes, i):
    out = []
    while i is not None:
        out.append(i)
        i = classes[i]['parent']
    return out


def _c(name, parent=None, bases=(), methods=()):
    return {'name': name, 'parent': parent, 'bases': list(bases),
            'members': [{'kind': 'def', 'name': m} for m in methods]}


# deterministic family: single / nested / multiple inheritance, overriding, diamonds
FIXED = [
    # nested defining class, subclass inside and outside the namespace class
    {'classes': [_c('S'), _c('B', 0, (), ('f', 'g')), _c('M', 1, (), ('k',)), _c('Q', 0, (1,), ('h',)),
                 _c('U', None, (3,), ())],
     'queries': [{'cls': 4, 'attr': a, 'form': f} for a in ('f', 'g', 'h', 'M') for f in ('inst', 'class', 'call')]
     + [{'cls': 3, 'attr': 'f', 'form': 'inst'}, {'cls': 1, 'attr': 'f', 'form': 'inst'}]},
    # overriding along a chain + diamond
    {'classes': [_c('A', None, (), ('f', 'g')), _c('B', None, (0,), ('g',)), _c('C', None, (0,), ('f', 'h')),
                 _c('D', None, (1, 2), ()), _c('E', None, (3,), ('k',))],
     'queries': [{'cls': c, 'attr': a, 'form': 'inst'} for c in (3, 4) for a in ('f', 'g', 'h')]
     + [{'cls': 4, 'attr': 'k', 'form': 'inst'}, {'cls': 4, 'attr': 'g', 'form': 'class'}]},
]

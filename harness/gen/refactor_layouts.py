"""Generated *worlds* for C07: several importable roots on disk, one of them the jedi Project.

A world is a directory W with
  project          the Project path, relative to W ('' = W itself)
  sys_path         directories (relative to W) handed to Project(sys_path=...)
  added_sys_path   directories handed to Project(added_sys_path=...)
  files            {path relative to W: text}
so that the files a refactoring changes / moves can lie inside the project, in a directory
below it that is on sys.path, outside of it (a sibling `lib`), or in a sibling whose name has
the project's name as a string prefix (`projlib` next to `proj`).

The importable things are a module, a package, a package with a nested package, a namespace
package in one directory, a namespace package spread over two roots.  Every module may refer
to itself / to its own package (then a rename changes AND moves it), user modules inside and
outside the project refer to them (changed only), untouched members of a renamed package are
moved only.  References are spelled in the four import forms.

Path-less buffers: every world also carries `buffers`, texts of unsaved editor buffers
(`Script(code, path=None, project=...)`) that refer to the entity in the four import forms - a fresh
text, or the unsaved copy of a user module that is on disk as well.  A rename asked from such a
buffer on the name of a module / package / namespace package carries file renames although the
changed buffer itself has no path; the files on disk that refer to the entity are changed too
(path-less + other changed files) or nobody else refers to the renamed module (path-less alone).

Nothing here imports jedi; parso is used only to enumerate name positions.
"""
import itertools

NAMES = ['pkg', 'core', 'shapes', 'data']
UNI_NAMES = ['größe', 'λib', 'модуль']
NEW_NAMES = ['renamed', 'pk', 'newpkg', 'zz', 'ωmega', 'pkgs']
EOLS = ['\n', '\n', '\n', '\r\n', '\r']

PROJECTS = ['', 'proj', 'ws/proj']
KINDS = ['module', 'package', 'nested', 'ns1', 'ns2']
SYSMODES = ['sys_path', 'added']


def _j(*parts):
    return '/'.join(p for p in parts if p)


def wheres(project):
    """the roots an entity can live in, for a project directory"""
    return ['in', 'insub'] if project == '' else ['in', 'insub', 'out', 'outprefix']


def roots_of(project):
    r = {'in': project, 'insub': _j(project, 'src')}
    if project:
        r['out'] = _j(project.rpartition('/')[0], 'lib')
        r['outprefix'] = project + 'lib'
    return r


def grid():
    """every combination of the small-scope parameters"""
    out = []
    for project in PROJECTS:
        for kind, where, selfref, sysmode in itertools.product(KINDS, wheres(project), (True, False), SYSMODES):
            out.append(dict(project=project, kind=kind, where=where, selfref=selfref, sysmode=sysmode))
    return out


class Mod:
    def __init__(self, dotted, path, attr, value):
        self.dotted, self.path, self.attr, self.value = dotted, path, attr, value
        self.refs = []          # dotted names of the modules it refers to


def _ref_lines(rng, k, target, form=None):
    """lines that import module `target` (Mod) and read its attribute, in one of four spellings"""
    d = target.dotted
    head, _, last = d.rpartition('.')
    forms = ['import', 'from-attr', 'import-as'] + (['from-mod'] if head else [])
    form = form or rng.choice(forms)
    if form == 'import':
        return ['import %s' % d], ['r%d = %s.%s' % (k, d, target.attr)]
    if form == 'from-attr':
        return ['from %s import %s' % (d, target.attr)], ['r%d = %s' % (k, target.attr)]
    if form == 'import-as':
        return ['import %s as al%d' % (d, k)], ['r%d = al%d.%s' % (k, k, target.attr)]
    return ['from %s import %s' % (head, last)], ['r%d = %s.%s' % (k, last, target.attr)]


def make_world(rng, project, kind, where, selfref, sysmode, name=None, plain=False):
    """-> world dict (see module docstring) with `entity`, `scripts` (files worth asking from)"""
    roots = roots_of(project)
    R = roots[where]
    name = name or rng.choice(UNI_NAMES if rng.random() < 0.2 else NAMES)
    mods = []
    if kind == 'module':
        mods.append(Mod(name, _j(R, name + '.py'), 'top', 1))
    elif kind in ('package', 'nested'):
        mods.append(Mod(name, _j(R, name, '__init__.py'), 'top', 1))
        mods.append(Mod(name + '.mod', _j(R, name, 'mod.py'), 'val', 2))
        if kind == 'nested':
            mods.append(Mod(name + '.inner', _j(R, name, 'inner', '__init__.py'), 'deep', 3))
            mods.append(Mod(name + '.inner.leaf', _j(R, name, 'inner', 'leaf.py'), 'lv', 4))
        if rng.random() < 0.5:
            mods.append(Mod(name + '.quiet', _j(R, name, 'quiet.py'), 'qv', 5))     # moved only
    else:
        mods.append(Mod(name + '.part', _j(R, name, 'part.py'), 'pv', 6))
        if kind == 'ns2':
            # the second portion lives in a root on the other side of the project boundary when there is one
            if where in ('out', 'outprefix'):
                R2 = roots[rng.choice(['in', 'insub'])]
            elif project:
                R2 = roots[rng.choice(['out', 'outprefix', 'insub' if where == 'in' else 'in'])]
            else:
                R2 = roots['insub' if where == 'in' else 'in']
            mods.append(Mod(name + '.other', _j(R2, name, 'other.py'), 'ov', 7))
    entity = list(mods)
    # a sibling whose name has the entity's name as a string prefix: changed, never moved
    decoy = None
    if rng.random() < 0.4:
        decoy = Mod(name + 'extra', _j(R, name + 'extra.py'), 'xv', 8)
    users = [Mod('main', _j(project, 'main.py'), 'mv', 9)]
    if project:
        users.append(Mod('user', _j(roots['out'], 'user.py'), 'uv', 10))
    else:
        users.append(Mod('user', _j(roots['insub'], 'user.py'), 'uv', 10))
    # who refers to whom
    for m in entity:
        if selfref:
            m.refs.append(m)
            if rng.random() < 0.5 and len(entity) > 1:
                m.refs.append(rng.choice(entity))
        elif rng.random() < 0.3 and len(entity) > 1:
            m.refs.append(rng.choice([e for e in entity if e is not m]))
    if not selfref and kind == 'module':
        pass
    for u in users + ([decoy] if decoy else []):
        k = rng.randint(1, min(3, len(entity)))
        u.refs = rng.sample(entity, k)
    if decoy is not None and rng.random() < 0.5:
        users[0].refs.append(decoy)
    files = {}
    everything = entity + users + ([decoy] if decoy else [])
    for m in everything:
        eol = '\n' if plain else rng.choice(EOLS)
        imports, uses = [], []
        for k, t in enumerate(m.refs):
            i, us = _ref_lines(rng, k, t)
            imports += i
            uses += us
        lines = imports
        if not plain and rng.random() < 0.3:
            lines = lines + ['', '# %s' % m.dotted]
        lines = lines + ['%s = %d' % (m.attr, m.value)] + uses
        text = eol.join(lines)
        if plain or rng.random() < 0.7:
            text += eol
        files[m.path] = text
    # unsaved buffers (no path): drawn after everything else of the world
    buffers = []
    for b in range(2):
        buf = Mod('buffer%d' % b, None, 'bv', 11 + b)
        # the second buffer refers to one module only: often one that nobody else refers to
        buf.refs = rng.sample(entity, rng.randint(1, min(3, len(entity)))) if b == 0 else [rng.choice(entity)]
        if decoy is not None and rng.random() < 0.3:
            buf.refs.append(decoy)
        eol = '\n' if plain else rng.choice(EOLS)
        imports, uses = [], []
        for k, t in enumerate(buf.refs):
            i, us = _ref_lines(rng, k, t)
            imports += i
            uses += us
        lines = imports + (['', '# unsaved'] if rng.random() < 0.3 else []) + ['%s = %d' % (buf.attr, buf.value)] + uses
        buffers.append(eol.join(lines) + (eol if rng.random() < 0.7 else ''))
    # the unsaved copy of a user module that is on disk too
    buffers.append(files[rng.choice(users).path])
    used = sorted({roots['in']} | {_root_of(m.path, roots) for m in everything})
    used = [roots['in']] + [r for r in used if r != roots['in']]
    if sysmode == 'added':
        sys_path, added = [roots['in']], [r for r in used if r != roots['in']]
    else:
        sys_path, added = used, []
    return dict(files=files, project=project, sys_path=sys_path, added_sys_path=added,
                entity=[m.path for m in entity], users=[u.path for u in users], buffers=buffers,
                params=dict(project=project, kind=kind, where=where, selfref=selfref, sysmode=sysmode),
                names=sorted({c for m in everything for c in m.dotted.split('.')}
                             | {m.attr for m in everything}))


def _root_of(path, roots):
    best = None
    for r in roots.values():
        if (r == '' or path == r or path.startswith(r + '/')) and (best is None or len(r) > len(best)):
            best = r
    return best


def name_positions(text):
    """[(line, column, value, in_import)] of every name leaf"""
    import parso
    out = []
    leaf = parso.parse(text).get_first_leaf()
    while leaf is not None:
        if leaf.type == 'name':
            p = leaf.parent
            while p is not None and p.type not in ('import_name', 'import_from', 'simple_stmt', 'file_input'):
                p = p.parent
            out.append((leaf.start_pos[0], leaf.start_pos[1], leaf.value,
                        p is not None and p.type in ('import_name', 'import_from')))
        leaf = leaf.get_next_leaf()
    return out


def requests_for(rng, world, per_world, exhaustive=False, collide=0.1, buffers=False):
    """rename requests on a world: positions of names in import statements and uses, in the entity's
    own modules (self references), the users inside and outside the project; a fraction `collide` of
    the new names is the name of something that exists.  buffers=True: the same for the world's
    path-less buffers (`file` is None, `code` is the buffer's text)."""
    cands = []
    sources = [(None, t) for t in world['buffers']] if buffers else \
        [(p, world['files'][p]) for p in world['entity'] + world['users']]
    for bi, (path, text) in enumerate(sources):
        pos = name_positions(text)
        if path is None:
            path = bi           # the index of the buffer
        seen = set()
        for line, col, value, imp in pos:
            if value.startswith(('r', 'al')) and value[1:].lstrip('l').isdigit():
                continue
            if not exhaustive and (path, value, imp) in seen:
                continue
            seen.add((path, value, imp))
            cands.append((path, line, col, value, imp))
    if not cands:
        return []
    fresh = [n for n in NEW_NAMES if n not in world['names']]
    if exhaustive:
        pick = cands
    else:
        # prefer names of modules / packages (they move files), asked from the entity's own modules
        own = [c for c in cands if (buffers or c[0] in world['entity']) and c[4]]
        imp = [c for c in cands if c[4]]
        pick = []
        for _ in range(per_world):
            r = rng.random()
            pool = own if own and r < 0.45 else imp if imp and r < 0.85 else cands
            pick.append(rng.choice(pool))
    # names that are taken: stems of the files and directories of the world (a rename onto one of
    # them, in the same directory, asks jedi to move a file or package onto an existing one)
    taken = sorted({c[:-3] if c.endswith('.py') else c for f in world['files'] for c in f.split('/')}
                   - {'__init__', ''})
    out = []
    for path, line, col, value, _imp in pick:
        clash = [t for t in taken if t != value]
        new = rng.choice(clash) if clash and rng.random() < collide else rng.choice(fresh)
        if buffers:
            out.append({'kind': 'rename', 'file': None, 'code': world['buffers'][path], 'line': line,
                        'column': col, 'new_name': new})
        else:
            out.append({'kind': 'rename', 'file': path, 'line': line, 'column': col, 'new_name': new})
    return out

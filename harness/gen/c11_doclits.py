"""C11: systematic docstring literals and the programs that carry them.

A literal is  prefix ++ quote ++ body ++ quote  with
  prefix  every string prefix CPython accepts, in every case: '', r, u, b, br, rb, f, fr, rf (25)
          (b* and f* literals are NOT docstrings in Python: `__doc__` stays None)
  quote   ' " ''' \"\"\"
  body    first-character atom ++ tail; the first character ranges over all ASCII letters in both
          cases, digits, punctuation, whitespace, backslash escapes (also escapes that spell a
          letter: \\x62, \\142, \\u0062, \\N{...}), non-ASCII; `lookalike` bodies start with two or
          three characters taken from the prefix letters (b r f u in both cases) optionally after a
          neutral character, so that a decision that sniffs "prefix" letters at any small offset
          of the token meets a body that looks like one; tails are one-line and multi-line
          (indented continuation lines, blank lines, tabs, trailing blanks: inspect.cleandoc work).

A program has one literal in every definition slot (module, function, async function, one-line
function, class, __init__, method, staticmethod, classmethod, nested class, one-line class, nested
function) and a trailer of references `expr()` - one per object - used for infer / goto / help /
get_signatures.  Pure text: nothing here imports jedi.  Every literal is validated with CPython's
compiler; literals CPython rejects are dropped (and counted by the caller).
"""
import itertools
import string
import warnings

PREFIX_BASES = ['', 'r', 'u', 'b', 'br', 'rb', 'f', 'fr', 'rf']
QUOTES = ["'", '"', "'''", '"""']
PREFIX_LETTERS = 'brfuBRFU'
Q, OQ = '\x01', '\x02'      # placeholders: delimiting quote character / the other one


def case_variants(p):
    if not p:
        return ['']
    return [''.join(t) for t in itertools.product(*[(c.lower(), c.upper()) for c in p])]


PREFIXES = [v for b in PREFIX_BASES for v in case_variants(b)]          # 25


def is_raw(prefix):
    return 'r' in prefix.lower()


def is_bytes(prefix):
    return 'b' in prefix.lower()


def is_fstring(prefix):
    return 'f' in prefix.lower()


# ---------------------------------------------------------------- first-character atoms
# (tag, text) - text is SOURCE text; `{q}` stands for the quote character of the literal

def first_atoms():
    out = []
    for c in string.ascii_letters:
        out.append(('letter', c))
    for c in string.digits:
        out.append(('digit', c))
    for c in string.punctuation:
        if c in '\\\'"':
            continue
        out.append(('punct', c))
    out.append(('other-quote', OQ))         # the quote character that does not delimit
    out.append(('escaped-quote', '\\' + Q))      # the delimiting quote character, escaped
    for c in (' ', '\t'):
        out.append(('space', c))
    out.append(('newline', '\n'))               # triple-quoted only
    for e in ('\\n', '\\t', '\\\\', '\\x62', '\\x42', '\\142', '\\u0062', '\\N{LATIN SMALL LETTER B}',
              '\\a', '\\0', '\\\n', '\\d', '\\b', '\\f', '\\r', '\\u00e9', '\\U0001d483'):
        out.append(('escape', e))
    for c in ('é', 'ß', 'İ', 'K', '日', '\U0001d483', 'ｂ', ' ', 'б'):
        out.append(('non-ascii', c))
    return out


FIRST_ATOMS = first_atoms()

# the reduced set used for the prefixed part of the quick grid: everything a prefix sniffer could
# confuse with a prefix letter, plus one representative of every other class
REDUCED_FIRST = [a for a in FIRST_ATOMS if
                 (a[0] == 'letter' and (a[1] in PREFIX_LETTERS or a[1] in 'aZ')) or
                 a[1] in ('7', '#', OQ, '\\' + Q, ' ', '\n', '\\n', '\\x62', '\\\\', '\\\n', 'é', 'ｂ')]

TAILS_ONE = ['', 'uild the index.', ' ', 'ind {the} arguments: r' + OQ + 'x' + OQ + '   ']
TAILS_MULTI_TRIPLE = [
    'ar baz.\n\n    Second paragraph\n      deeper line\n    back\n    ',
    'yte\n\tTabbed line\n\t  more\n',
    '\n\n  after blank lines\n\n\n  end  \n\n',
]
TAILS_MULTI_ESCAPED = [
    'ar baz.\\n\\n    Second paragraph\\n      deeper\\n    back\\n    ',
    'reak \\\n    continued on the next source line',
]


def lookalike_starts(exhaustive, rng=None, n=60):
    """body starts made of prefix letters (length 2-3), bare or after a neutral first character"""
    L = PREFIX_LETTERS
    two = [a + b for a in L for b in L]
    three = [a + b + c for a in 'brfBRF' for b in 'brfBRF' for c in 'brfBRF']
    after = [n_ + a for n_ in ('x', ' ', '_', '0', OQ) for a in L] + \
            [n_ + a + b for n_ in ('x', ' ') for a in 'bfBF' for b in 'rR'] + \
            [n_ + a + b for n_ in ('x', ' ') for a in 'rR' for b in 'bfBF']
    allv = two + three + after
    if exhaustive:
        return allv
    return rng.sample(allv, min(n, len(allv)))


# ---------------------------------------------------------------- literals

def make_literal(prefix, quote, first, tail):
    """-> source text of the literal or None when the combination makes no sense.
    In atoms and tails Q stands for the delimiting quote character, OQ for the other one."""
    q = quote[0]
    oq = '"' if q == "'" else "'"
    triple = len(quote) == 3
    body = first + tail
    if '\n' in body.replace('\\\n', '') and not triple:
        return None
    if is_fstring(prefix):
        # replacement fields are another matter: braces doubled, no `\\N{...}`
        if '\\N{' in body:
            return None
        body = body.replace('{', '{{').replace('}', '}}')
    body = body.replace(OQ, oq).replace(Q, q)
    return prefix + quote + body + quote


def literal_ok(lit):
    """CPython accepts the literal as an expression statement on its own (any evaluated type)"""
    try:
        with warnings.catch_warnings():
            warnings.simplefilter('ignore')
            compile('def f():\n    %s\n' % lit, '<lit>', 'exec')
        return True
    except (SyntaxError, ValueError):
        return False


def grid(prefixes, quotes, firsts, tails_for):
    """-> list of dicts {lit, prefix, quote, first_tag, first, multi}; invalid combinations dropped"""
    out = []
    k = 0
    for prefix in prefixes:
        for quote in quotes:
            for tag, first in firsts:
                tails = tails_for(prefix, quote, k)
                k += 1
                for tail, multi in tails:
                    lit = make_literal(prefix, quote, first, tail)
                    if lit is None or not literal_ok(lit):
                        continue
                    out.append({'lit': lit, 'prefix': prefix, 'quote': quote, 'first_tag': tag,
                                'first': first, 'multi': multi})
    return out


def tails_rotating(prefix, quote, k):
    """one tail per cell, rotating through one-line and multi-line tails"""
    triple = len(quote) == 3
    pool = [(t, False) for t in TAILS_ONE] + \
           ([(t, True) for t in TAILS_MULTI_TRIPLE] if triple else []) + [(t, True) for t in TAILS_MULTI_ESCAPED]
    return [pool[k % len(pool)]]


def tails_all(prefix, quote, k):
    triple = len(quote) == 3
    return [(t, False) for t in TAILS_ONE] + \
           ([(t, True) for t in TAILS_MULTI_TRIPLE] if triple else []) + [(t, True) for t in TAILS_MULTI_ESCAPED]


def literals(rng, quick):
    """the literal set of one run.
    quick: unprefixed x 4 quotes x EVERY first atom; every prefix x 4 quotes x reduced first atoms;
           a seeded sample of the rest of the grid and of the lookalike bodies.
    thorough: the full grid (25 x 4 x all first atoms), all tails for the reduced first atoms,
           all lookalike bodies for the unprefixed and the r/u-prefixed literals."""
    out = []
    if quick:
        out += grid([''], QUOTES, FIRST_ATOMS, tails_rotating)
        out += grid(PREFIXES[1:], QUOTES, REDUCED_FIRST, tails_rotating)
        rest = [(p, q, a) for p in PREFIXES[1:] for q in QUOTES for a in FIRST_ATOMS if a not in REDUCED_FIRST]
        for p, q, a in rng.sample(rest, 260):
            out += grid([p], [q], [a], tails_rotating)
        looks = [('lookalike', s) for s in lookalike_starts(False, rng, 70)]
        out += grid([''], QUOTES, looks, tails_rotating)
        out += grid(rng.sample(PREFIXES[1:], 6), QUOTES, looks[:12], tails_rotating)
    else:
        out += grid(PREFIXES, QUOTES, FIRST_ATOMS, tails_rotating)
        out += grid(PREFIXES, QUOTES, REDUCED_FIRST, tails_all)
        looks = [('lookalike', s) for s in lookalike_starts(True)]
        out += grid(['', 'r', 'R', 'u', 'U'], QUOTES, looks, tails_rotating)
        out += grid([p for p in PREFIXES if p not in ('', 'r', 'R', 'u', 'U')], QUOTES,
                    rng.sample(looks, 40), tails_rotating)
    seen = set()
    res = []
    for d in out:
        if d['lit'] not in seen:
            seen.add(d['lit'])
            res.append(d)
    return res


# ---------------------------------------------------------------- programs

# slot: (key, definition kind, name of the definition, expression of the executed object in the trailer,
#        how the object behind the DEFINITION (names path) is reached from the namespace)
SLOTS = [
    ('module', 'module', None, None),
    ('func', 'function', 'func', 'func'),
    ('afunc', 'async-function', 'afunc', 'afunc'),
    ('oneline', 'function-oneline', 'oneline', 'oneline'),
    ('Klass', 'class', 'Klass', 'Klass'),
    ('__init__', 'init', '__init__', None),
    ('meth', 'method', 'meth', 'inst.meth'),
    ('smeth', 'staticmethod', 'smeth', 'Klass.smeth'),
    ('cmeth', 'classmethod', 'cmeth', 'Klass.cmeth'),
    ('Inner', 'nested-class', 'Inner', 'Klass.Inner'),
    ('One', 'class-oneline', 'One', 'One'),
    ('nested', 'nested-function', 'nested', 'nestedf'),
    ('umeth', 'method-unbound', 'umeth', 'Klass.umeth'),
    ('ismeth', 'staticmethod-via-instance', 'ismeth', 'inst.ismeth'),
]
NSLOTS = len(SLOTS)

TEMPLATE = '''\
{module}
def func(a, b=1, *, c):
    {func}
    return a
async def afunc(a, /, *args: int, **kw) -> str:
    # a comment before the docstring
    {afunc}
def oneline(x): {oneline}
class Klass:
    {Klass}
    def __init__(self, x, y=2):
        {__init__}
        self.x = x
    def meth(self, p, /, q=3):
        {meth}
        return p
    @staticmethod
    def smeth(p, q=3):
        {smeth}
    @classmethod
    def cmeth(cls, p, *rest):
        {cmeth}
        pass
    class Inner:
        {Inner}
        attr = 1
    def umeth(self, v: int = 0) -> int:
        {umeth}
    @staticmethod
    def ismeth(*, k):

        {ismeth}; return k
class One: {One}
def outer():
    def nested(n, m=None):
        {nested}
    return nested
inst = Klass(1)
nestedf = outer()
'''


def program(lits):
    """lits: NSLOTS literal texts (None = no docstring: `pass`) -> (source, trailer, exec_len)
    trailer: list of {expr, line, col} - `expr()` lines appended after the definitions"""
    fill = {}
    for (key, kind, name, expr), lit in zip(SLOTS, lits):
        fill[key] = lit if lit is not None else ('' if key == 'module' else 'pass')
    src = TEMPLATE.format(**fill)
    exec_len = len(src)
    trailer = []
    line = src.count('\n') + 1
    for key, kind, name, expr in SLOTS:
        if expr is None:
            continue
        src += expr + '()\n'
        trailer.append({'slot': key, 'expr': expr, 'line': line, 'col': len(expr)})
        line += 1
    return src, trailer, exec_len


def programs(lits, rotation):
    """pack literal dicts into programs, literal i in slot (i + rotation) % NSLOTS"""
    progs = []
    n = len(lits)
    per = NSLOTS
    for start in range(0, n, per):
        chunk = lits[start:start + per]
        slots = [None] * per
        for j, d in enumerate(chunk):
            slots[(j + rotation) % per] = d
        src, trailer, exec_len = program([d['lit'] if d else None for d in slots])
        progs.append({'source': src, 'trailer': trailer, 'exec_len': exec_len, 'kinds': {k[0]: k[1] for k in SLOTS},
                      'slots': [dict(d, slot=SLOTS[i][0], kind=SLOTS[i][1]) if d else None
                                for i, d in enumerate(slots)]})
    return progs


def programs_from_slots(slots):
    """one program from an explicit slot assignment (list of NSLOTS literal dicts or None)"""
    src, trailer, exec_len = program([d['lit'] if d else None for d in slots])
    return {'source': src, 'trailer': trailer, 'exec_len': exec_len, 'kinds': {k[0]: k[1] for k in SLOTS},
            'slots': [dict(d, slot=SLOTS[i][0], kind=SLOTS[i][1]) if d else None for i, d in enumerate(slots)]}

"""C19: project trees in which FILE NAMES and IDENTIFIERS collide and overlap, and the oracle that
knows - from python's own `ast`, never from jedi - every definition in every generated file.

A *stem* (`foo`) gives identifiers (`foo`, `foo_x`, `foos`, `Foo`, `my_foo`, ...) and file system
names (`foo.py`, `foo.pyi`, `foo_x.py`, package `foo/__init__.py`, stub-only package
`foo/__init__.pyi`, namespace folder `foo/`, `foo-stubs/`).  The generated sources define exactly
such identifiers at module level and nested in functions / classes / flow statements, so that

  * a file is named like an identifier it defines itself (`foo.py`: `foo = 1`, `class foo`, `foo_x`),
  * a query equals a file name, is a prefix of a file name, is a prefix shared by file names and
    identifiers, or names a type (`class foo`) or a dotted path (`foo.foo_x`).

The tree format is the one of harness/props/c19.py: {'name', 'files': [{'name','content','_defs'}],
'dirs': [...]}; `_defs` is filled by `ast_defs` (list of `Def`).
"""
import ast
import keyword
import re
import unicodedata

STEMS = ['foo', 'conf', 'util', 'data', 'log', 'zed']
NEUTRAL_FILES = ['m.py', 'n.py', 'k.py', 'x.txt', 'main.py', 'st.pyi']
NEUTRAL_DIRS = ['a', 'sub', 'pkg', 'src', 'lib']
IGNORED_DIRS = ['venv', '.venv', '.tox', '__pycache__', '.mypy_cache']


class Def:
    __slots__ = ('name', 'type', 'line', 'col', 'top')

    def __init__(self, name, type_, line, col, top):
        self.name, self.type, self.line, self.col, self.top = name, type_, line, col, top

    def key(self):
        return (self.name, self.type, self.line, self.col)

    def __repr__(self):
        return 'Def%r' % ((self.name, self.type, self.line, self.col, self.top),)


# ----------------------------------------------------------------- the independent oracle

_HEAD = re.compile(r'(?:async\s+)?def\s+|class\s+')


def ast_defs(code):
    """every definition of a name in `code` according to python's `ast`:
    (name, type, line, column of the NAME, top) with type in statement / function / class / param
    and top = the defining scope is the module (not inside a def / class).  Imports are not
    definitions of the file (jedi's search leaves them out on purpose, the oracle does not judge
    them); attribute / subscript targets define no name."""
    tree = ast.parse(code)
    lines = re.split(r'\r\n|\n|\r', code)
    if lines and lines[0].startswith('\ufeff'):
        lines[0] = lines[0][1:]           # a BOM is not part of line 1 (ast strips it as well)
    out = []

    def cp(lineno, byte_col):
        """ast counts columns in UTF-8 bytes, jedi (and the property's `spelled`) in code points"""
        line = lines[lineno - 1]
        if line.isascii():
            return byte_col
        return len(line.encode('utf-8')[:byte_col].decode('utf-8'))

    def spelling(lineno, col, normal):
        """the identifier as it is SPELLED in the file at that place: ast reports the NFKC normal
        form (PEP 3131), the property speaks about spelling"""
        line = lines[lineno - 1]
        end = col + 1
        while end < len(line) and ('a' + line[end]).isidentifier():
            end += 1
        src = line[col:end]
        assert unicodedata.normalize('NFKC', src) == normal, (src, normal, lineno, col)
        return src

    def add(name, type_, lineno, col, top):
        out.append(Def(spelling(lineno, col, name), type_, lineno, col, top))

    def head_col(node):
        m = _HEAD.match(lines[node.lineno - 1], cp(node.lineno, node.col_offset))
        return m.end()

    def target(t, top):
        if isinstance(t, ast.Name):
            add(t.id, 'statement', t.lineno, cp(t.lineno, t.col_offset), top)
        elif isinstance(t, (ast.Tuple, ast.List)):
            for e in t.elts:
                target(e, top)
        elif isinstance(t, ast.Starred):
            target(t.value, top)

    def visit(body, top):
        for node in body:
            if isinstance(node, (ast.FunctionDef, ast.AsyncFunctionDef)):
                add(node.name, 'function', node.lineno, head_col(node), top)
                a = node.args
                for p in a.posonlyargs + a.args + ([a.vararg] if a.vararg else []) + a.kwonlyargs \
                        + ([a.kwarg] if a.kwarg else []):
                    add(p.arg, 'param', p.lineno, cp(p.lineno, p.col_offset), False)
                visit(node.body, False)
            elif isinstance(node, ast.ClassDef):
                add(node.name, 'class', node.lineno, head_col(node), top)
                visit(node.body, False)
            elif isinstance(node, ast.Assign):
                for t in node.targets:
                    target(t, top)
            elif isinstance(node, ast.AnnAssign):
                target(node.target, top)
            elif isinstance(node, (ast.For, ast.AsyncFor)):
                target(node.target, top)
                visit(node.body, top)
                visit(node.orelse, top)
            elif isinstance(node, (ast.With, ast.AsyncWith)):
                for it in node.items:
                    if it.optional_vars is not None:
                        target(it.optional_vars, top)
                visit(node.body, top)
            elif isinstance(node, (ast.If, ast.While)):
                visit(node.body, top)
                visit(node.orelse, top)
            elif isinstance(node, ast.Try):
                visit(node.body, top)
                for h in node.handlers:
                    visit(h.body, top)
                visit(node.orelse, top)
                visit(node.finalbody, top)
    visit(tree.body, True)
    return sorted(out, key=lambda d: (d.line, d.col))


# ----------------------------------------------------------------- names

def _ident_ok(n):
    return n.isidentifier() and not keyword.iskeyword(n)


def idents_of(stem):
    return [n for n in [stem, stem, stem + '_x', stem + '_dir', stem + 's', stem.capitalize(), stem.upper(),
                        'my_' + stem, stem[:2] + 'q'] if _ident_ok(n)]


# ---- identifiers with letters outside ASCII (PEP 3131).  A stem gives names that BEGIN with such a
# letter (étoile, étoile_x), END with one (café, my_café), have it only in the MIDDLE (naïve, café_x),
# consist of nothing else (变量), change length under case mapping (straße -> STRASSE, İstanbul),
# are not in NFKC normal form (µ_val, ﬁle: python itself identifies them with μ_val, file - the file
# still SPELLS them the other way), or contain / end with combining marks and vowel signs
# (cafe + U+0301, की), which are identifier characters but not `\w` for python's `re`.
UNI_STEMS = ['étoile', 'café', 'naïve', 'über', 'ñu', 'straße', 'ßeta', 'zêta', 'ωmega', 'имя', 'đà',
             '变量', '変数', 'İstanbul', 'ıx', 'µ_val', 'ﬁle', 'cafe\u0301', 'e\u0301toile', 'नाम', 'की', 'กา',
             'prénomé', 'Åse', 'ǅx', 'æon', 'ºk']


def nonascii_shape(name):
    """where the letters outside ASCII stand: ascii / start / end / start+end / middle"""
    if name.isascii():
        return 'ascii'
    a, b = not name[0].isascii(), not name[-1].isascii()
    return 'start+end' if a and b else 'start' if a else 'end' if b else 'middle'


def edge_not_word_char(word, complete):
    """the search word begins (or, for an exact search, ends) with an identifier character that
    python's `re` does not count as a word character (combining marks, vowel signs, U+00B7, ...)"""
    return bool(word) and (re.match(r'\w', word[0]) is None
                           or (not complete and re.match(r'\w', word[-1]) is None))


def fs_stems_of(stem):
    """module / package names derived from a stem"""
    return [stem, stem, stem, stem + '_x', stem + 's']


# ----------------------------------------------------------------- sources

def gen_source(rng, pool, own=None, stub=False, nblocks=None):
    """python source over the identifier pool.  `own`: names the file defines for sure (the name
    of the file itself and names that extend it), at random places - the first line included."""
    blocks = []

    def pick():
        return rng.choice(pool)

    def simple(name, ind):
        c = rng.random()
        if stub and c < 0.5:
            return [ind + '%s: int' % name]
        if c < 0.55:
            return [ind + '%s = %d' % (name, rng.randint(0, 9))]
        if c < 0.7:
            return [ind + '%s: int = %d' % (name, rng.randint(0, 9))]
        if c < 0.85:
            return [ind + '%s, %s = 1, 2' % (name, pick())]
        return [ind + '%s = %s = 0' % (name, pick())]

    def func(name, ind, depth):
        params = [rng.choice(pool + ['p1', 'p2']) for _ in range(rng.randint(0, 2))]
        params = list(dict.fromkeys(params))
        if ind and rng.random() < 0.7:
            params.insert(0, 'self')
        if rng.random() < 0.2:
            params.append('*' + rng.choice(['args', pick()]))
        if len(set(p.lstrip('*') for p in params)) != len(params):
            params = ['p1']
        head = ('async def ' if rng.random() < 0.15 else 'def ') + '%s(%s)' % (name, ', '.join(params))
        if stub:
            return [ind + head + ' -> int: ...']
        out = []
        if rng.random() < 0.15:
            out.append(ind + '@staticmethod' if ind else ind + '@deco_not_defined')
        out.append(ind + head + ':')
        body = []
        for _ in range(rng.randint(0, 2)):
            c = rng.random()
            if c < 0.6:
                body += simple(pick(), ind + '    ')
            elif c < 0.75 and depth < 2:
                body += func(pick(), ind + '    ', depth + 1)
            elif c < 0.85 and depth < 2:
                body += klass(pick(), ind + '    ', depth + 1)
            else:
                body += [ind + '    for %s in []:' % pick(), ind + '        pass']
        body.append(ind + '    ' + rng.choice(['pass', 'return 0', 'return %s' % pick()]))
        return out + body

    def klass(name, ind, depth):
        out = [ind + 'class %s:' % name]
        n = rng.randint(0, 3)
        for _ in range(n):
            c = rng.random()
            if c < 0.5:
                out += simple(pick(), ind + '    ')
            elif depth < 2:
                out += func(pick(), ind + '    ', depth + 1)
        if len(out) == 1:
            out.append(ind + '    pass')
        return out

    def block(name):
        c = rng.random()
        if c < 0.34:
            return simple(name, '')
        if c < 0.56:
            return func(name, '', 0)
        if c < 0.74:
            return klass(name, '', 0)
        if stub:
            return simple(name, '')
        if c < 0.80:
            return ['for %s in []:' % name, '    %s = 1' % pick()]
        if c < 0.85:
            return ['with open(__file__) as %s:' % name, '    pass']
        if c < 0.91:
            return ['if 1:', '    %s = 1' % name, 'else:'] + simple(pick(), '    ')
        return ['try:', '    %s = 1' % name, 'except Exception:'] + simple(pick(), '    ') + \
               ['finally:', '    pass']

    def filler():
        c = rng.random()
        name = pick()
        if c < 0.25:
            return ['# %s is only mentioned here' % name]
        if c < 0.45:
            return ['print(%s)' % name]
        if c < 0.6:
            return ['import %s' % rng.choice([name, 'os', name + '.' + pick()])]
        if c < 0.75:
            return ['from %s import %s' % (rng.choice([name, '.', '.' + name]), pick())]
        if c < 0.85:
            return ['"""doc of %s"""' % name]
        return ['']

    n = rng.randint(0, 4) if nblocks is None else nblocks
    for _ in range(n):
        blocks.append(filler() if rng.random() < 0.3 else block(pick()))
    for name in own or ():
        blocks.insert(rng.randint(0, len(blocks)) if rng.random() < 0.6 else 0, block(name))
    lines = [l for b in blocks for l in b]
    return '\n'.join(lines) + ('\n' if lines and rng.random() < 0.9 else '')


def mk_file(rng, name, pool, own=None, nblocks=None):
    stub = name.endswith('.pyi')
    code = gen_source(rng, pool, own=own, stub=stub, nblocks=nblocks)
    return {'name': name, 'content': code, '_defs': ast_defs(code)}


# ----------------------------------------------------------------- trees

def gen_clash_tree(rng, max_files=30, stubs=True, stems=None):
    """project tree with colliding file names and identifiers; `stubs=False`: only .py files
    (the part of the domain the Lean model of _search_func covers)."""
    if stems is None:
        stems = rng.sample(STEMS, rng.randint(1, 3))
    pool = [i for s in stems for i in idents_of(s)]
    budget = [rng.randint(5, max_files)]
    state = {'clashes': 0}

    def own_names(modname):
        """what a module called `modname` defines for sure"""
        if modname not in {m for s in stems for m in fs_stems_of(s)}:
            return []
        if rng.random() < 0.15:
            return []
        own = [modname]
        if rng.random() < 0.6:
            own.append(rng.choice([n for n in [modname + '_x', modname + '_dir', modname + 's',
                                               modname.capitalize()] if _ident_ok(n)]))
        state['clashes'] += 1
        return own

    def take(n=1):
        if budget[0] < n:
            return False
        budget[0] -= n
        return True

    def named_module(depth):
        """one of the shapes of `a module or package called <stem-derived name>`: list of (kind, node)"""
        modname = rng.choice(fs_stems_of(rng.choice(stems)))
        c = rng.random()
        files, dirs = [], []
        if c < 0.45:
            if take():
                files.append(mk_file(rng, modname + '.py', pool, own_names(modname)))
            if stubs and rng.random() < 0.25 and take():
                files.append(mk_file(rng, modname + '.pyi', pool, own_names(modname)))
        elif c < 0.55 and stubs:
            if take():
                files.append(mk_file(rng, modname + '.pyi', pool, own_names(modname)))
        elif c < 0.85:
            d = {'name': modname, 'files': [], 'dirs': []}
            k = rng.random()
            if k < 0.7 or not stubs:
                if take():
                    d['files'].append(mk_file(rng, '__init__.py', pool, own_names(modname)))
                if stubs and rng.random() < 0.2 and take():
                    d['files'].append(mk_file(rng, '__init__.pyi', pool, own_names(modname)))
            elif k < 0.85:
                if take():
                    d['files'].append(mk_file(rng, '__init__.pyi', pool, own_names(modname)))
            fill_dir(d, depth + 1)
            dirs.append(d)
        elif c < 0.93:
            d = {'name': modname, 'files': [], 'dirs': []}          # namespace folder
            fill_dir(d, depth + 1, force_file=True)
            dirs.append(d)
        elif stubs:
            d = {'name': modname + '-stubs', 'files': [], 'dirs': []}
            if take():
                d['files'].append(mk_file(rng, '__init__.pyi', pool, own_names(modname)))
            dirs.append(d)
        return files, dirs

    def fill_dir(d, depth, force_file=False):
        have_f = {f['name'] for f in d['files']}
        have_d = {x['name'] for x in d['dirs']}
        for n in rng.sample(NEUTRAL_FILES, rng.randint(1 if force_file else 0, 2)):
            if n in have_f or (n.endswith('.pyi') and not stubs) or not take():
                continue
            have_f.add(n)
            if n.endswith(('.py', '.pyi')):
                d['files'].append(mk_file(rng, n, pool))
            else:
                d['files'].append({'name': n, 'content': ' '.join(rng.sample(pool, 2)) + '\n'})
        if depth >= 3:
            return
        for _ in range(rng.randint(0, 2 if depth else 3)):
            files, dirs = named_module(depth)
            for f in files:
                if f['name'] not in have_f and f['name'][:f['name'].rindex('.')] not in have_d:
                    have_f.add(f['name'])
                    d['files'].append(f)
            for x in dirs:
                if x['name'] not in have_d and x['name'] + '.py' not in have_f and x['name'] + '.pyi' not in have_f:
                    have_d.add(x['name'])
                    d['dirs'].append(x)
        for _ in range(rng.randint(0, 2)):
            c = rng.random()
            if c < 0.7:
                n = rng.choice(NEUTRAL_DIRS)
            elif c < 0.9:
                n = rng.choice(IGNORED_DIRS)
            else:
                n = 'build'
            if n in have_d or budget[0] <= 0:
                continue
            have_d.add(n)
            sub = {'name': n, 'files': [], 'dirs': []}
            fill_dir(sub, depth + 1, force_file=n in IGNORED_DIRS)
            d['dirs'].append(sub)
        rng.shuffle(d['files'])
        rng.shuffle(d['dirs'])

    t = {'name': '', 'files': [], 'dirs': []}
    fill_dir(t, 0)
    if state['clashes'] == 0:
        # at least one file that is named like something it defines
        stem = rng.choice(stems)
        name = stem + '.py'
        host = rng.choice([n for _, n in _all_dirs(t) if n['name'] not in IGNORED_DIRS
                           and not n['name'].endswith('-stubs')])
        if not any(f['name'] == name for f in host['files']) and not any(x['name'] == stem for x in host['dirs']):
            host['files'].append(mk_file(rng, name, pool, [stem, stem + '_x']))
    # the project root is not a package; at the root a module and a package do not share a name
    t['files'] = [f for f in t['files'] if not f['name'].startswith('__init__.')]
    return t, stems


def _all_dirs(t, rel=''):
    yield rel, t
    for d in t['dirs']:
        yield from _all_dirs(d, (rel + '/' if rel else '') + d['name'])


def src_files(t, rel=''):
    """(relpath, file node) of every generated python source (.py and .pyi)"""
    for f in t['files']:
        if '_defs' in f:
            yield (rel + '/' if rel else '') + f['name'], f
    for d in t['dirs']:
        yield from src_files(d, (rel + '/' if rel else '') + d['name'])


def module_names(t):
    """(module name, [relpaths of the files that are this module], nested) for every module /
    package of the tree: X.py / X.pyi next to each other are one module, so are X/__init__.py /
    X/__init__.pyi.  nested = not directly in the project root."""
    out = []
    for rel, node in _all_dirs(t):
        by = {}
        for f in node['files']:
            if '_defs' not in f or f['name'].startswith('__init__.'):
                continue
            by.setdefault(f['name'][:f['name'].rindex('.')], []).append((rel + '/' if rel else '') + f['name'])
        for m, paths in sorted(by.items()):
            if m.isidentifier():
                out.append((m, sorted(paths), rel != ''))
        if rel and node['name'].isidentifier():
            inits = sorted(rel + '/' + f['name'] for f in node['files']
                           if '_defs' in f and f['name'].startswith('__init__.'))
            if inits:
                out.append((node['name'], inits, '/' in rel))
    return out


# ----------------------------------------------------------------- file encodings

# (codec, declaration line or None); the declaration is what PEP 263 reads in line 1 or 2
ENCODINGS = [
    ('utf-8', None), ('utf-8', None), ('utf-8', None),
    ('utf-8-sig', None),                                    # UTF-8 with a byte order mark
    ('utf-8', '# -*- coding: utf-8 -*-'),
    ('utf-8-sig', '# coding=utf-8'),
    ('latin-1', '# -*- coding: latin-1 -*-'),
    ('iso-8859-15', '# coding: iso-8859-15'),
    ('cp1252', '# vim: set fileencoding=cp1252 :'),
    ('cp1251', '# -*- coding: cp1251 -*-'),
    ('koi8-r', '# coding=koi8-r'),
    ('iso-8859-7', '# -*- coding: iso-8859-7 -*-'),
    ('gbk', '# -*- coding: gbk -*-'),
    ('euc_jp', '# coding: euc_jp'),
]
NEWLINES = ['\n', '\n', '\n', '\r\n', '\r\n', '\r']


def encode_file(rng, f):
    """gives a generated source file an encoding (key 'enc': the codec its text is written with), a
    matching declaration and a newline convention; `content` stays the TEXT of the file, `_defs`
    is read off that text again"""
    code = f['content']
    fits = []
    for enc, decl in ENCODINGS:
        text = code if decl is None else decl + '\n' + code
        try:
            if text.encode(enc).decode(enc) == text:
                fits.append((enc, decl))
        except UnicodeError:
            pass
    nonutf = [x for x in fits if not x[0].startswith('utf-8')]
    enc, decl = rng.choice(nonutf) if nonutf and rng.random() < 0.35 else rng.choice(fits)
    if decl is not None:
        code = ('#!/usr/bin/env python\n' if rng.random() < 0.2 else '') + decl + '\n' + code
    nl = rng.choice(NEWLINES)
    f['content'] = code.replace('\n', nl)
    f['enc'] = enc
    f['_defs'] = ast_defs(f['content'])
    return f


def gen_unicode_tree(rng, max_files=12, stubs=False):
    """a clash tree over identifiers with letters outside ASCII; every source file gets an encoding"""
    stems = rng.sample(UNI_STEMS, rng.randint(1, 2))
    if rng.random() < 0.5:
        stems.append(rng.choice(STEMS))
    t, stems = gen_clash_tree(rng, max_files=max_files, stubs=stubs, stems=stems)
    for _, f in src_files(t):
        encode_file(rng, f)
    for _, d in _all_dirs(t):
        for f in d['files']:
            f.setdefault('enc', 'utf-8')      # the other files (x.txt) mention the names as well
    return t, stems


def unicode_queries(rng, t, stems, k=4):
    """identifiers of the tree by the place of their non-ASCII letters (one exact search per shape
    that occurs at module level and one anywhere), prefixes that begin with / end after / stop
    before such a letter, and module names"""
    tops = sorted({d.name for _, f in src_files(t) for d in f['_defs'] if d.top})
    anyw = sorted({d.name for _, f in src_files(t) for d in f['_defs']} - {'self', 'p1', 'p2', 'args'})
    qs = []
    for pool in (tops, anyw):
        by = {}
        for n in pool:
            by.setdefault(nonascii_shape(n), []).append(n)
        for shape in ('start', 'end', 'start+end', 'middle'):
            if shape in by:
                n = rng.choice(by[shape])
                qs.append((n, False))
                if len(n) > 1:
                    cuts = [i for i in range(1, len(n)) if not n[i - 1].isascii() or not n[i].isascii()]
                    qs.append((n[:rng.choice(cuts or [len(n) - 1])], True))
    na = [n for n in anyw if not n.isascii()] or anyw or list(stems)
    for _ in range(k):
        n = rng.choice(na)
        c = rng.random()
        if c < 0.4:
            qs.append((n, rng.random() < 0.3))
        elif c < 0.7:
            qs.append((n[:rng.randint(1, len(n))], True))
        elif c < 0.8:
            qs.append((rng.choice([n.swapcase(), n.lower(), n.upper(), n.casefold()]), rng.random() < 0.5))
        else:
            qs.append((rng.choice(['def ', 'class ', 'statement ', 'param ']) + n, rng.random() < 0.5))
    mods = sorted({m for m, _, _ in module_names(t) if not m.isascii()})
    for m in rng.sample(mods, min(len(mods), 1)):
        qs.append((m, False))
    return list(dict.fromkeys(qs))


# ----------------------------------------------------------------- queries

def clash_queries(rng, t, stems, k=6):
    """search strings: file names, prefixes of file names, identifiers, prefixes shared by both,
    other spellings, type-qualified and dotted strings"""
    mods = sorted({m for m, _, _ in module_names(t)})
    defs = sorted({d.name for _, f in src_files(t) for d in f['_defs']} - {'self', 'p1', 'p2', 'args'})
    clash = sorted(set(mods) & set(defs))
    qs = []
    for m in rng.sample(clash, min(len(clash), 3)):
        qs.append(m)                                   # a file name that is also an identifier
    for m in rng.sample(mods, min(len(mods), 2)):
        qs.append(m)
        if len(m) > 2:
            qs.append(m[:rng.randint(2, len(m) - 1)])  # a prefix of a file name
    for s in stems[:2]:
        qs.append(s)                                   # prefix shared by file names and identifiers
    for _ in range(k):
        name = rng.choice(defs or stems)
        c = rng.random()
        if c < 0.3:
            qs.append(name)
        elif c < 0.5:
            qs.append(name[:rng.randint(1, len(name))])
        elif c < 0.6:
            qs.append(name.swapcase() if rng.random() < 0.5 else name.lower())
        elif c < 0.85:
            qs.append(rng.choice(['def ', 'class ', 'function ', 'statement ', 'param ', 'module ']) + name)
        else:
            qs.append(rng.choice(mods or stems) + '.' + name)
    return list(dict.fromkeys(qs))

"""Random class families for the direct C02 oracle (stream `flow`, origin `descbind`): descriptor
binding THROUGH INHERITANCE.

What is generated (gen_program): token classes T0..T3; optional data-descriptor-free descriptor
classes (`__get__` returning the owner class, the instance, or a class attribute of the owner); a
family K0 <- K1 <- K2 .. (single inheritance, one- and two-level subclasses, sometimes a mixin as
first base) whose root may define `__init__(self, tag)`; class attributes that hold classes (token
classes or earlier family classes), overridden in subclasses; members m0..mN, each with a fixed
decorator (plain method / @classmethod / @staticmethod / @property) and arity, defined on some
classes of the family and overridden on others.  Member bodies are one `return <expr>` (sometimes
through an intermediate local) over: `self`, `cls`, `type(self)`, `cls(..)` / `type(self)(..)`
(alternate constructors), calls of LOWER-RANKED members on `self` / `cls` / `type(self)` / a fixed
class / a class held in a class attribute (so: no recursion), explicit base calls `K0.m(self)`,
class attributes read through `self` / `cls`, descriptors read through `self`, `self.tag`, the
parameter, fresh tokens, 2-tuples of those.

Module level: straight-line statements `nK = <expr>` (fresh instances, class-level access
`K2.make(T0())`, access through instances and class objects held in variables, chains
`n.clone()`, `type(n)(..)`, helper functions taking a class / an instance, literal containers,
tuple results unpacked or indexed) - every bound name that holds an instance or class of the
program is probed (`tN = nK` / `tN`, the convention of gen/flowprog.py) - and a few for loops over
tuples of classes / instances (probes inside see several classes).

The generator runs an interpreter in the loop: every candidate module-level statement is first
executed for real on the program built so far; a candidate that raises (attribute missing on that
receiver, wrong arity) is dropped.  So every emitted program runs to its end, and the generator
needs no static model of what a member returns: which members exist on a receiver, the shape of a
result (tuple -> unpack) and the run-time class of every variable are read off the real run.

Exactness: a probe at module level outside every loop is evaluated once, so exactly one value
reaches it - whatever classmethod / property / descriptor chain produced it.  All such probes carry
the exactness claim; probes inside for loops only soundness.

Discipline (same reasons as gen/flowprog.py):
  * no `super()`, `__class__`, class-level access to user descriptors, `isinstance`: they need
    builtins stubs (typeshed is empty in this sandbox);
  * no recursion (members only call lower-ranked members); chains are at most 3 derivations deep
    and a member is called at most 5 times per program (jedi gives up after 6 executions of one
    function);
  * a value read out of `self.tag` is never passed as an argument again, and a member with an
    intermediate local is never applied to a receiver / argument that has itself passed through
    that member (jedi's statement-recursion guard fires there without recursion: known finding,
    reproducer in corpus/C02/flow-regressions.json);
  * derived classes define no `__init__`; attributes are written only through `self` in `__init__`.
"""
from gen import flowprog as F

NTOK = 4
TAGREAD = '.tag'


class Member:
    def __init__(self, name, deco, nargs, rank):
        self.name = name
        self.deco = deco          # '' | 'classmethod' | 'staticmethod' | 'property'
        self.nargs = nargs        # explicit arguments (besides self / cls)
        self.rank = rank
        self.local = False        # some definition goes through an intermediate local
        self.uses = set()         # local members (and TAGREAD) any definition may pass through
        self.defs = {}            # class name -> body lines


class Gen:
    def __init__(self, rng):
        self.rng = rng
        self.lines = []
        self.features = set()
        self.k = 0
        self.nprobe = 0
        self.exact = {}
        self.classes = []         # family class names in definition order
        self.bases = {}           # class -> list of base names
        self.members = []
        self.cattrs = {}          # class attribute name -> {class: value text}
        self.descs = []           # (attribute name, descriptor class)
        self.has_init = False
        self.g = {'__name__': F.MODNAME}
        self.vars = {}            # module-level name -> dict(prov=set, depth=int)
        self.calls = {}           # member name -> number of call sites at module level
        self.helpers = []

    def chance(self, p):
        return self.rng.random() < p

    def emit(self, ind, text):
        self.lines.append('    ' * ind + text)

    def fresh(self, p):
        self.k += 1
        return '%s%d' % (p, self.k)

    def tok(self):
        return 'T%d()' % self.rng.randrange(NTOK)

    # ---------------------------------------------------------------- the class family
    def ancestors(self, c):
        out = [c]
        for b in self.bases.get(c, []):
            for a in self.ancestors(b):
                if a not in out:
                    out.append(a)
        return out

    def cargs(self, params):
        if not self.has_init:
            return ''
        ps = [p for p in params if p not in ('self', 'cls')]
        return ps[0] if ps and self.chance(0.6) else self.tok()

    def call_text(self, recv, m, params, via_instance):
        """text of an access to member m on receiver text `recv` inside a body"""
        if m.deco == 'property':
            return '%s.%s' % (recv, m.name) if via_instance else None
        if m.deco == '' and not via_instance:
            return None
        arg = ''
        if m.nargs:
            ps = [p for p in params if p not in ('self', 'cls')]
            arg = ps[0] if ps and self.chance(0.5) else self.tok()
        return '%s.%s(%s)' % (recv, m.name, arg)

    def body_expr(self, cname, m, params, depth=0):
        """(text, uses) of a body expression of member m defined in class cname"""
        r = self.rng
        lower = [x for x in self.members if x.rank < m.rank]
        fam = [c for c in self.classes]
        anc = self.ancestors(cname)
        opts = ['tok']
        ps = [p for p in params if p not in ('self', 'cls')]
        if ps:
            opts += ['param'] * 2
        if fam:
            opts += ['fixed-new', 'fixed-call']
        if m.deco in ('', 'property'):
            opts += ['self'] * 2 + ['type-new'] * 3 + ['type', 'self-call', 'self-call', 'self-call',
                                                       'self-cattr', 'self-cattr-new', 'cattr-call',
                                                       'type-call', 'type-call']
            if self.has_init:
                opts += ['tag']
            if self.descs:
                opts += ['desc'] * 2
            if m.deco == '':
                opts += ['base-call']
        elif m.deco == 'classmethod':
            opts += ['cls'] + ['cls-new'] * 4 + ['cls-call'] * 4 + ['cls-cattr', 'cls-cattr-new', 'cattr-call']
        if depth == 0:
            opts += ['tuple']
        for _ in range(8):
            k = r.choice(opts)
            if k == 'tok':
                return self.tok(), set()
            if k == 'param':
                return ps[0], set()
            if k == 'self':
                return 'self', set()
            if k == 'cls':
                return 'cls', set()
            if k == 'type':
                return 'type(self)', set()
            if k == 'tag':
                return 'self.tag', {TAGREAD}
            if k == 'desc':
                self.features.add('descriptor-through-instance')
                return 'self.%s' % r.choice(self.descs)[0], set()
            if k in ('type-new', 'cls-new'):
                self.features.add('alternate-constructor')
                return '%s(%s)' % ('type(self)' if k == 'type-new' else 'cls', self.cargs(params)), set()
            if k == 'fixed-new':
                return '%s(%s)' % (r.choice(fam), self.cargs(params)), set()
            if k in ('self-cattr', 'cls-cattr', 'self-cattr-new', 'cls-cattr-new', 'cattr-call'):
                if not self.cattrs:
                    continue
                a = r.choice(sorted(self.cattrs))
                recv = 'self' if m.deco in ('', 'property') else 'cls'
                self.features.add('class-attribute-holding-class')
                if k.endswith('cattr'):
                    return '%s.%s' % (recv, a), set()
                fam_valued = any(v in self.classes for v in self.cattrs[a].values())
                if k.endswith('new'):
                    if fam_valued:
                        return '%s.%s(%s)' % (recv, a, self.cargs(params)), set()
                    return '%s.%s()' % (recv, a), set()
                if not fam_valued:
                    continue
                cands = [x for x in lower if x.deco in ('classmethod', 'staticmethod')]
                if not cands:
                    continue
                x = r.choice(cands)
                return self.call_text('%s.%s' % (recv, a), x, params, False), set(x.uses)
            if k in ('self-call', 'type-call', 'cls-call', 'fixed-call'):
                via_instance = k == 'self-call'
                cands = [x for x in lower if via_instance or x.deco in ('classmethod', 'staticmethod')]
                if k != 'fixed-call':
                    # must exist on every receiver that can run this body
                    cands = [x for x in cands if any(a in x.defs for a in anc)]
                if not cands:
                    continue
                x = r.choice(cands)
                recv = {'self-call': 'self', 'type-call': 'type(self)', 'cls-call': 'cls'}.get(k)
                if recv is None:
                    owners = [c for c in fam if any(a in x.defs for a in self.ancestors(c))]
                    if not owners:
                        continue
                    recv = r.choice(owners)
                self.features.add({'self-call': 'member-via-self', 'type-call': 'member-via-type(self)',
                                   'cls-call': 'member-via-cls', 'fixed-call': 'member-via-fixed-class'}[k])
                return self.call_text(recv, x, params, via_instance), set(x.uses)
            if k == 'base-call':
                # explicit base call of a plain method: K0.m(self)
                cands = [(x, a) for x in lower if x.deco == '' and not x.nargs
                         for a in anc[1:] if a in x.defs]
                if not cands:
                    continue
                x, a = r.choice(cands)
                self.features.add('explicit-base-call')
                return '%s.%s(self)' % (a, x.name), set(x.uses)
            if k == 'tuple':
                e1, u1 = self.body_expr(cname, m, params, 1)
                e2, u2 = self.body_expr(cname, m, params, 1)
                self.features.add('tuple-result')
                return '(%s, %s)' % (e1, e2), u1 | u2
        return self.tok(), set()

    def define_member(self, cname, m, ind):
        params = {'': ['self'], 'property': ['self'], 'classmethod': ['cls'], 'staticmethod': []}[m.deco]
        params = params + (['tag'] if m.nargs else [])
        if m.deco:
            self.emit(ind, '@' + m.deco)
        self.emit(ind, 'def %s(%s):' % (m.name, ', '.join(params)))
        e, uses = self.body_expr(cname, m, params)
        # the intermediate-local form only where no argument flows through it and nothing of the
        # body passes through another local member (keeps the no-self-application rule simple)
        if not uses and not m.nargs and self.chance(0.15):
            self.emit(ind + 1, 'r = ' + e)
            self.emit(ind + 1, 'return r')
            m.local = True
            uses = uses | {m.name}
            self.features.add('intermediate-local')
        else:
            self.emit(ind + 1, 'return ' + e)
        m.uses |= uses
        m.defs[cname] = True
        self.features.add(m.deco or 'method')

    def family(self):
        r = self.rng
        for i in range(NTOK):
            self.emit(0, 'class T%d: pass' % i)
        dkinds = r.sample(['owner', 'inst', 'owner-attr'], r.randint(0, 2))
        dclasses = []
        for i, dk in enumerate(dkinds):
            name = 'D%d' % i
            self.emit(0, 'class %s:' % name)
            self.emit(1, 'def __get__(self, inst, owner):')
            self.emit(2, 'return ' + {'owner': 'owner', 'inst': 'inst', 'owner-attr': 'owner.c0'}[dk])
            dclasses.append((name, dk))
        self.has_init = self.chance(0.7)
        n = r.randint(3, 5)
        mixin = self.chance(0.3)
        # members: fixed decorator and arity per name
        nm = r.randint(5, 9)
        for i in range(nm):
            deco = r.choice(['classmethod'] * 4 + [''] * 3 + ['property', 'property', 'staticmethod'])
            nargs = 0 if deco == 'property' else (1 if deco == 'staticmethod' and self.chance(0.7)
                                                  else int(self.chance(0.4)))
            self.members.append(Member('m%d' % i, deco, nargs, i))
        ncattr = r.randint(1, 2)
        for ci in range(n):
            name = 'K%d' % ci
            if ci == 0:
                bases = []
            else:
                # prefer chains (two-level subclasses)
                bases = [r.choice(self.classes[-2:] if self.chance(0.7) else self.classes)]
            if mixin and ci == n - 1 and ci > 0:
                self.emit(0, 'class M0:')
                mm = [x for x in self.members if x.deco in ('classmethod', '')][:3]
                self.bases['M0'] = []
                if not mm:
                    self.emit(1, 'pass')
                for x in mm:
                    self.define_member('M0', x, 1)
                bases = ['M0'] + bases
                self.features.add('mixin')
            self.bases[name] = bases
            self.emit(0, 'class %s%s:' % (name, '(%s)' % ', '.join(bases) if bases else ''))
            start = len(self.lines)
            for a in range(ncattr):
                if ci == 0 or self.chance(0.45):
                    vals = ['T%d' % r.randrange(NTOK)] * 2 + self.classes
                    if a == 0 and 'owner-attr' in dkinds:
                        vals = ['T%d' % r.randrange(NTOK)]
                    v = r.choice(vals)
                    self.emit(1, 'c%d = %s' % (a, v))
                    self.cattrs.setdefault('c%d' % a, {})[name] = v
            if ci == 0:
                for di, (dn, dk) in enumerate(dclasses):
                    self.emit(1, 'd%d = %s()' % (di, dn))
                    self.descs.append(('d%d' % di, dn))
                if self.has_init:
                    self.emit(1, 'def __init__(self, tag):')
                    self.emit(2, 'self.tag = tag')
            self.classes.append(name)
            for x in self.members:
                if self.chance(0.7 if ci == 0 else 0.22):
                    self.define_member(name, x, 1)
                    if ci > 0:
                        self.features.add('override' if any(a in x.defs for a in self.ancestors(name)[1:])
                                          else 'subclass-only-member')
            if len(self.lines) == start:
                self.emit(1, 'pass')
            if len(self.ancestors(name)) >= 3:
                self.features.add('two-level-subclass')
        # helper functions taking a class / an instance
        cms = [x for x in self.members if x.deco == 'classmethod' and not x.nargs]
        ims = [x for x in self.members if x.deco in ('', 'property') and not x.nargs]
        if cms and self.chance(0.6):
            x = r.choice(cms)
            self.emit(0, 'def f0(k):')
            self.emit(1, 'return k.%s()' % x.name)
            self.helpers.append(('f0', x))
        if ims and self.chance(0.6):
            x = r.choice(ims)
            self.emit(0, 'def f1(o):')
            self.emit(1, 'return o.%s%s' % (x.name, '' if x.deco == 'property' else '()'))
            self.helpers.append(('f1', x))
        self.exec_prefix()

    # ------------------------------------------------------------- interpreter in the loop
    def exec_prefix(self):
        exec(compile('\n'.join(self.lines) + '\n', '<descbind>', 'exec'), self.g)

    def try_stmt(self, text):
        """executes one candidate statement on a copy of the module namespace; returns the new
        namespace or None when it raises"""
        g = dict(self.g)
        try:
            exec(compile(text + '\n', '<descbind>', 'exec'), g)
        except Exception:
            return None
        return g

    def kind_of(self, v):
        if isinstance(v, type) and getattr(v, '__module__', None) == F.MODNAME:
            return 'class'
        if getattr(type(v), '__module__', None) == F.MODNAME:
            return 'instance'
        if isinstance(v, tuple):
            return 'tuple'
        return 'other'

    def is_family(self, v):
        c = v if isinstance(v, type) else type(v)
        return c.__name__ in self.classes

    def member_by_name(self, name):
        for m in self.members:
            if m.name == name:
                return m
        return None

    def candidate(self):
        """(expression text, prov, depth, names of members called) of a module-level expression"""
        r = self.rng
        fam_vars = [n for n in self.vars if self.kind_of(self.g[n]) in ('instance', 'class')
                    and self.is_family(self.g[n]) and self.vars[n]['depth'] < 3]
        opts = ['new', 'class-access', 'class-access', 'class-access', 'class-attr']
        if fam_vars:
            opts += ['var-access'] * 6 + ['type-new', 'alias', 'container']
            if self.helpers:
                opts += ['helper'] * 2
        elif self.helpers:
            opts += ['helper-class']
        k = r.choice(opts)
        args_prov = set()
        if k == 'new':
            c = r.choice(self.classes)
            return '%s(%s)' % (c, self.tok() if self.has_init else ''), set(), 0, []
        if k == 'class-attr':
            c = r.choice(self.classes)
            if not self.cattrs:
                return None
            self.features.add('class-attribute-holding-class')
            return '%s.%s' % (c, r.choice(sorted(self.cattrs))), set(), 0, []
        if k == 'class-access':
            c = r.choice(self.classes[1:] if len(self.classes) > 1 and self.chance(0.8) else self.classes)
            ms = [m for m in self.members if m.deco in ('classmethod', 'staticmethod')]
            if not ms:
                return None
            m = r.choice(ms)
            self.features.add('class-level-access-on-subclass' if c != 'K0' else 'class-level-access')
            return '%s.%s(%s)' % (c, m.name, self.tok() if m.nargs else ''), set(m.uses), 0, [m.name]
        if k in ('helper', 'helper-class'):
            f, m = r.choice(self.helpers)
            if f == 'f0':
                cvars = [n for n in fam_vars if self.kind_of(self.g[n]) == 'class']
                if cvars and self.chance(0.4):
                    n = r.choice(cvars)
                    if m.uses & self.vars[n]['prov']:
                        return None
                    return 'f0(%s)' % n, self.vars[n]['prov'] | m.uses, self.vars[n]['depth'] + 1, [m.name, f]
                return 'f0(%s)' % r.choice(self.classes), set(m.uses), 0, [m.name, f]
            ivars = [n for n in fam_vars if self.kind_of(self.g[n]) == 'instance']
            if not ivars:
                return None
            n = r.choice(ivars)
            if m.uses & self.vars[n]['prov']:
                return None
            self.features.add('helper-function')
            return 'f1(%s)' % n, self.vars[n]['prov'] | m.uses, self.vars[n]['depth'] + 1, [m.name, f]
        n = r.choice(fam_vars)
        v = self.g[n]
        info = self.vars[n]
        if k == 'alias':
            return n, set(info['prov']), info['depth'], []
        if k == 'container':
            self.features.add('container')
            t = r.choice(['(%s, %s)[0]' % (n, self.tok()), '[%s, %s][1]' % (self.tok(), n),
                          "{'a': %s}['a']" % n])
            return t, set(info['prov']), info['depth'], []
        if k == 'type-new':
            if self.kind_of(v) != 'instance':
                return None
            self.features.add('type(x)()')
            return 'type(%s)(%s)' % (n, self.tok() if self.has_init else ''), set(info['prov']), \
                info['depth'] + 1, []
        # var-access: any member / class attribute / descriptor / tag through the variable
        is_inst = self.kind_of(v) == 'instance'
        names = [m.name for m in self.members if is_inst or m.deco in ('classmethod', 'staticmethod')]
        names += sorted(self.cattrs)
        if is_inst:
            names += [d for d, _ in self.descs]
            if self.has_init:
                names += ['tag']
        a = r.choice(names)
        m = self.member_by_name(a)
        if m is None:
            prov = set(info['prov']) | ({TAGREAD} if a == 'tag' else set())
            return '%s.%s' % (n, a), prov, info['depth'] + 1, []
        if m.uses & info['prov']:
            return None
        self.features.add('access-through-variable')
        prov = set(info['prov']) | m.uses
        if m.deco == 'property':
            return '%s.%s' % (n, a), prov, info['depth'] + 1, [a]
        return '%s.%s(%s)' % (n, a, self.tok() if m.nargs else ''), prov, info['depth'] + 1, [a]

    def probe(self, ind, name, exact):
        self.nprobe += 1
        t = 't%d' % self.nprobe
        self.emit(ind, '%s = %s' % (t, name))
        self.emit(ind, t)
        if exact:
            self.exact[str(len(self.lines))] = True

    def statement(self):
        c = self.candidate()
        if c is None:
            return
        e, prov, depth, called = c
        if any(self.calls.get(x, 0) >= 5 for x in called):
            return
        g = self.try_stmt('__v__ = ' + e)
        if g is None:
            return
        v = g['__v__']
        kind = self.kind_of(v)
        if kind == 'other':
            return
        names = [self.fresh('n')]
        text = '%s = %s' % (names[0], e)
        if kind == 'tuple':
            if not 1 <= len(v) <= 3 or any(self.kind_of(x) not in ('instance', 'class') for x in v):
                return
            if self.chance(0.3):
                i = self.rng.randrange(len(v))
                text = '%s = %s[%d]' % (names[0], e, i)
                self.features.add('tuple-result-indexed')
            else:
                names = names + [self.fresh('n') for _ in v[1:]]
                text = '%s%s = %s' % (', '.join(names), ',' if len(v) == 1 else '', e)
                self.features.add('tuple-result-unpacked')
        g = self.try_stmt(text)
        if g is None:
            return
        self.g = g
        self.g.pop('__v__', None)
        for x in called:
            self.calls[x] = self.calls.get(x, 0) + 1
        self.emit(0, text)
        for nme in names:
            self.vars[nme] = {'prov': set(prov), 'depth': depth}
            if self.chance(0.85):
                self.probe(0, nme, True)

    def loop(self):
        """for k in (<classes or instances>): n = k.<member>(..) ; probe   - several classes reach
        the probe: soundness only"""
        r = self.rng
        insts = [n for n in self.vars if self.kind_of(self.g[n]) == 'instance' and self.is_family(self.g[n])
                 and self.vars[n]['depth'] < 2]
        over_classes = not insts or self.chance(0.6)
        if over_classes:
            items = r.sample(self.classes, min(len(self.classes), r.randint(2, 3)))
            ms = [m for m in self.members if m.deco in ('classmethod', 'staticmethod')]
            prov = set()
        else:
            items = r.sample(insts, min(len(insts), r.randint(2, 3)))
            ms = list(self.members)
            prov = set().union(*[self.vars[n]['prov'] for n in items])
        ms = [m for m in ms if not (m.uses & prov) and self.calls.get(m.name, 0) + len(items) <= 5]
        if not ms or len(items) < 2:
            return
        m = r.choice(ms)
        v = self.fresh('v')
        n = self.fresh('n')
        acc = '%s.%s' % (v, m.name) if m.deco == 'property' else \
            '%s.%s(%s)' % (v, m.name, self.tok() if m.nargs else '')
        text = 'for %s in (%s):\n    %s = %s' % (v, ', '.join(items), n, acc)
        g = self.try_stmt(text)
        if g is None or self.kind_of(g[n]) not in ('instance', 'class'):
            return
        self.calls[m.name] = self.calls.get(m.name, 0) + len(items)
        self.emit(0, 'for %s in (%s):' % (v, ', '.join(items)))
        self.emit(1, '%s = %s' % (n, acc))
        self.probe(1, n, False)
        self.features.add('for-over-classes' if over_classes else 'for-over-instances')


def gen_program(rng, size=None):
    """returns (source, info, sorted feature list) like gen/flowprog.py:gen_program"""
    p = Gen(rng)
    p.family()
    size = size or rng.choice([8, 12, 16])
    guard = 0
    nst = 0
    while nst < size and guard < 80:
        guard += 1
        before = len(p.lines)
        if nst >= 3 and p.chance(0.1):
            p.loop()
        else:
            p.statement()
        if len(p.lines) > before:
            nst += 1
    src = '\n'.join(p.lines) + '\n'
    return src, {'exact': p.exact, 'selfnest': False}, sorted(p.features)

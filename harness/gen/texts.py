"""Text generators shared by C01 / C17: small valid programs, their prefixes, single-edit
mutants, token soups, and layout variants (CRLF / CR line ends, tabs, form feeds, unicode
identifiers, continuation lines, no final newline).

Generators avoid what the sandbox cannot do (empty typeshed): True/False/None literals,
results of builtin calls, attribute completion on classes / functions."""

IDENTS = ['foo', 'bar', 'baz', 'val', 'item', 'xs', 'é', 'naïve', 'x1', '_p', 'Ünï', 'a']
KEYWORDS = ['def', 'class', 'return', 'if', 'else', 'for', 'in', 'import', 'from', 'as', 'lambda',
            'with', 'try', 'except', 'pass', 'while', 'not', 'and', 'or', 'global', 'del', 'yield',
            'async', 'await', 'nonlocal', 'is', 'raise', 'assert']
OPS = ['(', ')', '[', ']', '{', '}', ',', ':', '.', '=', '==', '+', '-', '*', '**', '/', '@', '->',
       ';', '...', ':=', '+=', '<', '%', '~', '|']
LITS = ['1', '0x1f', '1.5', "'s'", '"d"', "b'x'", "f'{a}'", "'''t'''", '1j', "f'{", "'unterminated"]
WS = [' ', ' ', ' ', '\n', '\n', '\n    ', '\t', '\\\n', '  # c\n', '\r\n', '\r', '\f', '\n\n']


def ident(rng):
    return rng.choice(IDENTS)


def expr(rng, names, depth=0):
    r = rng.random()
    if depth > 2 or r < 0.25:
        return str(rng.randint(0, 99))
    if r < 0.4:
        return rng.choice(["'s'", '"txt"', "'é'"])
    if r < 0.6 and names:
        return rng.choice(names)
    if r < 0.7:
        return '[%s, %s]' % (expr(rng, names, depth + 1), expr(rng, names, depth + 1))
    if r < 0.78:
        return '(%s, %s)' % (expr(rng, names, depth + 1), expr(rng, names, depth + 1))
    if r < 0.86:
        return '%s + %s' % (expr(rng, names, depth + 1), expr(rng, names, depth + 1))
    if r < 0.92 and names:
        return '%s(%s)' % (rng.choice(names), expr(rng, names, depth + 1))
    if r < 0.96:
        return '{%s: %s}' % (expr(rng, names, depth + 1), expr(rng, names, depth + 1))
    return 'lambda %s: %s' % (ident(rng), expr(rng, names, depth + 1))


def program(rng, nstmt=None):
    """a small valid program; returns list of lines (no terminators)"""
    lines = []
    names = []
    funcs = []
    classes = []
    for _ in range(nstmt or rng.randint(2, 6)):
        r = rng.random()
        n = ident(rng)
        if r < 0.3:
            lines.append('%s = %s' % (n, expr(rng, names)))
            names.append(n)
        elif r < 0.5:
            ps = list(dict.fromkeys(ident(rng) for _ in range(rng.randint(0, 3))))
            sig = []
            for i, p in enumerate(ps):
                q = rng.random()
                if q < 0.2:
                    sig.append('%s=%s' % (p, rng.randint(0, 9)))
                elif q < 0.3 and i == len(ps) - 1:
                    sig.append('*' + p)
                elif q < 0.38 and i == len(ps) - 1:
                    sig.append('**' + p)
                elif q < 0.45:
                    sig.append('%s: int' % p)
                else:
                    sig.append(p)
            # defaults must follow non-defaults: sort plain first
            plain = [s for s in sig if '=' not in s and not s.startswith('*')]
            dflt = [s for s in sig if '=' in s]
            star = [s for s in sig if s.startswith('*')]
            deco = '@%s\n' % rng.choice(funcs) if funcs and rng.random() < 0.15 else ''
            if deco:
                lines.append(deco.strip())
            lines.append('def %s(%s):' % (n, ', '.join(plain + dflt + star)))
            if rng.random() < 0.3:
                lines.append('    """doc of %s"""' % n)
            body = ps and rng.random() < 0.6 and [s.lstrip('*').split('=')[0].split(':')[0] for s in plain + dflt + star]
            if rng.random() < 0.5:
                v = ident(rng)
                lines.append('    %s = %s' % (v, expr(rng, names + (body or []))))
                lines.append('    return %s' % v)
            else:
                lines.append('    return %s' % expr(rng, names + (body or [])))
            names.append(n)
            funcs.append(n)
        elif r < 0.7:
            base = '(%s)' % rng.choice(classes) if classes and rng.random() < 0.4 else ''
            lines.append('class %s%s:' % (n, base))
            a = ident(rng)
            lines.append('    %s = %s' % (a, expr(rng, names)))
            if rng.random() < 0.7:
                m = ident(rng)
                lines.append('    def %s(self, %s):' % (m, ident(rng)))
                lines.append('        self.%s = %s' % (ident(rng), expr(rng, names)))
                lines.append('        return self.%s' % a)
            names.append(n)
            classes.append(n)
        elif r < 0.78 and classes:
            c = rng.choice(classes)
            lines.append('%s = %s()' % (n, c))
            lines.append('%s.%s' % (n, rng.choice(['', 'f', 'b'])))
            names.append(n)
        elif r < 0.84:
            lines.append(rng.choice(['import os', 'import os.path as %s' % n, 'from os import path',
                                     'from . import %s' % n, 'import json, sys']))
        elif r < 0.9:
            v = ident(rng)
            lines.append('for %s in %s:' % (v, expr(rng, names)))
            lines.append('    %s' % (rng.choice(names) if names else v))
        elif r < 0.95 and funcs:
            lines.append('%s(%s' % (rng.choice(funcs), rng.choice(['', '1, ', 'a=', '*', '1)'])))
            if not lines[-1].endswith(')'):
                lines[-1] += ')' if rng.random() < 0.6 else ''
        else:
            lines.append('%s = [%s for %s in %s if %s]' % (n, ident(rng), ident(rng), expr(rng, names), ident(rng)))
            names.append(n)
    return lines


def layout(rng, lines, fancy=True):
    """joins lines with a (possibly mixed) line terminator, optional final newline, and a few
    layout decorations that keep the program valid"""
    out = []
    for l in lines:
        if fancy:
            r = rng.random()
            if r < 0.06 and '=' in l and not l.lstrip().startswith(('def', 'class', '@')):
                l = l.replace(' = ', ' = \\\n    ', 1)
            elif r < 0.1:
                l = l + '  # cömment'
            elif r < 0.13 and l.startswith('    '):
                l = '\t' + l[4:] if False else l
            elif r < 0.16 and not l.startswith(' '):
                l = '\f' + l
            elif r < 0.2:
                l = l.replace(', ', ',\t', 1)
        out.append(l)
    style = rng.random()
    if style < 0.6 or not fancy:
        term = lambda: '\n'
    elif style < 0.75:
        term = lambda: '\r\n'
    elif style < 0.85:
        term = lambda: '\r'
    else:
        term = lambda: rng.choice(['\n', '\r\n', '\r'])
    s = ''
    for i, l in enumerate(out):
        # continuation lines inside keep '\n' replaced consistently
        s += l
        if i < len(out) - 1 or rng.random() < 0.6:
            s += term()
    if fancy and style >= 0.6:
        t = term()
        s = s.replace('\\\n', '\\' + t)
    if fancy and rng.random() < 0.08:
        s = s + '\n' * rng.randint(1, 2)
    return s


def valid_text(rng, fancy=True):
    return layout(rng, program(rng), fancy)


def prefixes(text):
    return [text[:i] for i in range(len(text) + 1)]


def mutant(rng, text):
    if not text:
        return rng.choice(OPS)
    i = rng.randrange(len(text))
    r = rng.random()
    if r < 0.35:
        return text[:i] + text[i + 1:]
    if r < 0.7:
        return text[:i] + rng.choice(OPS + WS + LITS + KEYWORDS[:6]) + text[i:]
    if r < 0.85:
        j = min(len(text), i + rng.randint(1, 6))
        return text[:i] + text[j:]
    return text[:i] + rng.choice(OPS + ['\n', ' ']) + text[i + 1:]


def soup(rng, n=None):
    n = n if n is not None else rng.randint(1, 14)
    parts = []
    for _ in range(n):
        r = rng.random()
        if r < 0.3:
            parts.append(ident(rng))
        elif r < 0.5:
            parts.append(rng.choice(KEYWORDS))
        elif r < 0.75:
            parts.append(rng.choice(OPS))
        elif r < 0.85:
            parts.append(rng.choice(LITS))
        if rng.random() < 0.7:
            parts.append(rng.choice(WS))
    return ''.join(parts)

"""Scopes programs (abstract syntax of gen/scopes.py) in which ONE module variable lives through
`global` declarations of SEVERAL scopes: it is (re)bound in two or three different declaring scopes
(top-level functions, functions nested in a function, functions in a class body, a class body itself),
read in declaring scopes before/after the binding, in functions without a declaration and at module
level, with or without a module-level binding.  Every scope that binds the name declares it, so all
occurrences of the name are ONE variable: get_references must report the same complete set from every
start, rename must rewrite all of them.

A plan fixes the shape; gen_program(rng, plan) fills the free choices.  plans(n) cycles through the
product writers x kinds x module binding so that any 12 consecutive programs cover every writer kind
in every position.
"""

from gen.scopes import plain

WRITER_KINDS = ['function', 'function', 'nested', 'function', 'classfunc', 'function', 'classbody']
FN = ['f', 'g', 'h']


def B(x):
    return {'k': 'bind', 'x': x}


def U(x):
    return {'k': 'use', 'x': x}


def GL(x):
    return {'k': 'global', 'x': x}


def CALL(f):
    return {'k': 'call', 'x': f, 'n': 0}


def DEF(name, body, kind='function'):
    return {'k': 'def', 'kind': kind, 'name': name, 'params': [], 'body': body}


def plans(n):
    out = []
    for i in range(n):
        nw = 2 if i % 3 else 3
        kinds = [WRITER_KINDS[(i + 3 * j) % len(WRITER_KINDS)] for j in range(nw)]
        if i % 5 == 0:
            kinds = ['function'] * nw
        out.append({'writers': kinds, 'module_bind': i % 4 == 1, 'reader': i % 3 != 2,
                    'declared_reader': i % 4 == 3, 'noise': i % 2 == 0})
    return out


def gen_program(rng, plan):
    v = rng.choice(['a', 'b'])
    w = 'b' if v == 'a' else 'a'
    prog = []
    bound = plan['module_bind']
    if bound:
        prog.append(B(v))
    if plan['noise']:
        prog.append(B(w))
    calls = []
    executed = bound      # has a binding of v been executed at this point of the module body
    for j, kind in enumerate(plan['writers']):
        fn = FN[j]
        body = [GL(v)]
        form = rng.choice(['bind', 'bind-use', 'self', 'use-bind', 'other'])
        # calls are issued in the order of the definitions: a called writer runs after all earlier
        # writers, a class body runs where it stands
        live = executed if kind in ('classfunc', 'classbody') else (bound or j > 0)
        if form in ('self', 'use-bind') and not live:
            form = 'bind-use'        # the first writer of an unbound variable cannot read it
        if form == 'other' and not plan['noise']:
            form = 'bind'
        if form == 'bind':
            body += [B(v)]
        elif form == 'bind-use':
            body += [B(v), U(v)]
        elif form == 'self':
            body += [{'k': 'assign', 'x': v, 'y': v}]
        elif form == 'use-bind':
            body += [U(v), B(v)]
        else:
            body += [{'k': 'assign', 'x': v, 'y': w}]
        if kind == 'function':
            prog += [DEF(fn, body)]
            calls.append(CALL(fn))
        elif kind == 'nested':
            prog += [DEF(fn, [DEF('c', body), CALL('c')] + ([U(v)] if rng.random() < 0.5 else []))]
            calls.append(CALL(fn))
        elif kind == 'classfunc':
            # a function defined and called in a class body
            prog += [DEF('K' if j % 2 else 'L', [DEF(fn, body), CALL(fn)], kind='class')]
            executed = True
        else:
            # the class body itself declares and binds the module variable
            prog += [DEF('K' if j % 2 else 'L', body, kind='class')]
            executed = True
        if rng.random() < 0.35 and len(calls) == 1 and (executed or kind in ('function', 'nested')):
            prog.append(calls.pop(0))
            prog.append(U(v))
            executed = True
    if plan['reader']:
        prog += [DEF('r', [U(v)])]
    if plan['declared_reader']:
        prog += [DEF('d', [GL(v), U(v)])]
    for c in calls:
        prog.append(c)
        if rng.random() < 0.6:
            prog.append(U(v))
    if plan['reader']:
        prog.append(CALL('r'))
    if plan['declared_reader']:
        prog.append(CALL('d'))
    prog.append(U(v))
    src, _ = plain(prog)
    compile(src, '<globalvars>', 'exec')
    return prog


def features(prog):
    """(number of scopes that declare `global v` and bind v, has module-level binding)"""
    n = [0]

    def walk(items, depth):
        for it in items:
            if it['k'] == 'def':
                names = {b['x'] for b in it['body'] if b['k'] == 'global'}
                if any(b['k'] in ('bind', 'assign') and b['x'] in names for b in it['body']):
                    n[0] += 1
                walk(it['body'], depth + 1)
    walk(prog, 0)
    return n[0]

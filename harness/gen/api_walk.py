"""Walks the public query API of a jedi Script: every query method and every documented
attribute / method of every returned object.  Used by C01 (totality) and C17 (positions).

`walk(script, line, col, visit, err)`:
  visit(method, obj)                      for every returned object
  err(method, attr, exception)            for every exception raised on the way
"""

NAME_ATTRS = ['module_path', 'name', 'type', 'module_name', 'line', 'column', 'description', 'full_name']
NAME_CALLS = [
    ('in_builtin_module', {}), ('get_definition_start_position', {}), ('get_definition_end_position', {}),
    ('docstring', {}), ('docstring', {'raw': True}), ('is_stub', {}), ('is_side_effect', {}),
    ('get_line_code', {}), ('get_line_code', {'before': 1, 'after': 1}), ('get_type_hint', {}),
    ('__repr__', {}),
]
# calls that return further Name-like objects (walked one level deep)
NAME_FOLLOW = [('goto', {}), ('infer', {}), ('parent', {}), ('get_signatures', {}), ('execute', {}),
               ('defined_names', {})]
COMPLETION_ATTRS = ['complete', 'name_with_symbols']
COMPLETION_CALLS = [('get_completion_prefix_length', {}), ('docstring', {'fast': False})]
SIGNATURE_ATTRS = ['params', 'index', 'bracket_start']
SIGNATURE_CALLS = [('to_string', {})]
PARAM_ATTRS = ['kind']
PARAM_CALLS = [('to_string', {})]
PARAM_FOLLOW = [('infer_default', {}), ('infer_annotation', {})]
ERROR_ATTRS = ['line', 'column', 'until_line', 'until_column']
ERROR_CALLS = [('get_message', {}), ('__repr__', {})]


def position_queries(fuzzy=True):
    qs = [('complete', {}), ('infer', {}), ('goto', {}), ('goto', {'follow_imports': True}), ('help', {}),
          ('get_references', {'scope': 'file'}), ('get_signatures', {}), ('get_context', {})]
    if fuzzy:
        qs.insert(1, ('complete', {'fuzzy': True}))
    return qs


def global_queries(search_strings=('a', 'x.', 'def f', '')):
    qs = [('get_names', {}), ('get_names', {'all_scopes': True, 'definitions': True, 'references': True}),
          ('get_syntax_errors', {})]
    for s in search_strings:
        qs.append(('search', {'string': s}))
        qs.append(('complete_search', {'string': s}))
    qs.append(('search', {'string': 'a', 'all_scopes': True}))
    return qs


def label(name, kw):
    return name if not kw else '%s(%s)' % (name, ','.join('%s=%r' % kv for kv in sorted(kw.items())))


def _kind(obj):
    return type(obj).__name__


def walk_object(method, obj, visit, err, depth=1, max_follow=3):
    """every documented attribute of one result object"""
    kind = _kind(obj)
    visit(method, obj)
    if kind == 'SyntaxError':
        attrs, calls, follow = ERROR_ATTRS, ERROR_CALLS, []
    else:
        attrs, calls, follow = list(NAME_ATTRS), list(NAME_CALLS), []
        if depth > 0:
            follow = [f for f in NAME_FOLLOW if hasattr(obj, f[0])]
        if hasattr(obj, 'is_definition'):
            calls.append(('is_definition', {}))
        if kind == 'Completion':
            attrs += COMPLETION_ATTRS
            calls += COMPLETION_CALLS
        if kind in ('Signature', 'BaseSignature'):
            attrs += SIGNATURE_ATTRS if kind == 'Signature' else ['params']
            calls += SIGNATURE_CALLS
        if kind == 'ParamName':
            attrs += PARAM_ATTRS
            calls += PARAM_CALLS
            if depth > 0:
                follow += PARAM_FOLLOW
    for a in attrs:
        try:
            v = getattr(obj, a)
            if a == 'params':
                for p in v[:max_follow]:
                    walk_object(method + '.params', p, visit, err, depth - 1, max_follow)
        except Exception as e:
            err(method, '%s.%s' % (kind, a), e)
    for name, kw in calls:
        try:
            getattr(obj, name)(**kw)
        except Exception as e:
            err(method, '%s.%s' % (kind, label(name, kw)), e)
    for name, kw in follow:
        try:
            res = getattr(obj, name)(**kw)
        except Exception as e:
            err(method, '%s.%s' % (kind, label(name, kw)), e)
            continue
        if res is None:
            continue
        if not isinstance(res, (list, tuple)):
            res = [res]
        for r in list(res)[:max_follow]:
            walk_object('%s.%s' % (method, name), r, visit, err, depth - 1, max_follow)


def run_query(script, name, kw, line=None, col=None, positional=True):
    kw = dict(kw)
    if name in ('search', 'complete_search'):
        s = kw.pop('string')
        return list(getattr(script, name)(s, **kw))
    if name in ('get_names', 'get_syntax_errors'):
        return getattr(script, name)(**kw)
    return getattr(script, name)(line, col, **kw)


def walk(script, line, col, visit, err, queries=None, max_results=6, depth=1):
    """all position queries at (line, col); returns dict label -> 'ok' | exception"""
    outcomes = {}
    for name, kw in (queries if queries is not None else position_queries()):
        lab = label(name, kw)
        try:
            res = run_query(script, name, kw, line, col)
        except Exception as e:
            outcomes[lab] = e
            err(lab, None, e)
            continue
        outcomes[lab] = 'ok'
        if res is None:
            continue
        if not isinstance(res, (list, tuple)):
            res = [res]
        for r in list(res)[:max_results]:
            walk_object(lab, r, visit, err, depth)
    return outcomes

"""Programs for C16 whose completions come out of a UNION of inferred values: subscript completion
(`d[`, `d['`, `d["k`, `d[1`) on an expression that jedi infers to two or more dict values.

jedi/api/strings.py:_completions_for_dicts turns the keys of ALL inferred dicts into the `prefixed`
completions that Completion.complete() puts in front of its result WITHOUT sorting them again; the
dicts arrive as a ValueSet (a frozenset hashed by object identity), so their iteration order changes
with the heap layout.  The result is only repeatable because the keys of all dicts are sorted together.

Ways a name gets several dict values that work in this sandbox (no typeshed): a function returning
different dict literals from different branches, a parameter with several call sites (dynamic
parameter search), a conditional expression, the loop variable over a list of dicts, a call result
that is subscripted directly, an instance attribute assigned twice.

gen_program(rng) -> (source, (line, column), meta)       build(spec) is deterministic (replays).
Names are prefixed `dk_`; the function names are put together from two literals so that their text does
not occur in this file: the dynamic parameter search greps the *.py files of the project for the name.
"""

CFG, SHOW, MAKE = 'dk_' 'cfg', 'dk_' 'show', 'dk_' 'make'
SHAPES = ['branch-return', 'param-sites', 'ternary', 'list-loop', 'call-subscript', 'attribute']
# what is typed after the `[`
TYPED = ['', "'", '"', "'k", '"k', '1', "'a", "b'", "'''", 'r"']

STR_KEYS = ['host', 'port', 'user', 'debug', 'k0', 'k1', 'k9', 'ka', 'kb', 'alpha', 'zeta', 'a', 'ab', 'b',
            'K', "it's", 'x y', 'é', '']
INT_KEYS = [0, 1, 2, 9, 10, 11, 100, -1]
OTHER_KEYS = ['1.5', "b'q'", "b'k1'", '(1, 2)', 'None_', 'dk_name']      # source text: a float, bytes, a tuple (no safe value), an unknown call (no value), a name (= 3)


def key_src(k):
    if isinstance(k, (str,)) and k in OTHER_KEYS:
        return {'None_': 'dk_unknown()', 'dk_name': 'dk_name'}.get(k, k)
    return repr(k)


def gen_dict(rng, shared):
    n = rng.choice([1, 2, 2, 3, 4])
    keys = []
    for _ in range(n):
        r = rng.random()
        if shared and r < 0.2:
            k = rng.choice(shared)        # the same key in several dicts: reported once
        elif r < 0.7:
            k = rng.choice(STR_KEYS)
        elif r < 0.9:
            k = rng.choice(INT_KEYS)
        else:
            k = rng.choice(OTHER_KEYS)
        if k not in keys:
            keys.append(k)
    shared.extend(keys)
    return keys


def dict_src(keys):
    return '{' + ', '.join('%s: %d' % (key_src(k), i) for i, k in enumerate(keys)) + '}'


def gen_spec(rng, shape=None, ndicts=None):
    shared = []
    nd = ndicts or rng.choice([2, 2, 2, 3, 3, 4])
    return {'shape': shape or rng.choice(SHAPES), 'dicts': [gen_dict(rng, shared) for _ in range(nd)],
            'typed': rng.choice(TYPED)}


def build(spec):
    """-> (source, (line, column)) : the position right after what is typed behind the `[`"""
    ds = [dict_src(k) for k in spec['dicts']]
    typed = spec['typed']
    shape = spec['shape']
    pre = ['dk_name = 3']
    post = []
    if shape == 'branch-return':
        pre += ['def %s(flag):' % CFG]
        for i, d in enumerate(ds[:-1]):
            pre += ['    if flag == %d:' % i, '        return %s' % d]
        pre += ['    return %s' % ds[-1], 'dk_d = %s(zz)' % CFG]
        line = 'dk_d[' + typed
    elif shape == 'param-sites':
        pre += ['def %s(dk_opts):' % SHOW]
        line = '    dk_opts[' + typed
        post = [''] + ['%s(%s)' % (SHOW, d) for d in ds]
    elif shape == 'ternary':
        expr = ds[-1]
        for i, d in enumerate(ds[:-1]):
            expr = '%s if zz%d else (%s)' % (d, i, expr)
        pre += ['dk_d = ' + expr]
        line = 'dk_d[' + typed
    elif shape == 'list-loop':
        pre += ['dk_ds = [%s]' % ', '.join(ds), 'for dk_d in dk_ds:']
        line = '    dk_d[' + typed
    elif shape == 'call-subscript':
        pre += ['def %s(q):' % MAKE]
        for i, d in enumerate(ds[:-1]):
            pre += ['    if q == %d: return %s' % (i, d)]
        pre += ['    return %s' % ds[-1]]
        line = MAKE + '(zz)[' + typed
    elif shape == 'attribute':
        pre += ['class DkBox:', '    def __init__(self, q):', '        self.dk_d = %s' % ds[0]]
        for i, d in enumerate(ds[1:]):
            pre += ['        if q == %d:' % i, '            self.dk_d = %s' % d]
        line = 'DkBox(zz).dk_d[' + typed
    else:
        raise ValueError(shape)
    src = '\n'.join(pre + [line] + post) + '\n'
    return src, (len(pre) + 1, len(line))


def gen_program(rng, shape=None):
    spec = gen_spec(rng, shape)
    src, pos = build(spec)
    return src, pos, spec


def fixed_specs():
    """every shape once with two dicts of disjoint string keys (so that a per-dict order shows), once
    with mixed key types / a shared key / an opened string"""
    out = []
    for i, shape in enumerate(SHAPES):
        out.append({'shape': shape, 'dicts': [['host', 'port'], ['user', 'debug']], 'typed': ['', "'", '"'][i % 3]})
        out.append({'shape': shape, 'dicts': [['kb', 10, 'zeta'], ['ka', 'kb', 9], [1, 'k0', '1.5']],
                    'typed': ['', "'k", ''][i % 3]})
    return out

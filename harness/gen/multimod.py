"""Generated small multi-module projects for C05 (rename / references across modules).

A project is a dict
    {'files': {relative path: source}, 'main': relative path of the module that is run,
     'features': [names of the constructs it contains]}
It is executable: `python -m <main as dotted name>` in the project directory prints a
deterministic line.  Modules are layered so that imports never form a cycle:

    layer 0  "low" root modules           define functions / constants
    layer 1  sub-modules of one package   import from layer 0 (absolute) and from each other
    layer 2  the package's __init__       may re-export names of its sub-modules
    layer 3  "upper" root modules         import from everything below
    layer 4  the main module              at the project root, or inside a second package

Constructs (the part of the property's domain this stream covers): `from m import name`,
`from m import name as alias`, `import m`, `import m as alias`, `import pkg.sub`,
`from pkg import sub`, relative imports inside the package, re-exports (`from m import name`
in a module that others import `name` from), the same function name defined in two modules,
and the two usual ways of tying two definitions of one spelling together:
`try: from a import f / except ImportError: from b import f` and
`if cond: from a import f / else: from b import f` inside a function.

Nothing in here imports jedi.
"""
import io
import keyword
import os
import re
import shutil
import subprocess
import sys
import tokenize

ROOT_POOL = ['fast', 'slow', 'other', 'util', 'core', 'base', 'tools', 'extra', 'alpha', 'omega']
PKG_POOL = ['app', 'pkg', 'lib', 'zoo']
SUB_POOL = ['sub', 'impl', 'views', 'models', 'node']
FUNC_POOL = ['helper', 'compute', 'build']
CONST_POOL = ['LIMIT', 'SCALE']
WRAP_POOL = ['pick', 'choose', 'twice', 'apply_it']
ALIAS_POOL = ['hlp', 'cmpt', 'bld', 'mod_a', 'mod_b', 'lim']
PARAM_POOL = ['x', 'val', 'num']
#: parameters that call sites in OTHER modules pass by keyword (never skipped as start points)
KWNAME_POOL = ['scale', 'bonus', 'times', 'weight']
KW_KINDS = ['pk', 'kwonly-star', 'kwonly-args']
CLASS_POOL = ['Maker', 'Shaper']
CLASS_PARAM = 'amount'
CLASS_ATTR = 'stock'
CLASS_METHOD = 'produce'
MAIN_PKG = 'run'
FRESH = 'zz_new'
#: every module-level identifier the generator emits is longer than this (references.py does not
#: search other files for shorter names: documented limit); checked against the source by
#: translator/gen_c05.py -> props/c05.py
MIN_GLOBAL_NAME_LEN = min(len(n) for n in ROOT_POOL + PKG_POOL + SUB_POOL + FUNC_POOL + CONST_POOL
                          + WRAP_POOL + ALIAS_POOL + [MAIN_PKG] + KWNAME_POOL + CLASS_POOL
                          + [CLASS_PARAM, CLASS_ATTR, CLASS_METHOD])
#: the largest number of files a generated project has (references.py parses at most
#: _PARSED_FILE_LIMIT files per query)
MAX_FILES = 12

FEATURES = ['tie-try', 'tie-try-local', 'tie-if', 'alias', 'reexport', 'import-module', 'import-dotted',
            'from-pkg-import-sub', 'relative', 'same-name-two-modules',
            'kw:pk', 'kw:kwonly-star', 'kw:kwonly-args', 'kw:class']


def _kw_sig(spec, p, d):
    """parameter list of a function with first parameter p whose name has the keyword spec"""
    if not spec:
        return p
    kind, kw = spec['kind'], spec['kw']
    if kind == 'pk':
        return '%s, %s=%d' % (p, kw, d)
    if kind == 'kwonly-star':
        return '%s, *, %s=%d' % (p, kw, d)
    if kind == 'kwonly-args':
        return '%s, *rest, %s=%d' % (p, kw, d)
    raise AssertionError(kind)


def _call_t(rng, callee, fname, kwspec):
    """call template ('%s' = the first argument) of the callable `fname` written as `callee`;
    its keyword-capable parameter is passed by keyword"""
    spec = (kwspec or {}).get(fname)
    if not spec:
        return callee + '(%s)'
    if spec['kind'] == 'class':
        first = rng.choice(['%d' % rng.randint(1, 5), '%s=%d' % (CLASS_PARAM, rng.randint(1, 5))])
        init_kw = '' if rng.random() < 0.25 else ', %s=%d' % (spec['init_kw'], rng.randint(2, 9))
        if spec['init_kind'] == 'kwonly-args' and init_kw and not first.startswith(CLASS_PARAM) and rng.random() < 0.5:
            init_kw = ', %d%s' % (rng.randint(1, 5), init_kw)
        meth_kw = ', %s=%d' % (spec['kw'], rng.randint(2, 9))
        return '%s(%s%s).%s(%%s%s)' % (callee, first, init_kw, CLASS_METHOD, meth_kw)
    if rng.random() < 0.2:
        return callee + '(%s)'
    if spec['kind'] == 'kwonly-args' and rng.random() < 0.5:
        return '%s(%%s, %d, %s=%d)' % (callee, rng.randint(1, 5), spec['kw'], rng.randint(2, 9))
    return '%s(%%s, %s=%d)' % (callee, spec['kw'], rng.randint(2, 9))


def _without_keyword(expr, kw):
    """`expr` with every `kw=<int>` argument (and the extra positional argument in front of it)
    removed: inside a function that has a parameter `kw` itself no call passes `kw=` (a call keyword
    spelled like a name of the calling scope is a finding of its own, stream kwparam)"""
    return re.sub(r', (\d+, )?%s=\d+' % re.escape(kw), '', expr)


class _Mod:
    def __init__(self, rel, layer):
        self.rel = rel
        self.layer = layer
        self.dotted = dotted_of(rel)
        self.pkg = self.dotted.rsplit('.', 1)[0] if '.' in self.dotted and not rel.endswith('__init__.py') else \
            (self.dotted if rel.endswith('__init__.py') else None)
        self.imports = []       # lines
        self.defs = []          # lines
        self.funcs = {}         # exported callable name -> True
        self.consts = []        # exported constant names
        self.calls = []         # expression templates '%s' -> int, usable in this module
        self.values = []        # int-valued expressions usable in this module
        self.bound = set()      # spellings bound at module level


def dotted_of(rel):
    d = rel[:-3].replace('/', '.')
    if d.endswith('.__init__'):
        d = d[:-len('.__init__')]
    return d


def _const(rng):
    return rng.randint(2, 9)


def _expr(rng, m, arg, depth=0, must=()):
    """an int-valued expression over `arg` using what module m can call; every template of `must`
    is used"""
    terms = [arg] + [c % arg for c in must]
    if m.calls and (depth == 0 or rng.random() < 0.4):
        k = 1 if depth else rng.randint(1, 2)
        for _ in range(k):
            inner = arg if rng.random() < 0.7 else _expr(rng, m, arg, depth + 1)
            terms.append(rng.choice(m.calls) % inner)
    if m.values and rng.random() < 0.5:
        terms.append(rng.choice(m.values))
    rng.shuffle(terms)
    out = terms[0]
    for t in terms[1:]:
        out = '%s %s %s' % (out, rng.choice(['+', '*', '-']), t)
    return out


def _add_import(rng, m, target, plan, aliases, kwspec=None):
    """one import statement of module `m` from module `target`; returns the feature used"""
    forms = []
    names = sorted(target.funcs) + target.consts
    # a name imported under an alias is never bound a second time by the importing module
    free = [n for n in names if n not in m.bound and ('src', n) not in m.bound]
    if aliases and plan.get('import_form', '').endswith('-as'):
        pass
    elif rng.random() < 0.7:
        aliases = []
    top = target.dotted.split('.')[0]
    if free:
        forms += ['from-name', 'from-name']
        if aliases:
            forms.append('from-name-as')
    if not target.rel.endswith('__init__.py'):
        if '.' in target.dotted:
            if top not in m.bound or ('pkgname', top) in m.bound:
                forms.append('import-dotted')
            if target.dotted.split('.')[-1] not in m.bound:
                forms.append('from-pkg-import-sub')
            if aliases:
                forms.append('from-pkg-import-sub-as')
            if m.pkg and m.pkg == target.dotted.rsplit('.', 1)[0]:
                if target.dotted.split('.')[-1] not in m.bound:
                    forms.append('relative-sub')
                if free:
                    forms.append('relative-name')
        else:
            if top not in m.bound:
                forms.append('import-module')
            if aliases:
                forms.append('import-module-as')
    elif names and m.pkg != target.dotted:
        # the package itself: `import pkg` / `import pkg as alias` and use what its __init__ exports
        if top not in m.bound:
            forms.append('import-module')
        if aliases:
            forms.append('import-module-as')
    if not forms or not names:
        return None
    want = plan.get('import_form')
    form = want if want in forms else rng.choice(forms)
    last = target.dotted.split('.')[-1]

    def expose(prefix):
        for f in sorted(target.funcs):
            m.calls.append(_call_t(rng, prefix + f, f, kwspec))
        for c in target.consts:
            m.values.append(prefix + c)

    if form in ('from-name', 'relative-name', 'from-name-as'):
        n = rng.choice(free)
        src = target.dotted if form != 'relative-name' else '.' + last
        if form == 'from-name-as':
            a = aliases.pop()
            m.imports.append('from %s import %s as %s' % (src, n, a))
            m.bound.add(('src', n))
            bound = a
        else:
            m.imports.append('from %s import %s' % (src, n))
            bound = n
            # a plain imported name is re-exported by this module
            if n in target.funcs:
                m.funcs[n] = True
            else:
                m.consts.append(n)
        m.bound.add(bound)
        if n in target.funcs:
            m.calls.append(_call_t(rng, bound, n, kwspec))
        else:
            m.values.append(bound)
        return {'from-name': 'from-name', 'relative-name': 'relative', 'from-name-as': 'alias'}[form]
    if form == 'import-module':
        m.imports.append('import %s' % target.dotted)
        m.bound.add(top)
        expose(target.dotted + '.')
        return 'import-module'
    if form == 'import-module-as':
        a = aliases.pop()
        m.imports.append('import %s as %s' % (target.dotted, a))
        m.bound.add(a)
        expose(a + '.')
        return 'alias'
    if form == 'import-dotted':
        m.imports.append('import %s' % target.dotted)
        m.bound.add(top)
        m.bound.add(('pkgname', top))
        expose(target.dotted + '.')
        return 'import-dotted'
    if form in ('from-pkg-import-sub', 'relative-sub'):
        src = target.dotted.rsplit('.', 1)[0] if form == 'from-pkg-import-sub' else '.'
        m.imports.append('from %s import %s' % (src, last))
        m.bound.add(last)
        expose(last + '.')
        return 'from-pkg-import-sub' if form == 'from-pkg-import-sub' else 'relative'
    if form == 'from-pkg-import-sub-as':
        a = aliases.pop()
        m.imports.append('from %s import %s as %s' % (target.dotted.rsplit('.', 1)[0], last, a))
        m.bound.add(a)
        expose(a + '.')
        return 'alias'
    raise AssertionError(form)


def _tie(rng, m, a, b, name, kind, wrappers, kwspec=None):
    """module m ties a.name and b.name together"""
    if kind == 'tie-try':
        m.imports += ['try:', '    from %s import %s' % (a.dotted, name), 'except ImportError:',
                      '    from %s import %s' % (b.dotted, name)]
        m.bound.add(name)
        m.calls.append(_call_t(rng, name, name, kwspec))
        m.funcs[name] = True
    else:
        w = wrappers.pop() if wrappers else 'dispatch'
        p = rng.choice(PARAM_POOL)
        if kind == 'tie-if':
            head = ['    if %s > %d:' % (p, rng.randint(1, 4)), '        from %s import %s' % (a.dotted, name),
                    '    else:', '        from %s import %s' % (b.dotted, name)]
        else:
            head = ['    try:', '        from %s import %s' % (a.dotted, name),
                    '    except ImportError:', '        from %s import %s' % (b.dotted, name)]
        m.defs += ['def %s(%s):' % (w, p)] + head + ['    return %s' % (_call_t(rng, name, name, kwspec) % p), '', '']
        m.bound.add(w)
        m.funcs[w] = True
        m.calls.append(w + '(%s)')


TIES = ['tie-try', 'tie-try-local', 'tie-if']


def gen_project(rng, plan=None):
    """plan: {'tie': None | one of TIES, 'tie_where': 'main' | 'sub' | 'upper' | None,
    'import_form': a form name to prefer}"""
    plan = dict(plan or {})
    features = set()
    roots = rng.sample(ROOT_POOL, rng.randint(3, 4))
    pkg = rng.choice(PKG_POOL)
    subs = rng.sample(SUB_POOL, rng.randint(1, 2))
    funcs = rng.sample(FUNC_POOL, 2)
    aliases = rng.sample(ALIAS_POOL, len(ALIAS_POOL))
    wrappers = rng.sample(WRAP_POOL, len(WRAP_POOL))
    # which names take a second, keyword-capable parameter that call sites pass by keyword
    kwspec = {}
    kw_plan = plan.get('kw', 'random')
    kwnames = rng.sample(KWNAME_POOL, 4)
    for i, f in enumerate(funcs):
        kind = kw_plan if i == 0 else 'random'
        if kind == 'random':
            kind = rng.choice(KW_KINDS + [None])
        if kind in KW_KINDS:
            kwspec[f] = {'kind': kind, 'kw': kwnames[i]}
            features.add('kw:' + kind)
    klass = None
    if plan.get('klass', rng.random() < 0.4):
        klass = rng.choice(CLASS_POOL)
        kwspec[klass] = {'kind': 'class', 'init_kind': rng.choice(KW_KINDS), 'init_kw': kwnames[2],
                         'meth_kind': rng.choice(KW_KINDS), 'kw': kwnames[3]}
        features.add('kw:class')
    n_low = rng.randint(2, len(roots) - 1)
    low = [_Mod(r + '.py', 0) for r in roots[:n_low]]
    submods = [_Mod('%s/%s.py' % (pkg, s), 1) for s in subs]
    init = _Mod('%s/__init__.py' % pkg, 2)
    upper = [_Mod(r + '.py', 3) for r in roots[n_low:]]
    where = rng.choice(['root', 'root', 'package'])
    main = _Mod('main.py' if where == 'root' else '%s/main.py' % MAIN_PKG, 4)
    mods = low + submods + [init] + upper + [main]

    # ---- layer 0: definitions; the first function name is defined in (at least) two modules
    for i, m in enumerate(low):
        mine = [funcs[0]] if i < 2 else [rng.choice(funcs)]
        if rng.random() < 0.4 and funcs[1] not in mine:
            mine.append(funcs[1])
        for f in mine:
            p = rng.choice(PARAM_POOL)
            body = '%s * %d + %d' % (p, _const(rng), _const(rng) + 10 * i)
            if f in kwspec:
                body += ' + %s' % kwspec[f]['kw'] + (' + len(rest)' if kwspec[f]['kind'] == 'kwonly-args' else '')
            m.defs += ['def %s(%s):' % (f, _kw_sig(kwspec.get(f), p, _const(rng))), '    return %s' % body, '', '']
            m.funcs[f] = True
            m.bound.add(f)
            m.calls.append(_call_t(rng, f, f, kwspec))
        if klass and i == n_low - 1:
            sp = kwspec[klass]
            m.defs += ['class %s:' % klass,
                       '    def __init__(self, %s):' % _kw_sig({'kind': sp['init_kind'], 'kw': sp['init_kw']}, CLASS_PARAM, _const(rng)),
                       '        self.%s = %s + %s' % (CLASS_ATTR, CLASS_PARAM, sp['init_kw']), '',
                       '    def %s(self, %s):' % (CLASS_METHOD, _kw_sig({'kind': sp['meth_kind'], 'kw': sp['kw']}, rng.choice(PARAM_POOL), _const(rng))),
                       None, '', '']
            mp = m.defs[-4].split('(self, ')[1].split(',')[0]
            m.defs[m.defs.index(None)] = '        return self.%s + %s * %s' % (CLASS_ATTR, mp, sp['kw'])
            m.funcs[klass] = True
            m.bound.add(klass)
            m.calls.append(_call_t(rng, klass, klass, kwspec))
        if rng.random() < 0.5:
            c = rng.choice(CONST_POOL)
            m.defs += ['%s = %d' % (c, _const(rng) + 20 * i), '']
            m.consts.append(c)
            m.bound.add(c)
            m.values.append(c)
    features.add('same-name-two-modules')

    # ---- where the tie lives
    tie = plan.get('tie')
    if tie is None and rng.random() < 0.35:
        tie = rng.choice(TIES)
    tie_where = plan.get('tie_where') or rng.choice(['main', 'sub', 'upper'])
    tie_mod = {'main': main, 'sub': submods[-1], 'upper': upper[0]}[tie_where]
    # another module uses one of the two tied definitions directly
    side_mod = rng.choice([x for x in submods + upper + [main] if x is not tie_mod]) if tie else None

    def fill(m, lower):
        must = []
        if m is tie_mod and tie:
            a, b = low[0], low[1]
            if rng.random() < 0.5:
                a, b = b, a
            _tie(rng, m, a, b, funcs[0], tie, wrappers, kwspec)
            if tie == 'tie-try':
                # the tied name is used below the try statement (own definition / main's print)
                must.append(_call_t(rng, funcs[0], funcs[0], kwspec))
            features.add(tie)
        if m is side_mod and funcs[0] not in m.bound and ('src', funcs[0]) not in m.bound:
            src = rng.choice(low[:2])
            if rng.random() < 0.7:
                m.imports.append('from %s import %s' % (src.dotted, funcs[0]))
                m.bound.add(funcs[0])
                m.funcs[funcs[0]] = True
                m.calls.append(_call_t(rng, funcs[0], funcs[0], kwspec))
                must.append(_call_t(rng, funcs[0], funcs[0], kwspec))
            elif src.dotted not in m.bound:
                m.imports.append('import %s' % src.dotted)
                m.bound.add(src.dotted)
                m.calls.append(_call_t(rng, '%s.%s' % (src.dotted, funcs[0]), funcs[0], kwspec))
                must.append(_call_t(rng, '%s.%s' % (src.dotted, funcs[0]), funcs[0], kwspec))
        k = rng.randint(1, 3) if m.layer != 2 else rng.randint(0, 1)
        cands = list(lower)
        rng.shuffle(cands)
        for target in cands[:k]:
            if m.layer == 2 and target.layer != 1:
                continue
            f = _add_import(rng, m, target, plan if rng.random() < 0.5 else {}, aliases, kwspec)
            if f:
                features.add(f)
                if f == 'from-name' and target.layer >= 1 and any(
                        l.startswith('from ') for l in target.imports):
                    features.add('reexport')
        if m.layer in (1, 3):
            # own definitions on top of what was imported
            own = [f for f in funcs + wrappers[:1] if f not in m.bound and ('src', f) not in m.bound]
            if own:
                f = rng.choice(own)
                if f in wrappers:
                    wrappers.remove(f)
                p = rng.choice(PARAM_POOL)
                body = _expr(rng, m, p, must=must)
                if f in kwspec:
                    body = '%s + %s' % (_without_keyword(body, kwspec[f]['kw']), kwspec[f]['kw'])
                m.defs += ['def %s(%s):' % (f, _kw_sig(kwspec.get(f), p, _const(rng))), '    return %s' % body, '', '']
                must = []
                m.funcs[f] = True
                m.bound.add(f)
                m.calls.append(_call_t(rng, f, f, kwspec))
        if must and m is not main:
            m.defs += ['CHECKED = %s' % (must[0] % str(rng.randint(1, 5))), '']

    for i, m in enumerate(submods):
        fill(m, low + submods[:i])
    fill(init, submods)
    for i, m in enumerate(upper):
        fill(m, low + submods + [init] + upper[:i])
    fill(main, [x for x in mods if x is not main])
    # main prints
    args = []
    for _ in range(rng.randint(2, 4)):
        args.append(_expr(rng, main, str(rng.randint(1, 6))))
    # every callable main can see is used at least once
    for c in main.calls:
        if not any(re.search(r'(?<![\w.])' + re.escape(c.split('(')[0]) + r'\(', a) for a in args):
            args.append(c % str(rng.randint(1, 6)))
    main.defs.append('print(%s)' % ', '.join(args))

    files = {}
    for m in mods:
        body = m.imports + ([''] if m.imports and m.defs else []) + m.defs
        while body and body[-1] == '':
            body.pop()
        files[m.rel] = '\n'.join(body) + ('\n' if body else '')
    if where == 'package':
        files['%s/__init__.py' % MAIN_PKG] = ''
    assert len(files) <= MAX_FILES
    return {'files': files, 'main': main.rel, 'features': sorted(features)}


# ---------------------------------------------------------------------------- pure helpers

_SKIP = {'print', 'ImportError', 'self', 'len'}       # not defined by the project: never a start


def occurrences(files):
    """every identifier token the property quantifies over: (rel, line, col, spelling)"""
    out = []
    for rel in sorted(files):
        for t in tokenize.generate_tokens(io.StringIO(files[rel]).readline):
            if t.type == tokenize.NAME and not keyword.iskeyword(t.string) and t.string not in _SKIP \
                    and not (t.string.startswith('__') and t.string.endswith('__')):
                out.append((rel, t.start[0], t.start[1], t.string))
    return out


def replace_at(src, positions, old, new):
    lines = src.split('\n')
    by_line = {}
    for (l, c) in positions:
        by_line.setdefault(l, []).append(c)
    for l, cols in by_line.items():
        s = lines[l - 1]
        for c in sorted(set(cols), reverse=True):
            if s[c:c + len(old)] != old:
                raise ValueError('no %r at %r' % (old, (l, c)))
            s = s[:c] + new + s[c + len(old):]
        lines[l - 1] = s
    return '\n'.join(lines)


def apply_renames(files, renames):
    """files after the announced path renames [(from_rel, to_rel)] (a directory rename moves
    everything below it)"""
    out = dict(files)
    for frm, to in renames:
        nxt = {}
        for rel, code in out.items():
            if rel == frm:
                nxt[to] = code
            elif rel.startswith(frm + '/'):
                nxt[to + rel[len(frm):]] = code
            else:
                nxt[rel] = code
        out = nxt
    return out


def map_path(rel, renames):
    for frm, to in renames:
        if rel == frm:
            rel = to
        elif rel.startswith(frm + '/'):
            rel = to + rel[len(frm):]
    return rel


def expected_rename_target(module_rel, new_name):
    """what renaming the module that lives in `module_rel` announces"""
    if module_rel.endswith('/__init__.py'):
        d = module_rel[:-len('/__init__.py')]
        return d, os.path.join(os.path.dirname(d), new_name)
    return module_rel, os.path.join(os.path.dirname(module_rel), new_name + '.py')


def write_tree(root, files):
    for rel, code in files.items():
        p = os.path.join(root, rel)
        os.makedirs(os.path.dirname(p), exist_ok=True)
        with open(p, 'w', newline='', encoding='utf-8') as f:
            f.write(code)


def run_project(root, main_rel, timeout=60):
    """(return code, stdout, class of the terminating exception)"""
    env = {k: v for k, v in os.environ.items() if not k.startswith('PYTHON')}
    try:
        r = subprocess.run([sys.executable, '-B', '-S', '-m', dotted_of(main_rel)], cwd=root, env=env,
                           capture_output=True, text=True, timeout=timeout)
    except subprocess.TimeoutExpired:
        return [-9, '', 'Timeout']
    err = r.stderr.strip().splitlines()
    last = err[-1] if err else ''
    m = re.match(r'([A-Za-z_.]+)(:|$)', last)
    return [r.returncode, r.stdout, m.group(1) if m else last[:80]]


def run_files(scratch, tag, files, main_rel):
    root = os.path.join(scratch, tag)
    write_tree(root, files)
    try:
        return run_project(root, main_rel)
    finally:
        shutil.rmtree(root, ignore_errors=True)


# ---------------------------------------------------------------------------- shapes

def _alias_spellings(code):
    return set(re.findall(r'\bas\s+([A-Za-z_][A-Za-z_0-9]*)', code))


_IF_IMPORT = re.compile(r'^( +)if [^\n]*:\n\1    from \S+ import (\w+)\n\1else:\n\1    from \S+ import (\w+)\n', re.M)


def _if_imported_spellings(files):
    """spellings bound by an import in both branches of an `if` inside a function"""
    out = set()
    for code in files.values():
        for m in _IF_IMPORT.finditer(code):
            if m.group(2) == m.group(3):
                out.add(m.group(2))
    return out


def _module_level_bindings(code):
    """spellings bound in the module's own scope (statements nested in if/try/with count, bodies of
    functions and classes do not)"""
    import ast
    out = set()

    def walk(stmts):
        for n in stmts:
            if isinstance(n, (ast.FunctionDef, ast.AsyncFunctionDef, ast.ClassDef)):
                out.add(n.name)
                continue
            if isinstance(n, (ast.Import, ast.ImportFrom)):
                for a in n.names:
                    out.add(a.asname or a.name.split('.')[0])
            elif isinstance(n, ast.Assign):
                for t in n.targets:
                    if isinstance(t, ast.Name):
                        out.add(t.id)
            for field in ('body', 'orelse', 'finalbody'):
                walk(getattr(n, field, []) or [])
            for h in getattr(n, 'handlers', []) or []:
                walk(h.body)
    walk(ast.parse(code).body)
    return out


def _binds(code, name):
    return name in _module_level_bindings(code)


def _aliased_and_bound(files, name):
    """some module imports `name` under an alias (`from m import name as x`) and binds `name` itself"""
    for code in files.values():
        if re.search(r'\bimport\s+%s\s+as\s' % name, code) and _binds(code, name):
            return True
    return False


_TRY_IMPORT = re.compile(r'^try:\n    from \S+ import (\w+)\nexcept ImportError:\n    from \S+ import (\w+)\n', re.M)


def _tied_without_use(files, name):
    """some module imports `name` in both arms of a module-level try/except ImportError and never
    uses it below (an attribute `x.name` is not a use of the variable)"""
    for code in files.values():
        for m in _TRY_IMPORT.finditer(code):
            if m.group(1) == m.group(2) == name and not re.search(r'(?<![\w.])%s\b' % name, code[m.end():]):
                return True
    return False


def _params_and_keywords(files, name):
    """(files that have a def/lambda with a parameter `name`, {rel: {(line, col)}} of the call
    keywords `name=`)"""
    import ast
    defs, kws = set(), {}
    for rel, code in files.items():
        if name not in code:
            continue
        for n in ast.walk(ast.parse(code)):
            if isinstance(n, (ast.FunctionDef, ast.AsyncFunctionDef, ast.Lambda)):
                a = n.args
                if any(x is not None and x.arg == name
                       for x in a.posonlyargs + a.args + a.kwonlyargs + [a.vararg, a.kwarg]):
                    defs.add(rel)
            elif isinstance(n, ast.Call):
                for k in n.keywords:
                    if k.arg == name:
                        kws.setdefault(rel, set()).add((k.lineno, k.col_offset))
    return defs, kws


def shape_of(files, rel, line, col, name):
    """syntactic class of the start occurrence (what known findings are matched by); decided on
    the project text and the cursor only, never on what jedi answered"""
    code = files[rel]
    if name in KWNAME_POOL or name == CLASS_PARAM:
        defs, kws = _params_and_keywords(files, name)
        if any(d != k for d in defs for k in kws):
            # a parameter of this spelling is declared in one module and passed by keyword in another
            return 'parameter-passed-by-keyword-in-another-module'
    if name in _alias_spellings(code):
        # the identifier under the cursor is bound by `... as <name>` in this file
        return 'start-is-import-alias'
    if name in _if_imported_spellings(files):
        return 'spelling-imported-in-both-branches-of-an-if'
    if _aliased_and_bound(files, name):
        return 'spelling-imported-under-alias-by-a-module-that-binds-it'
    if _tied_without_use(files, name):
        return 'spelling-imported-in-both-arms-of-try-except-and-not-used-below'
    return 'plain'


def is_local_spelling(name):
    """parameters: looked up in their own module only; the single-module streams cover them"""
    return name in PARAM_POOL or name == 'rest'

"""Nesting programs (C18): Scopes programs extended with source positions and header items.

Abstract syntax (JSON-able).  Expressions
  e := {"e":"name","x":n} | {"e":"num"}                 (printed as the empty tuple `()`)
     | {"e":"lambda","params":[[n, default e|None]..],"body":e}
     | {"e":"comp","form":"list"|"gen"|"set"|"dict"|"arg","elt":e,"var":n,"iter":e,"cond":e|None}
     | {"e":"call","f":n,"args":[e..]}
     | {"e":"brk","inner":e,"col":c,"ccol":c2}      "(" NEWLINE <c spaces> inner NEWLINE <c2 spaces> ")"
Statements
  s := {"k":"bind","x":n,"e":e} | {"k":"expr","e":e} | {"k":"pass"} | {"k":"return","e":e}
     | {"k":"blank"} | {"k":"comment","col":c}            (prefix-only lines: no leaf)
     | {"k":"if","x":n,"body":[s..],"orelse":[s..]|None}
     | {"k":"def","kind":"function"|"class","name":n,"async":bool,"decos":[e..],
        "params":[{"name":n,"ann":e|None,"default":e|None,"nl":c|None}..]   nl = column of a line break before it
        "bases":[[kw|None, e]..]|None, "ret":e|None, "oneline":bool, "body":[s..]}
A program = dict(body=[s..], trail=k) (k trailing spaces after the last newline).

`render(prog)` prints the source token by token and returns the tables the Lean model
(Model/Nesting.lean) consumes; nothing is derived from parso:
  leaves : [start_line, start_col, end_line, end_col, pscope, isParamName, role, arg, name]
           role: 0 other, 1 newline, 2 endmarker, 3 use, 4 bind, 5 param, 6 defName (arg = scope)
           pscope = what jedi's `parent_scope(leaf)` (inference/context.py) returns, as a scope index
  scopes : [kind, pscope, start(l,c), colon(l,c), suite(l,c), stop(l,c), nameLeaf, name, stmt(l,c)]
           kind as gen.scopes.KINDS; start = node.start_pos (`def`/`class`/`lambda`/`for` keyword),
           colon = first ':' child, suite = children[-1].start_pos, stop = node.end_pos;
           stmt = node.parent.start_pos when the parent is an async_stmt / async_funcdef (the `async`
           keyword), node.start_pos otherwise: what the indentation loop of get_context compares with;
           pscope = parent_scope(node) (for comprehensions parent_scope(node.parent), see create_context)
`table_from_parso(src)` recomputes the same tables from a parso tree (cross-check of this printer
and the source of tables for corpus files).
"""
from gen.scopes import KINDS, NAMES, FNAMES, CNAMES

ROLE = {'other': 0, 'newline': 1, 'endmarker': 2, 'use': 3, 'bind': 4, 'param': 5, 'def': 6}
DECOS = ['dec', 'dec2']
PRELUDE = [
    {'k': 'bind', 'x': 'a', 'e': {'e': 'num'}},
    {'k': 'bind', 'x': 'b', 'e': {'e': 'num'}},
    {'k': 'bind', 'x': 'c', 'e': {'e': 'num'}},
    {'k': 'bind', 'x': 'it', 'e': {'e': 'num'}},
    {'k': 'def', 'kind': 'function', 'name': 'dec', 'async': False, 'decos': [],
     'params': [{'name': 'f', 'ann': None, 'default': None, 'nl': None}], 'bases': None, 'ret': None,
     'oneline': True, 'body': [{'k': 'return', 'e': {'e': 'name', 'x': 'f'}}]},
    {'k': 'def', 'kind': 'function', 'name': 'dec2', 'async': False, 'decos': [],
     'params': [{'name': 'x', 'ann': None, 'default': {'e': 'num'}, 'nl': None},
                {'name': 'y', 'ann': None, 'default': {'e': 'num'}, 'nl': None}], 'bases': None, 'ret': None,
     'oneline': True, 'body': [{'k': 'return', 'e': {'e': 'name', 'x': 'dec'}}]},
    {'k': 'def', 'kind': 'class', 'name': 'Base', 'async': False, 'decos': [], 'params': [], 'bases': None,
     'ret': None, 'oneline': True, 'body': [{'k': 'pass'}]},
]


class _P:
    def __init__(self):
        self.lines = ['']
        self.leaves = []
        self.scopes = [[KINDS['module'], 0, (1, 0), (1, 0), (1, 0), None, -1, '', (1, 0)]]

    def pos(self):
        return (len(self.lines), len(self.lines[-1]))

    def ws(self, s):
        self.lines[-1] += s

    def brk(self, col):
        """line break inside brackets (prefix, no leaf)"""
        self.lines.append(' ' * col)

    def rawline(self, text):
        assert self.lines[-1] == ''
        self.lines[-1] = text
        self.lines.append('')

    def tok(self, text, ps, role='other', isparam=False, arg=0, sp=False):
        if sp:
            self.ws(' ')
        st = self.pos()
        self.lines[-1] += text
        en = self.pos()
        name = text if role in ('use', 'bind', 'param', 'def') else ''
        self.leaves.append([st[0], st[1], en[0], en[1], ps, 1 if isparam else 0, ROLE[role], arg, name])
        return len(self.leaves) - 1

    def newline(self, ps):
        st = self.pos()
        self.lines.append('')
        self.leaves.append([st[0], st[1], len(self.lines), 0, ps, 0, ROLE['newline'], 0, ''])

    def last_end(self):
        l = self.leaves[-1]
        return (l[2], l[3])

    def new_scope(self, kind, pscope, name=''):
        self.scopes.append([KINDS[kind], pscope, None, None, None, None, -1, name, None])
        return len(self.scopes) - 1


def _expr(p, e, E, sp=False):
    """prints expression e; E = scope index that parent_scope() yields for a plain leaf here"""
    k = e['e']
    if k == 'name':
        p.tok(e['x'], E, 'use', sp=sp)
    elif k == 'num':
        p.tok('(', E, sp=sp)
        p.tok(')', E)
    elif k == 'call':
        p.tok(e['f'], E, 'use', sp=sp)
        p.tok('(', E)
        for i, a in enumerate(e['args']):
            if i:
                p.tok(',', E)
            _expr(p, a, E, sp=i > 0)
        p.tok(')', E)
    elif k == 'brk':
        p.tok('(', E, sp=sp)
        p.brk(e['col'])
        _expr(p, e['inner'], E)
        p.brk(e['ccol'])
        p.tok(')', E)
    elif k == 'lambda':
        s = p.new_scope('lambda', E, '<lambda>')
        sc = p.scopes[s]
        if sp:
            p.ws(' ')
        sc[2] = sc[8] = p.pos()
        p.tok('lambda', s)
        for i, (n, d) in enumerate(e['params']):
            if i:
                p.tok(',', s)
            p.tok(n, s, 'param', isparam=True, sp=True)
            if d is not None:
                p.tok('=', s)
                _expr(p, d, s)
        sc[3] = p.pos()
        p.tok(':', s)
        p.ws(' ')
        sc[4] = p.pos()
        _expr(p, e['body'], s)
        sc[5] = p.last_end()
    elif k == 'comp':
        form = e['form']
        s = p.new_scope('comp', E)
        sc = p.scopes[s]
        if form == 'arg':
            p.tok('dec2', E, 'use', sp=sp)
            p.tok('(', E)
        else:
            p.tok({'list': '[', 'gen': '(', 'set': '{', 'dict': '{'}[form], E, sp=sp)
        if form == 'dict':
            _expr(p, e['elt'], s)
            p.tok(':', s)
            _expr(p, {'e': 'num'}, s, sp=True)
        else:
            _expr(p, e['elt'], s)
        p.ws(' ')
        sc[2] = sc[8] = p.pos()
        sc[3] = sc[2]
        p.tok('for', s)
        p.tok(e['var'], s, 'bind', sp=True)
        p.tok('in', s, sp=True)
        p.ws(' ')
        if e.get('cond') is None:
            sc[4] = p.pos()
        _expr(p, e['iter'], s)
        if e.get('cond') is not None:
            p.ws(' ')
            sc[4] = p.pos()
            p.tok('if', s)
            _expr(p, e['cond'], s, sp=True)
        sc[5] = p.last_end()
        p.tok({'list': ']', 'gen': ')', 'set': '}', 'dict': '}', 'arg': ')'}[form], E)
    else:
        raise ValueError(k)


def _suite(p, body, S, ind):
    for st in (body or [{'k': 'pass'}]):
        _stmt(p, st, S, ind)


def _simple(p, st, S):
    k = st['k']
    if k == 'bind':
        p.tok(st['x'], S, 'bind')
        p.tok('=', S, sp=True)
        _expr(p, st['e'], S, sp=True)
    elif k == 'expr':
        _expr(p, st['e'], S)
    elif k == 'pass':
        p.tok('pass', S)
    elif k == 'return':
        p.tok('return', S)
        _expr(p, st['e'], S, sp=True)
    else:
        raise ValueError(k)
    p.newline(S)


SIMPLE = ('bind', 'expr', 'pass', 'return')


def _stmt(p, st, S, ind):
    k = st['k']
    pad = ' ' * ind
    if k == 'blank':
        p.rawline('')
        return
    if k == 'comment':
        p.rawline(' ' * st['col'] + '# c')
        return
    p.ws(pad)
    if k in SIMPLE:
        _simple(p, st, S)
    elif k == 'if':
        p.tok('if', S)
        p.tok(st['x'], S, 'use', sp=True)
        p.tok(':', S)
        p.newline(S)
        _suite(p, st['body'], S, ind + 4)
        if st.get('orelse') is not None:
            p.ws(pad)
            p.tok('else', S)
            p.tok(':', S)
            p.newline(S)
            _suite(p, st['orelse'], S, ind + 4)
    elif k == 'def':
        for i, d in enumerate(st['decos']):
            if i:
                p.ws(pad)
            p.tok('@', S)
            _expr(p, d, S)
            p.newline(S)
        if st['decos']:
            p.ws(pad)
        stmt = p.pos()
        if st.get('async'):
            p.tok('async', S)
            p.ws(' ')
        s = p.new_scope(st['kind'], S, st['name'])
        sc = p.scopes[s]
        sc[2] = p.pos()
        sc[8] = stmt
        if st['kind'] == 'function':
            p.tok('def', s)
            sc[6] = p.tok(st['name'], s, 'def', arg=s, sp=True)
            p.tok('(', s)
            for i, prm in enumerate(st['params']):
                if i:
                    p.tok(',', s)
                if prm.get('nl') is not None:
                    p.brk(prm['nl'])
                elif i:
                    p.ws(' ')
                p.tok(prm['name'], s, 'param', isparam=prm.get('ann') is None)
                if prm.get('ann') is not None:
                    p.tok(':', s)
                    _expr(p, prm['ann'], s, sp=True)
                if prm.get('default') is not None:
                    p.tok('=', s)
                    _expr(p, prm['default'], s)
            p.tok(')', s)
            if st.get('ret') is not None:
                p.tok('->', s, sp=True)
                _expr(p, st['ret'], s, sp=True)
        else:
            p.tok('class', s)
            sc[6] = p.tok(st['name'], s, 'def', arg=s, sp=True)
            if st.get('bases') is not None:
                p.tok('(', s)
                for i, (kw, b) in enumerate(st['bases']):
                    if i:
                        p.tok(',', s)
                    if kw is not None:
                        p.tok(kw, s, 'use', sp=i > 0)
                        p.tok('=', s)
                        _expr(p, b, s)
                    else:
                        _expr(p, b, s, sp=i > 0)
                p.tok(')', s)
        sc[3] = p.pos()
        p.tok(':', s)
        body = st['body'] or [{'k': 'pass'}]
        if st.get('oneline') and len(body) == 1 and body[0]['k'] in SIMPLE:
            p.ws(' ')
            sc[4] = p.pos()
            _simple(p, body[0], s)
        else:
            sc[4] = p.pos()
            p.newline(s)
            _suite(p, body, s, ind + 4)
        sc[5] = p.last_end()
    else:
        raise ValueError(k)


def render(prog):
    p = _P()
    for st in prog['body']:
        _stmt(p, st, 0, 0)
    p.ws(' ' * prog.get('trail', 0))
    end = p.pos()
    p.leaves.append([end[0], end[1], end[0], end[1], 0, 0, ROLE['endmarker'], 0, ''])
    p.scopes[0][5] = end
    src = '\n'.join(p.lines)
    scopes = [[s[0], s[1], list(s[2]), list(s[3]), list(s[4]), list(s[5]), s[6], s[7], list(s[8])] for s in p.scopes]
    return src, {'leaves': p.leaves, 'scopes': scopes}


# ------------------------------------------------------------------ tables from a parso tree

def table_from_parso(src, grammar=None):
    """The same tables computed from the parso tree of an arbitrary source: leaves in order,
    scope nodes in pre-order (file_input, funcdef, classdef, lambdef, sync_comp_for/comp_for),
    pscope by a transcription of `parent_scope` in TreeContextMixin.create_context."""
    import parso
    module = (grammar or parso.load_grammar()).parse(src)
    scope_ids = {}
    scopes = []

    def is_scope(node):
        t = node.type
        if t == 'comp_for':
            return node.children[1].type != 'sync_comp_for'
        return t in ('file_input', 'classdef', 'funcdef', 'lambdef', 'sync_comp_for')

    def parent_scope(node):
        while True:
            node = node.parent
            if is_scope(node):
                return node
            elif node.type in ('argument', 'testlist_comp'):
                if node.children[1].type in ('comp_for', 'sync_comp_for'):
                    return node.children[1]
            elif node.type == 'dictorsetmaker':
                for n in node.children[1:4]:
                    if n.type in ('comp_for', 'sync_comp_for'):
                        return n

    def walk(node):
        if is_scope(node):
            scopes.append(node)
        for c in getattr(node, 'children', []):
            walk(c)
    walk(module)
    # numbering: every scope after its pscope.  A comprehension is numbered where its element
    # starts (the element's own scopes have the comprehension as pscope), everything else at its
    # own start; parso's pre-order breaks ties.
    order = sorted(range(len(scopes)), key=lambda i: (
        scopes[i].parent.start_pos if scopes[i].type in ('comp_for', 'sync_comp_for') else scopes[i].start_pos,
        0 if scopes[i].type in ('comp_for', 'sync_comp_for') else 1, i))
    scopes = [scopes[i] for i in order]
    for i, n in enumerate(scopes):
        scope_ids[id(n)] = i
    leaves = []
    leaf_ids = {}
    leaf = module.get_first_leaf()
    while leaf is not None:
        leaf_ids[id(leaf)] = len(leaves)
        leaves.append(leaf)
        leaf = leaf.get_next_leaf()
    kind_of = {'file_input': 0, 'funcdef': 1, 'classdef': 2, 'lambdef': 3}
    out_scopes = []
    for n in scopes:
        kind = kind_of.get(n.type, KINDS['comp'])
        if kind == 0:
            out_scopes.append([0, 0, [1, 0], [1, 0], [1, 0], list(n.end_pos), -1, '', [1, 0]])
            continue
        if kind == KINDS['comp']:
            ps = scope_ids[id(parent_scope(n.parent))]
            colon = n.start_pos
            name_leaf, name = -1, ''
        else:
            ps = scope_ids[id(parent_scope(n))]
            colon = n.children[n.children.index(':')].start_pos
            if kind == 3:
                name_leaf, name = -1, '<lambda>'
            else:
                name_leaf, name = leaf_ids[id(n.name)], n.name.value
        stmt = n.parent if n.parent.type in ('async_stmt', 'async_funcdef') else n
        out_scopes.append([kind, ps, list(n.start_pos), list(colon), list(n.children[-1].start_pos),
                           list(n.end_pos), name_leaf, name, list(stmt.start_pos)])
    out_leaves = []
    for lf in leaves:
        ps = scope_ids[id(parent_scope(lf))]
        par = lf.parent
        isparam = par.type == 'param' and par.name == lf
        role, arg, name = ROLE['other'], 0, ''
        if lf.type == 'newline':
            role = ROLE['newline']
        elif lf.type == 'endmarker':
            role = ROLE['endmarker']
        elif lf.type == 'name':
            name = lf.value
            d = lf.get_definition() if lf.is_definition() else None
            if d is None or d.type in ('import_name', 'import_from'):
                role = ROLE['use']      # imports: full_name is the imported path, outside the model
            elif d.type in ('funcdef', 'classdef') and d.name is lf:
                role, arg = ROLE['def'], scope_ids[id(d)]
            elif d.type == 'param':
                role = ROLE['param']
            else:
                role = ROLE['bind']
        out_leaves.append([lf.start_pos[0], lf.start_pos[1], lf.end_pos[0], lf.end_pos[1], ps,
                           1 if isparam else 0, role, arg, name])
    return {'leaves': out_leaves, 'scopes': out_scopes}


# ------------------------------------------------------------------ generation

def gen_expr(rng, depth=0, allow_brk=True):
    r = rng.random()
    if depth >= 2 or r < 0.45:
        return {'e': 'name', 'x': rng.choice(NAMES)} if rng.random() < 0.8 else {'e': 'num'}
    if r < 0.62:
        n = rng.choice([0, 1, 1, 2])
        params = [[x, (gen_expr(rng, depth + 1, False) if rng.random() < 0.25 else None)]
                  for x in rng.sample(NAMES, n)]
        return {'e': 'lambda', 'params': params, 'body': gen_expr(rng, depth + 1, allow_brk)}
    if r < 0.80:
        return {'e': 'comp', 'form': rng.choice(['list', 'list', 'gen', 'set', 'dict', 'arg']),
                'elt': gen_expr(rng, depth + 1, False), 'var': rng.choice(NAMES),
                'iter': gen_iter(rng, depth + 1),
                'cond': gen_expr(rng, depth + 1, False) if rng.random() < 0.3 else None}
    if r < 0.90 or not allow_brk:
        return {'e': 'call', 'f': 'dec2', 'args': [gen_expr(rng, depth + 1, False) for _ in range(rng.choice([0, 1, 2]))]}
    return {'e': 'brk', 'inner': gen_expr(rng, depth + 1, False), 'col': rng.choice([0, 0, 2, 4, 4, 8, 8, 12]),
            'ccol': rng.choice([0, 4, 8])}


def gen_iter(rng, depth):
    """an expression that evaluates to an (empty) iterable, so that the programs can be executed"""
    r = rng.random()
    if r < 0.5 or depth >= 3:
        return {'e': 'name', 'x': 'it'}
    if r < 0.7:
        return {'e': 'num'}
    return {'e': 'comp', 'form': rng.choice(['list', 'gen', 'set', 'dict']),
            'elt': gen_expr(rng, depth + 1, False), 'var': rng.choice(NAMES), 'iter': gen_iter(rng, depth + 1),
            'cond': gen_expr(rng, depth + 1, False) if rng.random() < 0.3 else None}


def gen_body(rng, depth, kind, budget, pools=None):
    items = []
    n = rng.randint(1, 4)
    for _ in range(n):
        if budget[0] <= 0:
            break
        budget[0] -= 1
        r = rng.random()
        if r < 0.18:
            items.append({'k': 'bind', 'x': rng.choice(NAMES), 'e': gen_expr(rng)})
        elif r < 0.34:
            items.append({'k': 'expr', 'e': gen_expr(rng)})
        elif r < 0.38:
            items.append({'k': 'pass'})
        elif r < 0.44 and kind == 'function':
            items.append({'k': 'return', 'e': gen_expr(rng)})
        elif r < 0.50:
            items.append({'k': 'blank'})
        elif r < 0.57:
            items.append({'k': 'comment', 'col': rng.choice([0, 2, 4, 4, 8, 8, 12, 16])})
        elif r < 0.63 and depth < 3:
            items.append({'k': 'if', 'x': rng.choice(NAMES), 'body': gen_body(rng, depth + 1, kind, budget, pools),
                          'orelse': gen_body(rng, depth + 1, kind, budget, pools) if rng.random() < 0.3 else None})
        elif depth < 3:
            items.append(gen_def(rng, depth, budget, pools))
        else:
            items.append({'k': 'expr', 'e': gen_expr(rng)})
    if not any(it['k'] not in ('blank', 'comment') for it in items):
        items.append({'k': 'pass'})
    # a suite must not start with a prefix-only line that is followed by nothing
    return items


def gen_def(rng, depth, budget, pools=None):
    """pools = (function names, class names): the spellings definitions are called (default FNAMES /
    CNAMES); C18 passes pools that share names between functions, classes and the components of the
    module's dotted path"""
    fnames, cnames = pools or (FNAMES, CNAMES)
    if rng.random() < 0.6:
        kind = 'function'
        name = rng.choice(fnames)
        params = []
        for x in rng.sample(['p', 'q', 'r'], rng.choice([0, 1, 1, 2, 3])):
            params.append({'name': x,
                           'ann': gen_expr(rng, 1, False) if rng.random() < 0.2 else None,
                           'default': gen_expr(rng, 1, False) if rng.random() < 0.4 else None,
                           'nl': rng.choice([0, 2, 4, 8, 12]) if rng.random() < 0.12 else None})
        # defaults must be trailing for the source to compile
        seen = False
        for prm in params:
            if prm['default'] is not None:
                seen = True
            elif seen:
                prm['default'] = {'e': 'num'}
        bases = None
        ret = gen_expr(rng, 1, False) if rng.random() < 0.15 else None
    else:
        kind = 'class'
        name = rng.choice(cnames)
        params = []
        ret = None
        r = rng.random()
        if r < 0.5:
            bases = None
        elif r < 0.6:
            bases = []
        else:
            bases = [[None, {'e': 'name', 'x': 'Base'}]]
            if rng.random() < 0.3:
                bases.append(['metaclass', {'e': 'name', 'x': 'type'}])
    decos = []
    while rng.random() < 0.25 and len(decos) < 2:
        if rng.random() < 0.5:
            decos.append({'e': 'name', 'x': 'dec'})
        else:
            decos.append({'e': 'call', 'f': 'dec2', 'args': [gen_expr(rng, 1, False)] if rng.random() < 0.6 else []})
    body = gen_body(rng, depth + 1, kind, budget, pools)
    return {'k': 'def', 'kind': kind, 'name': name, 'async': kind == 'function' and rng.random() < 0.25,
            'decos': decos, 'params': params, 'bases': bases, 'ret': ret,
            'oneline': rng.random() < 0.2, 'body': body}


def gen_program(rng, size=12, pools=None):
    for _ in range(200):
        body = list(PRELUDE) + gen_body(rng, 0, 'module', [size], pools)
        prog = {'body': body, 'trail': rng.choice([0, 0, 0, 1, 4, 5, 8, 9])}
        src, _ = render(prog)
        try:
            compile(src, '<gen>', 'exec')
        except SyntaxError:
            continue
        return prog
    return {'body': list(PRELUDE), 'trail': 0}


def N(x):
    return {'e': 'name', 'x': x}


def D(kind, name, body, params=(), decos=(), bases=None, is_async=False, oneline=False, ret=None):
    return {'k': 'def', 'kind': kind, 'name': name, 'async': is_async, 'decos': list(decos),
            'params': [dict({'ann': None, 'default': None, 'nl': None}, **p) for p in params],
            'bases': bases, 'ret': ret, 'oneline': oneline, 'body': body}

"""C15 inheritance scaling: measures one family of class hierarchies in a process of its own.

Run as a script:  python c15_inherit_child.py '<json config>'
  config = {repo, family, sizes, ratio, item_slack, call_slack, cpu_slack, cpu_abs, cpu_attempts}
For every size n (ascending) and every query of gen.c15_programs.inherit_queries it prints one JSON
line {"ev": "start", ...} before and one {"ev": "done", ...} after the query with
  items     elements drawn from all ClassMixin.py__mro__() iterators during the query
  listings  number of py__mro__() iterators created
  maxlen    longest single listing
  entries   entries of the body wrapped by _limit_value_infers (same counter as stream e2e)
  calls     Python-level and C-level calls during the query (sys.setprofile; separate run)
  cpu       time.process_time() of the query (run without the profile hook)
  outcome   ok | raised | RecursionError | items-cap | calls-cap | cpu-cap
The query for size n is cut off (items-cap / calls-cap / cpu-cap) as soon as it exceeds
ratio * <measure at n/2> + slack - i.e. exactly when the doubling check of the parent would fail -
so an exponential family is reported after milliseconds instead of after the watchdog.  The
family stops at the first cut-off.  Also importable: MroCounter is used in-process by stream mro."""
import json
import os
import signal
import sys
import time


class WorkCap(BaseException):
    """more MRO entries drawn than the doubling bound allows"""


class CpuCap(BaseException):
    """more CPU time used than the doubling bound allows"""


class MroCounter:
    """wraps ClassMixin.py__mro__ (the memoised generator function) so that every element handed to
    any consumer - get_filters, the py__mro__ body of a subclass, ... - is counted"""

    def __init__(self):
        self.items = self.listings = self.maxlen = 0
        self.cap = None

    def reset(self, cap=None):
        self.items = self.listings = self.maxlen = 0
        self.cap = cap

    def __enter__(self):
        from jedi.inference.value import klass
        self.klass = klass
        try:
            self.orig = klass.ClassMixin.__dict__['py__mro__']
        except (AttributeError, KeyError):
            raise LookupError('jedi.inference.value.klass.ClassMixin has no py__mro__')
        orig = self.orig
        me = self

        def py__mro__(self_, *a, **k):
            me.listings += 1
            n = 0
            for x in orig(self_, *a, **k):
                me.items += 1
                n += 1
                if n > me.maxlen:
                    me.maxlen = n
                if me.cap is not None and me.items > me.cap:
                    raise WorkCap()
                yield x
        klass.ClassMixin.py__mro__ = py__mro__
        return self

    def __exit__(self, *a):
        self.klass.ClassMixin.py__mro__ = self.orig


class CallCounter:
    """counts `call` and `c_call` events of sys.setprofile: a load-independent measure of the work of
    a query (every Python function entered, every builtin called)"""

    def __init__(self):
        self.n = 0
        self.cap = None

    def _hook(self, frame, event, arg):
        if event == 'call' or event == 'c_call':
            self.n += 1
            if self.cap is not None and self.n > self.cap:
                sys.setprofile(None)
                raise WorkCap('calls')

    def start(self, cap):
        self.n = 0
        self.cap = cap
        sys.setprofile(self._hook)

    def stop(self):
        sys.setprofile(None)


def emit(d):
    sys.stdout.write(json.dumps(d) + '\n')
    sys.stdout.flush()


def main():
    cfg = json.loads(sys.argv[1])
    here = os.path.dirname(os.path.abspath(__file__))
    sys.path.insert(0, os.path.dirname(here))
    sys.path.insert(0, cfg['repo'])
    sys.setrecursionlimit(3000)
    import jedi
    from gen import c15_programs as P
    try:
        from props.c15 import InferCounter
        infer_counter = InferCounter()
        infer_counter.__enter__()
    except BaseException as e:      # the hook of stream e2e reports a broken hook itself
        infer_counter = None
        emit({'ev': 'note', 'note': 'no _infer_node counter: %r' % (e,)})
    try:
        counter = MroCounter().__enter__()
    except LookupError as e:
        emit({'ev': 'hook-missing', 'detail': str(e)})
        return 0

    def on_prof(signum, frame):
        raise CpuCap()
    signal.signal(signal.SIGPROF, on_prof)
    calls = CallCounter()

    def one_run(text, q, line, col, item_cap, cpu_cap, call_cap):
        """one fresh Script, one query; call_cap is not None = count Python/C calls (profile hook)"""
        counter.reset(item_cap)
        if infer_counter is not None:
            infer_counter.reset()
        outcome, names, err = 'ok', [], None
        t0 = time.process_time()
        signal.setitimer(signal.ITIMER_PROF, cpu_cap + 0.05)
        try:
            try:
                if call_cap is not None:
                    calls.start(call_cap if call_cap > 0 else None)
                r = getattr(jedi.Script(text), q)(line, col)
                names = [d.name for d in r]
            finally:
                calls.stop()
                signal.setitimer(signal.ITIMER_PROF, 0)
        except WorkCap as e:
            outcome = 'calls-cap' if e.args == ('calls',) else 'items-cap'
        except CpuCap:
            outcome = 'cpu-cap'
        except RecursionError as e:
            outcome, err = 'RecursionError', repr(e)[:200]
        except Exception as e:
            outcome, err = 'raised', '%s: %s' % (type(e).__name__, str(e)[:200])
        return outcome, names, err, time.process_time() - t0

    # warm-up: lazy imports and caches of the first query are not part of any measurement
    try:
        jedi.Script("class W:\n    def m(self): return self\nW().").complete(3, 4)
    except Exception:
        pass
    mk = P.INHERIT_FAMILIES[cfg['family']]
    ratio = cfg['ratio']
    prev = {}
    for n in cfg['sizes']:
        src, nclasses, attr = mk(n)
        for q, text, line, col in P.inherit_queries(src, attr):
            half = prev.get((n // 2, q)) if n % 2 == 0 else None
            if half and n < 8:
                half_caps = None            # constants dominate below n = 4
            else:
                half_caps = half
            item_cap = ratio * half['items'] + cfg['item_slack'] if half_caps else None
            call_cap = (ratio * half['calls'] + cfg['call_slack']
                        if half_caps and half.get('calls') is not None else 0)
            cpu_cap = cfg['cpu_abs']
            if half:
                cpu_cap = min(cpu_cap, ratio * half['cpu'] + cfg['cpu_slack'])
            emit({'ev': 'start', 'n': n, 'q': q, 'item_cap': item_cap, 'call_cap': call_cap or None,
                  'cpu_cap': cpu_cap})
            # pass 1 - deterministic counters: elements drawn from py__mro__ iterators, Python-level
            # and C-level calls (sys.setprofile); cut off at the doubling bound.  The CPU timer of
            # this pass is only a guard (the hook makes it slower): a cut-off by it decides nothing.
            outcome, names, err, cpu = one_run(text, q, line, col, item_cap, 4 * cfg['cpu_abs'], call_cap)
            ncalls = calls.n if outcome in ('ok', 'calls-cap') else None
            attempts = []
            if outcome not in ('items-cap', 'calls-cap'):
                # pass 2 - CPU seconds without the profile hook.  They are noisy on a loaded
                # (virtual) machine, a real blow-up is not: a CPU cut-off only counts when it repeats
                # on every attempt
                for attempt in range(cfg.get('cpu_attempts', 3)):
                    outcome, names, err, cpu = one_run(text, q, line, col, item_cap, cpu_cap, None)
                    attempts.append(round(cpu, 3))
                    if outcome != 'cpu-cap':
                        break
                    emit({'ev': 'note', 'note': 'cpu cut-off at n=%d %s, attempt %d' % (n, q, attempt + 1)})
                cpu = min(attempts) if outcome == 'cpu-cap' else cpu
            row = {'ev': 'done', 'n': n, 'q': q, 'classes': nclasses, 'items': counter.items,
                   'listings': counter.listings, 'maxlen': counter.maxlen,
                   'entries': infer_counter.total if infer_counter is not None else None,
                   'calls': ncalls, 'cpu': round(cpu, 4), 'cpu_attempts': attempts, 'outcome': outcome,
                   'results': len(names), 'names': sorted(names)[:4], 'error': err, 'item_cap': item_cap,
                   'call_cap': call_cap or None, 'cpu_cap': cpu_cap, 'line': line, 'column': col}
            emit(row)
            prev[(n, q)] = row
            if outcome in ('items-cap', 'calls-cap', 'cpu-cap'):
                emit({'ev': 'stopped', 'n': n, 'q': q})
                return 0
    emit({'ev': 'end'})
    return 0


if __name__ == '__main__':
    sys.exit(main())

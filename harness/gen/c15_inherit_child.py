"""C15 inheritance scaling: measures one family of class hierarchies in a process of its own.

Run as a script:  python c15_inherit_child.py '<json config>'
  config = {repo, family, sizes, ratio, item_slack, cpu_slack, cpu_abs}
For every size n (ascending) and every query of gen.c15_programs.inherit_queries it prints one JSON
line {"ev": "start", ...} before and one {"ev": "done", ...} after the query with
  items     elements drawn from all ClassMixin.py__mro__() iterators during the query
  listings  number of py__mro__() iterators created
  maxlen    longest single listing
  entries   entries of the body wrapped by _limit_value_infers (same counter as stream e2e)
  cpu       time.process_time() of the query
  outcome   ok | raised | RecursionError | items-cap | cpu-cap
The query for size n is cut off (items-cap / cpu-cap) as soon as it exceeds
ratio * <measure at n/2> + slack - i.e. exactly when the doubling check of the parent would fail -
so an exponential family is reported after milliseconds instead of after the watchdog.  The
family stops at the first cut-off.  Also importable: MroCounter is used in-process by stream mro."""
import json
import os
import signal
import sys
import time


class WorkCap(BaseException):
    """more MRO entries drawn than the doubling bound allows"""


class CpuCap(BaseException):
    """more CPU time used than the doubling bound allows"""


class MroCounter:
    """wraps ClassMixin.py__mro__ (the memoised generator function) so that every element handed to
    any consumer - get_filters, the py__mro__ body of a subclass, ... - is counted"""

    def __init__(self):
        self.items = self.listings = self.maxlen = 0
        self.cap = None

    def reset(self, cap=None):
        self.items = self.listings = self.maxlen = 0
        self.cap = cap

    def __enter__(self):
        from jedi.inference.value import klass
        self.klass = klass
        try:
            self.orig = klass.ClassMixin.__dict__['py__mro__']
        except (AttributeError, KeyError):
            raise LookupError('jedi.inference.value.klass.ClassMixin has no py__mro__')
        orig = self.orig
        me = self

        def py__mro__(self_, *a, **k):
            me.listings += 1
            n = 0
            for x in orig(self_, *a, **k):
                me.items += 1
                n += 1
                if n > me.maxlen:
                    me.maxlen = n
                if me.cap is not None and me.items > me.cap:
                    raise WorkCap()
                yield x
        klass.ClassMixin.py__mro__ = py__mro__
        return self

    def __exit__(self, *a):
        self.klass.ClassMixin.py__mro__ = self.orig


def emit(d):
    sys.stdout.write(json.dumps(d) + '\n')
    sys.stdout.flush()


def main():
    cfg = json.loads(sys.argv[1])
    here = os.path.dirname(os.path.abspath(__file__))
    sys.path.insert(0, os.path.dirname(here))
    sys.path.insert(0, cfg['repo'])
    sys.setrecursionlimit(3000)
    import jedi
    from gen import c15_programs as P
    try:
        from props.c15 import InferCounter
        infer_counter = InferCounter()
        infer_counter.__enter__()
    except BaseException as e:      # the hook of stream e2e reports a broken hook itself
        infer_counter = None
        emit({'ev': 'note', 'note': 'no _infer_node counter: %r' % (e,)})
    try:
        counter = MroCounter().__enter__()
    except LookupError as e:
        emit({'ev': 'hook-missing', 'detail': str(e)})
        return 0

    def on_prof(signum, frame):
        raise CpuCap()
    signal.signal(signal.SIGPROF, on_prof)
    mk = P.INHERIT_FAMILIES[cfg['family']]
    ratio = cfg['ratio']
    prev = {}
    for n in cfg['sizes']:
        src, nclasses, attr = mk(n)
        for q, text, line, col in P.inherit_queries(src, attr):
            half = prev.get((n // 2, q)) if n % 2 == 0 else None
            item_cap = ratio * half['items'] + cfg['item_slack'] if half and n >= 8 else None
            cpu_cap = cfg['cpu_abs']
            if half:
                cpu_cap = min(cpu_cap, ratio * half['cpu'] + cfg['cpu_slack'])
            emit({'ev': 'start', 'n': n, 'q': q, 'item_cap': item_cap, 'cpu_cap': cpu_cap})
            # CPU seconds are noisy on a loaded (virtual) machine, a real blow-up is not: a CPU
            # cut-off only counts when it repeats on every attempt; the counters are deterministic
            attempts = []
            for attempt in range(cfg.get('cpu_attempts', 3)):
                counter.reset(item_cap)
                if infer_counter is not None:
                    infer_counter.reset()
                outcome, names, err = 'ok', [], None
                t0 = time.process_time()
                signal.setitimer(signal.ITIMER_PROF, cpu_cap + 0.05)
                try:
                    try:
                        r = getattr(jedi.Script(text), q)(line, col)
                        names = [d.name for d in r]
                    finally:
                        signal.setitimer(signal.ITIMER_PROF, 0)
                except WorkCap:
                    outcome = 'items-cap'
                except CpuCap:
                    outcome = 'cpu-cap'
                except RecursionError as e:
                    outcome, err = 'RecursionError', repr(e)[:200]
                except Exception as e:
                    outcome, err = 'raised', '%s: %s' % (type(e).__name__, str(e)[:200])
                cpu = time.process_time() - t0
                attempts.append(round(cpu, 3))
                if outcome != 'cpu-cap':
                    break
                emit({'ev': 'note', 'note': 'cpu cut-off at n=%d %s, attempt %d' % (n, q, attempt + 1)})
            cpu = min(attempts) if outcome == 'cpu-cap' else cpu
            row = {'ev': 'done', 'n': n, 'q': q, 'classes': nclasses, 'items': counter.items,
                   'listings': counter.listings, 'maxlen': counter.maxlen,
                   'entries': infer_counter.total if infer_counter is not None else None,
                   'cpu': round(cpu, 4), 'cpu_attempts': attempts, 'outcome': outcome, 'results': len(names),
                   'names': sorted(names)[:4], 'error': err, 'item_cap': item_cap, 'cpu_cap': cpu_cap,
                   'line': line, 'column': col}
            emit(row)
            prev[(n, q)] = row
            if outcome in ('items-cap', 'cpu-cap'):
                emit({'ev': 'stopped', 'n': n, 'q': q})
                return 0
    emit({'ev': 'end'})
    return 0


if __name__ == '__main__':
    sys.exit(main())

"""Statement-range extract_function on function bodies with control flow (C06, stream `flow`).

Three independent parts, none of which looks at jedi's sources or at the Lean model:

* `selections(src)`        every run of 1..4 whole sibling statements of every suite of every function
                           (the function body and every nested block), as an explicit range
                           (line, column) .. (first line after the run, 0); every run carries what it contains
                           (`kinds`, `inside`) and `closure`: does it bind a name that a nested def / lambda of a
                           LATER sibling reads from its body ('only': no other read behind the run; 'also'; None) -
                           `pick_selections` draws such runs with more weight;
* `Runner`                 executes the entry function of the old and the new program on argument tuples and
                           records which lines of the selection each tuple executed (the oracle of c06.py
                           draws tuples until every line of the selection was executed);
* `flow_shape(...)`        the root-cause classification of a failure, used ONLY to key known findings: a
                           liveness analysis of the INPUT program (python `ast`, structured backward data
                           flow with loops, break / continue, try) says which names a correct extraction has to
                           pass in / hand back; every root cause is an explicit rule *for the name the failure
                           is about* (read off the UnboundLocalError / NameError message and the function
                           that raised), so a missing parameter with any other cause stays `unclassified` =
                           a VIOLATION.

Root causes (all reproduced by hand on the unchanged jedi, see known_findings.d/C06.json):

Not judged (not a pure selection): argument tuples on which an exception leaves the selection (raised in it, handled
by a `try` around it): the bindings made before the exception are observable in the handler, no function
call can keep them.

  extract-function-self-referencing-assignment      `acc = acc + i`, `a, b = b, a`, `v += v`: the read is looked
        up at its own position (`context.goto(name, name.start_pos)`), where the target of the same
        statement is already visible, so the value from before the selection is not a parameter
  extract-function-augmented-assignment-target      `acc += i`: the target of an augmented assignment is a
        definition for parso (`is_definition()`), it is never looked at as a read
  extract-function-conditional-rebind               `if c: b = 10` with `b` used afterwards: a name that is
        (re)bound only on some paths through the selection and not read in it is returned but not passed in
  extract-function-output-used-outside-own-suite    the selection is inside a nested block / loop body and a
        name it binds is used only after the enclosing statement (or in the next iteration):
        `_find_needed_output_variables` searches the following siblings of the selection only
  extract-function-for-body-assumed-executed        `for i in t: b = i` then `r = b` (both selected): jedi's flow
        analysis treats the body of a for loop as executed (and ignores break / continue), the lookup of
        `b` stops at the binding in the loop, the value from before the selection is not a parameter
  extract-function-returns-unneeded-name            no name bound by the selection is used afterwards: the last
        bound name is returned nevertheless; when it is bound on some paths only the `return` fails
  extract-function-unreachable-branch-name-becomes-parameter   the selection contains `if p >= 0: .. else: ..`
        whose condition jedi's flow analysis decides statically from a partial inference of `p`; names bound
        in the `unreachable` branch have no definition for goto, `not name_definitions` makes them
        parameters, the call site reads a name that only the selection binds
  extract-function-nested-try-clause-binding-assumed   a try statement nested in another flow statement: a
        read in one clause (except / finally) is resolved to a binding in another clause of the same try
        statement (try body, except) as if that had certainly happened (flow_analysis.reachability_check:
        `branch_matches` of the try is overwritten by that of the enclosing flow statement), the value
        from before the selection is not a parameter
  extract-function-nested-loop-else-binding-assumed   the same blind spot for a `while` loop with an `else` clause that
        is nested in another flow statement: a read in the else clause is resolved to a binding made directly in the
        loop body as if the body had certainly run to that binding (`continue` / zero iterations ignored)
  extract-function-single-return-statement          the selection is exactly one `return x` line including its line
        break: _find_nodes takes `children[1]` of the simple_stmt (the newline) for the returned expression
  extract-function-no-output-variable               the selection binds no name and does not end in `return`:
        `return ` / ` = extracted()` (SyntaxError)
  extract-function-nested-scope-name                the selection contains a lambda / local def / comprehension /
        local class: the names of that nested scope (its parameters, its variables) are looked up in the scope of
        the enclosing function, found nowhere and made parameters (and outputs) of the new function; the call
        site reads a name that does not exist (NameError)
  extract-function-break-continue-leaves-selection  `break` / `continue` whose loop is outside the selection
        is moved into the new function (SyntaxError)
"""
import ast
import re
import sys
import traceback


# ------------------------------------------------------------------ selections

def selections(src, max_run=4):
    """[dict(start, until, func, kinds, depth, n, ends_return, closure)] for every run of whole sibling statements"""
    import parso
    mod = parso.parse(src)
    out = []

    def stmts_of(suite):
        return [c for c in suite.children if c.type not in ('newline', 'indent', 'dedent')]

    def kind(st):
        if st.type == 'simple_stmt':
            c = st.children[0]
            if c.type == 'expr_stmt':
                op = c.children[1]
                if op.type == 'operator' and op.value != '=':
                    return 'aug'
                return 'assign'
            if c.type == 'return_stmt':
                return 'return'
            if c.type == 'keyword':
                return c.value
            return 'expr'
        return st.type.replace('_stmt', '')

    def inside_words(stmts):
        """which jump / scope keywords occur anywhere in the run (at any nesting depth), in text order, and
        `loop` for every nested for / while: the part of the domain `_check_for_non_extractables` decides on"""
        found = []
        leaf = stmts[0].get_first_leaf()
        end = stmts[-1].end_pos
        while leaf is not None and leaf.start_pos < end:
            if leaf.type == 'keyword' and leaf.value in ('break', 'continue', 'return', 'yield', 'for', 'while',
                                                         'def', 'class', 'lambda'):
                w = 'loop' if leaf.value in ('for', 'while') else leaf.value
                if len(found) < 12:
                    found.append(w)
            leaf = leaf.get_next_leaf()
        return found

    def name_leaves(node, in_scope_body, out):
        """(value, is_definition, inside the body of a nested def / lambda) of every name leaf"""
        ch = getattr(node, 'children', None)
        if ch is None:
            if node.type == 'name':
                out.append((node.value, node.is_definition(), in_scope_body))
            return
        if node.type == 'trailer' and ch[0] == '.':
            return
        for k, c in enumerate(ch):
            name_leaves(c, in_scope_body or (node.type in ('funcdef', 'lambdef') and k == len(ch) - 1), out)

    def closure_feed(run, later):
        """does the run bind a name that a nested def / lambda of a LATER sibling reads from its body (a free
        variable of a closure)?  'only': some such name has no other read behind the run; 'also'; None"""
        bound = []
        for st in run:
            name_leaves(st, False, bound)
        bound = {v for v, d, inner in bound if d and not inner}
        uses = []
        for st in later:
            name_leaves(st, False, uses)
        inner = {v for v, d, i in uses if not d and i} & bound
        if not inner:
            return None
        direct = {v for v, d, i in uses if not d and not i}
        return 'only' if inner - direct else 'also'

    def suites(node, depth, func):
        for c in getattr(node, 'children', []):
            if c.type == 'suite':
                ss = stmts_of(c)
                for i in range(len(ss)):
                    for j in range(i, min(i + max_run, len(ss))):
                        ks = [kind(s) for s in ss[i:j + 1]]
                        if 'return' in ks[:-1]:
                            continue
                        nxt = ss[j].get_last_leaf().get_next_leaf()
                        if nxt is None or nxt.start_pos <= ss[j].end_pos:
                            # the next leaf starts at the until position (column 0 / end of file): that is
                            # the known root cause `extract-function-until-next-line-start` of the text streams
                            continue
                        out.append({'start': list(ss[i].start_pos), 'until': list(ss[j].end_pos), 'func': func,
                                    'kinds': ks, 'depth': depth, 'n': j - i + 1,
                                    'inside': inside_words(ss[i:j + 1]),
                                    'ends_return': ks[-1] == 'return',
                                    'closure': closure_feed(ss[i:j + 1], ss[j + 1:]),
                                    'last': j == len(ss) - 1})
                suites(c, depth + 1, func)
            elif c.type in ('funcdef', 'classdef'):
                pass
            else:
                suites(c, depth, func)

    def funcs(node):
        for c in getattr(node, 'children', []):
            if c.type == 'funcdef':
                suites(c, 0, c.name.value)
            if c.type in ('classdef', 'suite', 'decorated', 'funcdef'):
                funcs(c)
    funcs(mod)
    return out


# ------------------------------------------------------------------ running entry functions

class _Lines(set):
    def __init__(self, *a):
        super().__init__(*a)
        self.raised = []


def exception_leaves(lines, sel):
    """did an exception that surfaced inside the selection continue outside of it (handler or caller)?"""
    first, last = sel['start'][0], sel['until'][0] - 1
    for at, nxt in getattr(lines, 'raised', []):
        if first <= at <= last and not (nxt is not None and first <= nxt <= last):
            return True
    return False


class _Budget(BaseException):
    pass


LINE_BUDGET = 20000
BIT_BUDGET = 10000000


class Runner:
    """executes `entry(*args)` of a program; outcome = ['ok', repr(value)] | ['exc', class, message, function
    that raised, line]; `lines` = the line numbers of `func` (a def name) that were executed"""

    def __init__(self, src):
        self.error = None
        self.g = {'__name__': '__flow__'}
        try:
            self.code = compile(src, '<flow>', 'exec')
            exec(self.code, self.g)
        except BaseException as e:      # noqa: the program is generated, anything here is reported
            self.error = '%s: %s' % (type(e).__name__, e)

    def call(self, entry, args_text, trace_func=None):
        """-> (outcome, lines): `lines` is a set subclass with attribute `raised` = [(line where an exception
        surfaced in `trace_func`, line executed next in that frame or None when it left the function)]"""
        lines = _Lines()
        tracer = None
        if trace_func is not None:
            pending = [None]

            def local(frame, event, arg):
                if event == 'line':
                    lines.add(frame.f_lineno)
                    if pending[0] is not None:
                        lines.raised.append((pending[0], frame.f_lineno))
                        pending[0] = None
                elif event == 'exception':
                    if pending[0] is None:
                        pending[0] = frame.f_lineno
                elif event == 'return' and pending[0] is not None:
                    lines.raised.append((pending[0], None))
                    pending[0] = None
                return local

            def tracer(frame, event, arg):
                if frame.f_code.co_filename == '<flow>' and frame.f_code.co_name == trace_func:
                    lines.add(frame.f_lineno)
                    return local
                return None
        if tracer is None:
            # a refactored program may loop for ever (a loop counter that is not handed back): line budget
            left = [LINE_BUDGET]

            def blocal(frame, event, arg):
                if event == 'line':
                    left[0] -= 1
                    if left[0] < 0:
                        raise _Budget()
                    # a loop that does not end may square a number in every round: stop before the arithmetic
                    # takes minutes (no generated original comes near this size)
                    if left[0] % 8 == 0:
                        for v in frame.f_locals.values():
                            if type(v) is int and v.bit_length() > BIT_BUDGET:
                                raise _Budget()
                return blocal

            def tracer(frame, event, arg):
                return blocal if frame.f_code.co_filename == '<flow>' else None
        old = sys.gettrace()
        try:
            fn = eval(entry, self.g)
            args = ast.literal_eval(args_text)
            sys.settrace(tracer)
            try:
                v = fn(*args)
            finally:
                sys.settrace(old)
            return ['ok', repr(v)], lines
        except RecursionError:
            return ['exc', 'RecursionError', '', '', 0], lines
        except _Budget:
            return ['exc', 'Budget', 'more than %d lines executed or an int of more than %d bits'
                    % (LINE_BUDGET, BIT_BUDGET), '', 0], lines
        except Exception as e:
            tb = traceback.extract_tb(e.__traceback__)
            where = tb[-1].name if tb else ''
            return ['exc', type(e).__name__, str(e), where, tb[-1].lineno if tb else 0], lines


def selection_lines(src, sel):
    """line numbers of the selection that carry code (python's own line table of the compiled function)"""
    first, last = sel['start'][0], sel['until'][0] - 1
    try:
        tree = ast.parse(src)
    except SyntaxError:
        return set()
    out = set()
    for n in ast.walk(tree):
        if isinstance(n, ast.stmt) and first <= n.lineno <= last:
            if isinstance(n, ast.Try):
                continue            # `try:` has no line event of its own
            out.add(n.lineno)
    # `else:` lines of if / for / try never produce a line event, statement heads do
    return out


# ------------------------------------------------------------------ liveness of the input program

def _loads(node):
    return {n.id for n in ast.walk(node) if isinstance(n, ast.Name) and isinstance(n.ctx, ast.Load)}


def _stores(node):
    return {n.id for n in ast.walk(node) if isinstance(n, ast.Name) and isinstance(n.ctx, ast.Store)}


class Live:
    """backward liveness over structured statements.  variant flags (what jedi's analysis does not see):
    'aug'      the target of an augmented assignment is not a read
    'selfref'  a read in a statement (right-hand side of an assignment, iterable of a for) of a name that the
               same statement binds is not a read
    'forbody'  the body of a for loop is executed at least once and to its end (break / continue fall through)
    'tryhandler'  in a try statement that is nested in another flow statement, the handlers run after the whole
               try body (names bound in the body are bound in the handlers)"""

    def __init__(self, variant=()):
        self.aug = 'aug' in variant
        self.selfref = 'selfref' in variant
        self.forbody = 'forbody' in variant
        self.tryhandler = 'tryhandler' in variant
        self.nested = 0             # > 0: inside another flow statement (if / for / while / try) of the function
        self.mark = None            # statement whose `out` set is recorded (true analysis of a whole function)
        self.recorded = None

    def block(self, stmts, out, brk, cont, exc):
        cur = set(out)
        for s in reversed(stmts):
            if s is self.mark:
                r = self.recorded
                if r is None:
                    self.recorded = {'out': set(cur), 'brk': set(brk), 'cont': set(cont), 'exc': set(exc)}
                else:
                    r['out'] |= cur
                    r['brk'] |= brk
                    r['cont'] |= cont
                    r['exc'] |= exc
            cur = self.stmt(s, cur, brk, cont, exc)
        return cur

    def stmt(self, s, out, brk, cont, exc):
        if isinstance(s, (ast.If, ast.For, ast.While, ast.Try)):
            self.nested += 1
            try:
                return self.compound(s, out, brk, cont, exc)
            finally:
                self.nested -= 1
        return self.simple(s, out, brk, cont, exc)

    def simple(self, s, out, brk, cont, exc):
        if isinstance(s, ast.Assign):
            w = set()
            for t in s.targets:
                w |= _stores(t)
            r = _loads(s.value)
            for t in s.targets:
                r |= _loads(t)
            if self.selfref:
                r -= w
            return r | (out - w) | exc
        if isinstance(s, ast.AugAssign):
            w = _stores(s.target)
            r = _loads(s.value) | _loads(s.target)
            if self.selfref:
                r -= w
            if not self.aug:
                r |= w
            return r | (out - w) | exc
        if isinstance(s, ast.AnnAssign):
            w = _stores(s.target) if s.value is not None else set()
            r = _loads(s.value) if s.value is not None else set()
            if self.selfref:
                r -= w
            return r | (out - w) | exc
        if isinstance(s, ast.Expr):
            return _loads(s.value) | out | exc
        if isinstance(s, ast.Pass):
            return out | exc
        if isinstance(s, ast.Return):
            return (_loads(s.value) if s.value is not None else set()) | exc
        if isinstance(s, ast.Break):
            return (set(out) if self.forbody else set(brk)) | exc
        if isinstance(s, ast.Continue):
            return (set(out) if self.forbody else set(cont)) | exc
        # anything else (with, nested def, class, global, del, ...): every name it mentions is live
        return _loads(s) | out | exc

    def compound(self, s, out, brk, cont, exc):
        if isinstance(s, ast.If):
            return _loads(s.test) | self.block(s.body, out, brk, cont, exc) \
                | self.block(s.orelse, out, brk, cont, exc) | exc
        if isinstance(s, ast.For):
            tgt = _stores(s.target)
            done = self.block(s.orelse, out, brk, cont, exc)
            head = set(done)
            while True:
                body_in = self.block(s.body, head, out, head, exc)
                new = (body_in - tgt) | done
                if new <= head:
                    break
                head |= new
            r = _loads(s.iter)
            if self.selfref:
                r -= tgt
            if self.forbody:
                return r | (self.block(s.body, head, out, head, exc) - tgt) | exc
            return r | head | exc
        if isinstance(s, ast.While):
            done = self.block(s.orelse, out, brk, cont, exc)
            head = set(done) | _loads(s.test)
            while True:
                body_in = self.block(s.body, head, out, head, exc)
                new = body_in | done | _loads(s.test)
                if new <= head:
                    break
                head |= new
            return head | exc
        if isinstance(s, ast.Try):
            def fin(o):
                return self.block(s.finalbody, o, brk, cont, exc) if s.finalbody else set(o)
            after = fin(out)
            else_in = self.block(s.orelse, after, fin(brk), fin(cont), exc) if s.orelse else after
            hin = set()
            for h in s.handlers:
                hin |= self.block(h.body, after, fin(brk), fin(cont), exc)
                if h.type is not None:
                    hin |= _loads(h.type)
            if self.tryhandler and self.nested > 1:
                return self.block(s.body, else_in | hin, fin(brk), fin(cont), exc) | exc
            inner_exc = exc | hin | (fin(exc) if s.finalbody else set())
            body_in = self.block(s.body, else_in, fin(brk), fin(cont), inner_exc)
            return body_in | hin | exc
        raise AssertionError(s)


class Unbound:
    """forward analysis for ONE name over the statements of the selection: may the name still be unbound (= hold
    the value from before the selection) when a statement starts?  `at[id(stmt)]` is the answer per statement.
    Variant flags as for `Live` ('forbody', 'tryhandler'): the paths jedi's flow analysis does not consider."""

    def __init__(self, name, variant=(), nested=0):
        self.name = name
        self.forbody = 'forbody' in variant
        self.tryhandler = 'tryhandler' in variant
        self.loopelse = 'loopelse' in variant
        self.variant = tuple(variant)
        self.nested = nested
        self.at = {}

    def binds(self, node):
        return self.name in _stores(node)

    def block(self, stmts, state, jumps):
        """state: may be unbound at the start; jumps: dict(brk=[...], cont=[...]) collecting the states at
        break / continue; returns the state at the end (None = the end is not reached)"""
        for s in stmts:
            if state is None:
                break
            self.at[id(s)] = self.at.get(id(s), False) or state
            state = self.stmt(s, state, jumps)
        return state

    @staticmethod
    def join(*states):
        live = [x for x in states if x is not None]
        return any(live) if live else None

    def stmt(self, s, state, jumps):
        if isinstance(s, (ast.Assign, ast.AugAssign, ast.AnnAssign)):
            if isinstance(s, ast.AnnAssign) and s.value is None:
                return state
            return False if self.binds(s) else state
        if isinstance(s, (ast.FunctionDef, ast.ClassDef)):
            return False if s.name == self.name else state
        if isinstance(s, ast.Return):
            return None
        if isinstance(s, ast.Break):
            if self.forbody:
                return state
            jumps['brk'].append(state)
            return None
        if isinstance(s, ast.Continue):
            if self.forbody:
                return state
            jumps['cont'].append(state)
            return None
        if isinstance(s, (ast.If, ast.For, ast.While, ast.Try)):
            self.nested += 1
            try:
                return self.compound(s, state, jumps)
            finally:
                self.nested -= 1
        return state

    def compound(self, s, state, jumps):
        if isinstance(s, ast.If):
            return self.join(self.block(s.body, state, jumps), self.block(s.orelse, state, jumps))
        if isinstance(s, (ast.For, ast.While)):
            bound_by_target = isinstance(s, ast.For) and self.binds(s.target)
            head = state
            for _ in range(3):
                inner = {'brk': [], 'cont': []}
                body_out = self.block(s.body, False if bound_by_target else head, inner)
                new_head = self.join(head, body_out, *inner['cont'])
                if new_head == head:
                    break
                head = new_head
            if self.forbody and isinstance(s, ast.For):
                done = body_out         # the body ran, to its end
                return self.join(self.block(s.orelse, done, jumps) if done is not None else None)
            if self.loopelse and self.nested > 1 and s.orelse and any(
                    isinstance(x, (ast.Assign, ast.AugAssign, ast.AnnAssign)) and self.binds(x) for x in s.body):
                # a loop nested in another flow statement: for the reads of its else clause a binding made directly
                # in the loop body counts as having happened; the state behind the statement stays the real one
                self.block(s.orelse, False, {'brk': [], 'cont': []})
                real = Unbound(self.name, self.variant, self.nested)
                done = real.block(s.orelse, head, jumps)
                return self.join(done, *inner['brk'])
            done = self.block(s.orelse, head, jumps)
            return self.join(done, *inner['brk'])
        if isinstance(s, ast.Try):
            body_out = self.block(s.body, state, jumps)
            blind = self.tryhandler and self.nested > 1
            if blind:
                handler_in = body_out if body_out is not None else state
            else:
                handler_in = state      # the exception may come before anything of the body was bound
            outs = [self.block(s.orelse, body_out, jumps) if body_out is not None else None]
            for h in s.handlers:
                outs.append(self.block(h.body, handler_in, jumps))
            out = self.join(*outs)
            if s.finalbody:
                fin_in = out if out is not None else state
                if not blind:
                    return self.block(s.finalbody, fin_in, jumps)
                # a binding in any clause counts as having happened for the reads of the finally clause; the
                # state behind the statement stays that of the real join
                live = [x for x in outs if x is not None]
                self.block(s.finalbody, all(live) if live else state, jumps)
                return False if any(self.binds(x) for x in s.finalbody) else fin_in
            return out
        raise AssertionError(s)


def _own_scope_stores(stmts):
    """names bound by these statements in the scope they belong to (not in a scope nested in them)"""
    out = set()

    def rec(n):
        if isinstance(n, (ast.FunctionDef, ast.AsyncFunctionDef, ast.ClassDef)):
            out.add(n.name)
            return
        if isinstance(n, (ast.Lambda, ast.ListComp, ast.SetComp, ast.DictComp, ast.GeneratorExp)):
            return
        if isinstance(n, ast.Name) and isinstance(n.ctx, ast.Store):
            out.add(n.id)
        for c in ast.iter_child_nodes(n):
            rec(c)
    for s_ in stmts:
        rec(s_)
    return out


def _find_run(fn, first, last):
    """(block, i, j): the sibling statements of `fn` that occupy lines first..last"""
    def rec(stmts):
        for i, s in enumerate(stmts):
            if s.lineno == first:
                for j in range(i, len(stmts)):
                    if stmts[j].end_lineno == last:
                        return stmts, i, j
                return None
            if s.lineno < first <= s.end_lineno:
                for name in ('body', 'orelse', 'finalbody'):
                    r = rec(getattr(s, name, []) or [])
                    if r:
                        return r
                for h in getattr(s, 'handlers', []) or []:
                    r = rec(h.body)
                    if r:
                        return r
        return None
    return rec(fn.body)


def analyse(src, request):
    """facts about the selection of a statement-range request, or None when it is not one"""
    try:
        tree = ast.parse(src)
    except SyntaxError:
        return None
    if request.get('until_line') is None:
        return None
    first = request['line']
    last = request['until_line'] - 1 if request.get('until_column', 0) == 0 or True else request['until_line']
    best = None
    for n in ast.walk(tree):
        if isinstance(n, (ast.FunctionDef, ast.AsyncFunctionDef)) and n.lineno < first <= n.end_lineno:
            if best is None or n.lineno > best.lineno:
                best = n
    if best is None:
        return None
    run = _find_run(best, first, last)
    if run is None:
        return None
    stmts, i, j = run
    sel = stmts[i:j + 1]
    true = Live()
    true.mark = sel[-1]
    true.block(best.body, set(), set(), set(), set())
    rec = true.recorded or {'out': set(), 'brk': set(), 'cont': set(), 'exc': set()}
    written = set()
    for s in sel:
        written |= _stores(s)
    mentioned = set(written)
    for s in sel:
        mentioned |= _loads(s)
    local = {a.arg for a in best.args.args + best.args.kwonlyargs + best.args.posonlyargs} | _stores(best)
    facts = {'written': written, 'out': rec['out'], 'local': local, 'func': best.name}
    facts['reads'] = Live().block(sel, set(), set(), set(), set()) & local
    facts['sel'] = sel
    facts['sel_nested'] = 1 if stmts is not best.body else 0
    facts['n'] = len(sel)
    facts['first'] = first
    facts['last'] = last
    facts['thru'] = Live().block(sel, rec['out'], rec['brk'], rec['cont'], rec['exc']) & mentioned & local
    # what jedi's textual criterion finds: a non-definition occurrence in a following sibling
    later = set()
    for s in stmts[j + 1:]:
        later |= _loads(s)
    facts['later_sibling_uses'] = later
    facts['needed_out'] = written & rec['out']
    before = {a.arg for a in best.args.args + best.args.kwonlyargs + best.args.posonlyargs}
    for n in ast.walk(best):
        if isinstance(n, ast.Name) and isinstance(n.ctx, ast.Store) and n.lineno < first:
            before.add(n.id)
    facts['bound_before'] = before
    facts['read_in_selection'] = set()
    for s_ in sel:
        facts['read_in_selection'] |= _loads(s_)
    # break / continue whose loop is not inside the selection
    def loose(nodes, in_loop):
        for n in nodes:
            if isinstance(n, (ast.Break, ast.Continue)) and not in_loop:
                return True
            if isinstance(n, (ast.For, ast.While)):
                if loose(n.body, True) or loose(n.orelse, in_loop):
                    return True
            elif isinstance(n, (ast.FunctionDef, ast.ClassDef)):
                continue
            else:
                for name in ('body', 'orelse', 'finalbody'):
                    if loose(getattr(n, name, []) or [], in_loop):
                        return True
                for h in getattr(n, 'handlers', []) or []:
                    if loose(h.body, in_loop):
                        return True
        return False
    facts['loose_jump'] = loose(sel, False)
    # names that belong to a scope nested in the selection (parameters of a lambda / local def, targets of a
    # comprehension, names bound in a local class body or def body), and the names of the function's own scope
    nested = set()
    for top in sel:
        for n in ast.walk(top):
            if isinstance(n, (ast.Lambda, ast.FunctionDef, ast.AsyncFunctionDef)):
                a = n.args
                nested |= {x.arg for x in a.args + a.kwonlyargs + a.posonlyargs}
                nested |= {x.arg for x in (a.vararg, a.kwarg) if x is not None}
            if isinstance(n, (ast.FunctionDef, ast.AsyncFunctionDef, ast.ClassDef)):
                for b in n.body:
                    nested |= _stores(b)
            if isinstance(n, (ast.ListComp, ast.SetComp, ast.DictComp, ast.GeneratorExp)):
                for g in n.generators:
                    nested |= _stores(g.target)
    facts['nested_scope_names'] = nested
    facts['own_scope_names'] = {a.arg for a in best.args.args + best.args.kwonlyargs + best.args.posonlyargs} \
        | _own_scope_stores(best.body)
    facts['ends_return'] = isinstance(sel[-1], ast.Return)
    return facts


# the blind spots of jedi's lookup of a plain read (flow_analysis), alone and combined; a missing parameter is
# attributed to the first entry under which the name is no longer read before it is bound
VARIANTS = [('forbody',), ('tryhandler',), ('loopelse',), ('forbody', 'tryhandler'),
            ('forbody', 'tryhandler', 'loopelse')]
VARIANT_SHAPE = {'forbody': 'extract-function-for-body-assumed-executed',
                 'tryhandler': 'extract-function-nested-try-clause-binding-assumed',
                 'loopelse': 'extract-function-nested-loop-else-binding-assumed'}


def failing_statement(src, facts, new_code, lineno, new_name):
    """the statement of the INPUT that the line `lineno` of the new program was copied from (the body of the
    new function is the selection, line by line), or 'return' for the generated return, or None"""
    lines = new_code.split('\n')
    head = [i for i, l in enumerate(lines) if re.match(r'\s*def %s\(' % re.escape(new_name), l)]
    if len(head) != 1 or not lineno or lineno - 1 <= head[0]:
        return None
    text = lines[lineno - 1].strip() if lineno - 1 < len(lines) else ''
    src_line = facts['first'] + (lineno - 1 - head[0] - 1)
    src_lines = src.split('\n')
    if src_line > facts['last'] or not (0 < src_line <= len(src_lines)) or src_lines[src_line - 1].strip() != text:
        return 'return' if text.startswith('return') and not facts['ends_return'] else None
    best = None
    for top in facts['sel']:
        for n in ast.walk(top):
            if isinstance(n, ast.stmt) and n.lineno == src_line:
                best = n            # one statement per line in these programs; the last found is the innermost
    return best


_NAME_IN_MSG = re.compile(r"(?:local variable|free variable|name) '([^']+)'")


def failure_name(outcome):
    """(name, function that raised) of an UnboundLocalError / NameError outcome, else (None, where)"""
    if outcome and outcome[0] == 'exc' and outcome[1] in ('UnboundLocalError', 'NameError'):
        m = _NAME_IN_MSG.search(outcome[2])
        return (m.group(1) if m else None), outcome[3]
    return None, (outcome[3] if outcome and outcome[0] == 'exc' else '')


def flow_shape(src, request, stream, observed, new_name='extracted_1'):
    """root-cause shape of a failure of the statement-range stream, or None (no rule explains it)"""
    f = analyse(src, request)
    if f is None:
        return None
    if stream == 'oracle-compile':
        err = str((observed or {}).get('error', ''))
        if f['loose_jump'] and ('outside loop' in err or 'not properly in loop' in err):
            return 'extract-function-break-continue-leaves-selection'
        if not f['written'] and not f['ends_return'] and err:
            return 'extract-function-no-output-variable'
        if f['ends_return'] and f['n'] == 1 and err:
            return 'extract-function-single-return-statement'
        return None
    if stream != 'oracle-equiv':
        return None
    new = (observed or {}).get('new_outcome')
    name, where = failure_name(new)
    if new and new[0] == 'exc' and new[1] == 'Budget' and not f['ends_return'] \
            and (f['needed_out'] - f['later_sibling_uses']):
        # the loop around the selection does not end: a name the selection binds (the counter) is needed by
        # the next iteration and not handed back
        return 'extract-function-output-used-outside-own-suite'
    if name is not None and name in f['nested_scope_names'] and name not in f['own_scope_names']:
        # the name the new program misses is no name of the function's scope at all: it belongs to a scope
        # nested in the selection (lambda / local def parameter, comprehension variable, class body)
        return 'extract-function-nested-scope-name'
    if new and new[0] == 'exc' and name is None:
        return None                 # some other exception: no rule
    if name is not None and where == new_name:
        # the new function reads a name it does not have: which rule explains that THIS read did not make it a
        # parameter?
        st = failing_statement(src, f, (observed or {}).get('new_code') or '', new[4] if len(new) > 4 else 0,
                               new_name)
        if st == 'return':
            # the generated `return`: the name is bound on some paths through the selection only
            if name in f['written']:
                return 'extract-function-conditional-rebind' if name in f['out'] \
                    else 'extract-function-returns-unneeded-name'
            return None
        if st is None:
            return None
        # root causes that stay first (a tree with the proposed fixes applied must not attribute a failure to a
        # root cause that is gone): on which paths that jedi's flow analysis does not consider is the name still
        # unbound when this statement starts?
        true = Unbound(name, (), f['sel_nested'])
        true.block(f['sel'], True, {'brk': [], 'cont': []})
        if true.at.get(id(st)):
            for variant in VARIANTS:
                u = Unbound(name, variant, f['sel_nested'])
                u.block(f['sel'], True, {'brk': [], 'cont': []})
                if not u.at.get(id(st)):
                    return VARIANT_SHAPE[variant[0]]
        # the read itself is one that _find_inputs_and_outputs cannot see
        if isinstance(st, ast.AugAssign) and name in _stores(st.target):
            return 'extract-function-augmented-assignment-target'
        if isinstance(st, (ast.Assign, ast.AnnAssign, ast.AugAssign)) and st.value is not None \
                and name in _stores(st) and name in _loads(st.value):
            return 'extract-function-self-referencing-assignment'
        if isinstance(st, ast.For) and name in _stores(st.target) and name in _loads(st.iter):
            return 'extract-function-self-referencing-assignment'
        return None
    # the entry function itself misses a value, or computes another one: an output was not handed back
    missing = f['needed_out'] - f['later_sibling_uses']
    if f['ends_return']:
        return None
    if name is not None:
        if name in missing:
            return 'extract-function-output-used-outside-own-suite'
        if where == f['func'] and name in f['written'] and name in f['read_in_selection'] \
                and name not in f['bound_before']:
            # the call site passes a name that only the selection binds
            return 'extract-function-unreachable-branch-name-becomes-parameter'
        return None
    if new and new[0] == 'ok' and missing:
        return 'extract-function-output-used-outside-own-suite'
    return None


# ------------------------------------------------------------------ the worker (fresh interpreter, real jedi)

def _extract(src, sel, new_name='extracted_1'):
    import jedi
    from jedi.api.exceptions import RefactoringError
    try:
        ref = jedi.Script(src).extract_function(sel['start'][0], sel['start'][1], new_name=new_name,
                                                until_line=sel['until'][0], until_column=sel['until'][1])
    except (RefactoringError, ValueError) as e:
        return 'refused', str(e)
    except Exception as e:      # totality is C07's statement
        import common
        cls, site = common.exc_site(e)
        return 'raised', '%s@%s' % (cls, site)
    cfs = list(ref.get_changed_files().values())
    if len(cfs) != 1:
        return 'raised', 'changed-files=%d' % len(cfs)
    return 'ok', cfs[0].get_new_code()


def pick_selections(rng, sels, k):
    """a weighted sample without replacement: runs with compound statements and nested runs first"""
    def weight(s):
        w = 1.0
        if any(x in ('if', 'for', 'try', 'while') for x in s['kinds']):
            w += 3.0
        ins = s.get('inside', [])
        if 'break' in ins or 'continue' in ins:
            # jumps inside the run: next to / behind / inside nested loops
            w += 1.5
            if 'loop' in ins:
                w += 2.5
                first_jump = min(ins.index(x) for x in ('break', 'continue') if x in ins)
                if 'loop' in ins[:first_jump] and s['depth'] > 0:
                    w += 3.0        # a nested block whose run has a jump behind a loop
        if 'def' in ins or 'lambda' in ins or 'class' in ins:
            w += 1.0
        if s.get('closure'):
            # the run binds a free variable of a closure that is defined behind it
            w += 6.0 if s['closure'] == 'only' else 3.0
        if s['depth'] > 0:
            w += 1.0
        if s['n'] > 1:
            w += 1.0
        if s['ends_return']:
            w *= 0.4
        return w
    pool = list(sels)
    out = []
    while pool and len(out) < k:
        tot = sum(weight(s) for s in pool)
        x = rng.random() * tot
        for idx, s in enumerate(pool):
            x -= weight(s)
            if x <= 0:
                break
        out.append(pool.pop(idx))
    return out


def check_selection(src, entry, sel, arg_texts, old_runs, rng_extra=None):
    """the property on one (program, selection): -> dict(status=..., ...)
    status: refused | raised | no-compile | differs | same"""
    status, new = _extract(src, sel)
    if status != 'ok':
        return {'status': status, 'detail': new}
    try:
        compile(new, '<new>', 'exec')
    except (SyntaxError, ValueError) as e:
        return {'status': 'no-compile', 'new_code': new,
                'error': '%s: %s' % (type(e).__name__, getattr(e, 'msg', e))}
    nr = Runner(new)
    if nr.error is not None:
        return {'status': 'differs', 'new_code': new, 'failures': [
            {'args': None, 'old_outcome': ['ok', 'module executes'],
             'new_outcome': ['exc', nr.error.split(':')[0], nr.error, '<module>', 0]}]}
    # every distinct way in which the new program behaves differently (one per failing name / function)
    seen = {}
    for a, (old, lines) in zip(arg_texts, old_runs):
        if old[0] != 'ok' or exception_leaves(lines, sel):
            # the equivalence clause is about selections without side effects: on these arguments the
            # selection is left by an exception (caught further out), its partial bindings are observable
            continue
        newo, _ = nr.call(entry['entry'], a)
        if newo != old:
            k = ('value',) if newo[0] == 'ok' else (newo[1], failure_name(newo)[0] or newo[2], newo[3], newo[4])
            if k not in seen and len(seen) < 6:
                seen[k] = {'args': a, 'old_outcome': old, 'new_outcome': newo}
            if newo[0] == 'exc' and newo[1] == 'Budget':
                break               # a loop that does not end: one witness is enough
    if seen:
        return {'status': 'differs', 'new_code': new, 'failures': list(seen.values())}
    return {'status': 'same'}


def flow_worker(item):
    """item = dict(seed=<str>, programs=<n>, per_program=<k>, nargs=<n>) -> list of result records"""
    import random
    from gen import refactor_gen
    rng = random.Random(item['seed'])
    out = []
    for pi in range(item['programs']):
        src, entries = refactor_gen.gen_flow_program(rng, eol='\n')
        old = Runner(src)
        if old.error is not None:
            out.append({'rec': 'generator-rejects', 'detail': old.error})
            continue
        all_sels = selections(src)
        for entry in entries:
            sels = [s for s in all_sels if s['func'] == entry['name']]
            arg_texts = refactor_gen.flow_arguments(rng, entry, item['nargs'])
            runs = [old.call(entry['entry'], a, trace_func=entry['name']) for a in arg_texts]
            for sel in pick_selections(rng, sels, item['per_program']):
                need = selection_lines(src, sel)
                texts, rr = list(arg_texts), list(runs)
                covered = set()
                for (o, lines) in rr:
                    covered |= lines & need
                # coverage-guided: draw further argument tuples until every line of the selection ran
                tries = 0
                while covered != need and tries < 60:
                    tries += 1
                    extra = refactor_gen.flow_arguments(rng, entry, 4, corners=False)
                    for a in extra:
                        if a in texts:
                            continue
                        o, lines = old.call(entry['entry'], a, trace_func=entry['name'])
                        if (lines & need) - covered:
                            covered |= lines & need
                            texts.append(a)
                            rr.append((o, lines))
                res = check_selection(src, entry, sel, texts, rr)
                res.update({'rec': 'case', 'entry': entry['entry'], 'sel': sel,
                            'covered': len(covered), 'need': len(need),
                            'old_raises': sum(1 for (o, l_) in rr if o[0] != 'ok' or exception_leaves(l_, sel)),
                            'nargs': len(texts)})
                if res['status'] not in ('same', 'refused'):
                    res['source'] = src
                    res['args_all'] = texts
                else:
                    import hashlib
                    res['key'] = hashlib.blake2b(src.encode(), digest_size=8).hexdigest()
                out.append(res)
    return out

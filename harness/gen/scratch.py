"""Scratch directories for checks that need real files (C20, C10).

`Scratch()` creates a fresh directory below $VERIF_SCRATCH (default /tmp/scratch-c20c10),
remembers the working directory, and removes everything again on exit.  Specs handed to
ctx.fail / replays are written with the placeholder `<B>` for the case directory so that they do
not depend on the process id; `mat()` / `unmat()` translate.
"""
import os
import shutil
import tempfile
from pathlib import Path

ROOT = os.environ.get('VERIF_SCRATCH', '/tmp/scratch-c20c10')
B = '<B>'


class Scratch:
    def __init__(self, tag):
        self.tag = tag

    def __enter__(self):
        os.makedirs(ROOT, exist_ok=True)
        self.cwd = os.getcwd()
        self.base = os.path.realpath(tempfile.mkdtemp(prefix=self.tag + '-', dir=ROOT))
        self.n = 0
        return self

    def case_dir(self):
        """a fresh empty directory; the process chdirs into it"""
        self.n += 1
        d = os.path.join(self.base, 'c%d' % self.n)
        os.makedirs(d)
        os.chdir(d)
        return d

    def __exit__(self, *a):
        os.chdir(self.cwd)
        shutil.rmtree(self.base, ignore_errors=True)


def mat_text(text, base):
    return text.replace(B, base)


def unmat_text(text, base):
    return text.replace(base, B)


def mat(v, base):
    """spec value -> python object.  None / bool pass; ['str', t]; ['path', t];
    ['list', [..]]; ['tuple', [..]]"""
    if v is None or isinstance(v, bool):
        return v
    kind, x = v
    if kind == 'str':
        return mat_text(x, base)
    if kind == 'path':
        return Path(mat_text(x, base))
    if kind == 'list':
        return [mat(e, base) for e in x]
    if kind == 'tuple':
        return tuple(mat(e, base) for e in x)
    raise ValueError(v)


def enc(obj):
    """python object -> JSON value understood by the Lean drivers (PyVal)"""
    if obj is None or isinstance(obj, (bool, str, int)):
        return obj
    if isinstance(obj, Path):
        return {'path': list(obj.parts)}
    if isinstance(obj, (list, tuple)):
        return [enc(e) for e in obj]
    return {'other': repr(type(obj).__name__)}


def build(base, dirs=(), files=()):
    """dirs: relative directory names; files: (relative name, content)"""
    for d in dirs:
        os.makedirs(os.path.join(base, d), exist_ok=True)
    for name, content in files:
        p = os.path.join(base, name)
        os.makedirs(os.path.dirname(p), exist_ok=True)
        with open(p, 'w', encoding='utf-8') as f:
            f.write(content)

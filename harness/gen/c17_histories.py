"""Query histories on ONE Script object (C17).

The property quantifies over every result of every query method; an editor plugin keeps a Script
around and asks it many things, often the same thing again (outline, search, outline).  A history is
a list of JSON-able operations, executed in order on one `jedi.Script`:

  {'op': 'get_names', 'all_scopes': b, 'definitions': b, 'references': b}      all 8 flag combinations
  {'op': 'search' | 'complete_search', 'string': s, 'all_scopes': b}
  {'op': 'goto' | 'infer' | 'help' | 'get_references' | 'get_context' | 'get_signatures' | 'complete',
   'line': l, 'column': c}
  {'op': 'get_syntax_errors'}
  {'op': 'name', 'of': i, 'index': j, 'call': m}     m() on the j-th object returned by step i
                                                     (m = 'again' re-reads the object's own position)

Histories repeat themselves on purpose: a step is a copy of an earlier step with probability ~0.4,
and every history ends with a second round of name enumerations.

Programs: the token-oracle programs of stream `tokens` (valid, LF), fancy layouts (CRLF / CR / form
feeds / continuation lines / unicode identifiers / no final newline), two programs glued together,
and single-edit mutants.  Generators avoid what the sandbox cannot do (empty typeshed)."""
import re

from gen import texts

FLAGS = [(a, d, r) for a in (True, False) for d in (True, False) for r in (True, False)]
ALL = (True, True, True)
DEFAULT = (False, True, False)
POSITION_OPS = ['goto', 'infer', 'help', 'get_references', 'get_context', 'get_signatures', 'complete']
NAME_CALLS = ['again', 'again', 'goto', 'infer', 'parent', 'defined_names', 'get_signatures']

EXTRA_STMTS = ['{n}, {m} = {e}, {e}', '{n} += {e}', '{n}: int = {e}', 'for {n}, {m} in {e}:\n    pass', 'del {n}',
               'with {e} as {n}:\n    {n}', '({n} := {e})', '[{n} for {n} in {e}]', '{n}.{m} = {e}', '{n}[0] = {e}',
               'import os.path', 'import os.path as {n}', 'from os import path as {n}, sep', 'global {n}',
               '{n} = {m} = {e}', 'print({n}={e})', 'lambda {n}, *{m}: {n}', '*{n}, {m} = {e}', '{n} = {n}.{m}.{n}']


def token_program(rng):
    """a valid LF program with every kind of binder the `tokens` oracle knows (same generator as the
    `tokens` stream of props/c17.py)"""
    lines = texts.program(rng)
    for _ in range(rng.randint(1, 4)):
        t = rng.choice(EXTRA_STMTS)
        s = t.format(n=texts.ident(rng), m=texts.ident(rng), e=texts.expr(rng, []))
        lines.insert(rng.randint(0, len(lines)), s) if not lines or not any(l.startswith(' ') for l in lines) \
            else lines.append(s)
    return '\n'.join(lines) + ('\n' if rng.random() < 0.7 else '')


def gen_text(rng):
    """(family, text)"""
    r = rng.random()
    if r < 0.5:
        fam, text = 'tokens', token_program(rng)
    elif r < 0.62:
        a = token_program(rng)
        fam, text = 'glued', (a if a.endswith('\n') else a + '\n') + token_program(rng)
    elif r < 0.88:
        fam, text = 'layout', texts.valid_text(rng, fancy=True)
    else:
        fam, text = 'mutant', texts.mutant(rng, token_program(rng) if rng.random() < 0.5
                                           else texts.valid_text(rng, fancy=True))
    return fam, text


_IDENT = re.compile(r'[^\W\d]\w*')


def ident_positions(text):
    """[(line, column, word)] of identifier-like words, computed without parso / tokenize (works on
    invalid programs and every line terminator)"""
    out = []
    line = 1
    for m in re.finditer(r'([^\n\r]*)(\r\n|\n|\r|\Z)', text):
        for w in _IDENT.finditer(m.group(1)):
            out.append((line, w.start(), w.group(0)))
        if m.group(2) == '':
            break
        line += 1
    return out


def _names_op(flags):
    a, d, r = flags
    return {'op': 'get_names', 'all_scopes': a, 'definitions': d, 'references': r}


def gen_history(rng, text, length):
    words = ident_positions(text)
    strings = sorted({w for (_, _, w) in words}) or ['a']
    ops = []

    def fresh():
        r = rng.random()
        if r < 0.34:
            q = rng.random()
            return _names_op(ALL if q < 0.4 else DEFAULT if q < 0.6 else rng.choice(FLAGS))
        if r < 0.5:
            s = rng.choice(strings)
            if rng.random() < 0.3 and len(s) > 1:
                s = s[:rng.randint(1, len(s) - 1)]
            return {'op': rng.choice(['search', 'search', 'complete_search']), 'string': s,
                    'all_scopes': rng.random() < 0.4}
        if r < 0.82 and words:
            line, col, w = rng.choice(words)
            col += rng.choice([0, 0, len(w) // 2, len(w)])
            return {'op': rng.choice(POSITION_OPS), 'line': line, 'column': col}
        if r < 0.86:
            return {'op': 'get_syntax_errors'}
        if ops:
            return {'op': 'name', 'of': rng.randrange(len(ops)), 'index': rng.randint(0, 5),
                    'call': rng.choice(NAME_CALLS)}
        return _names_op(ALL)

    for _ in range(length):
        if ops and rng.random() < 0.4:
            ops.append(dict(rng.choice(ops)))
        else:
            ops.append(fresh())
    # an outline again at the end, whatever happened before
    tail = [ALL, DEFAULT, rng.choice(FLAGS)]
    rng.shuffle(tail)
    ops.extend(_names_op(f) for f in tail[:rng.randint(1, 3)])
    return ops


def label(op):
    o = op['op']
    if o == 'get_names':
        return 'get_names(%s)' % ','.join(k[0] + '=' + ('T' if op[k] else 'F')
                                          for k in ('all_scopes', 'definitions', 'references'))
    if o in ('search', 'complete_search'):
        return '%s(%r%s)' % (o, op['string'], ',all_scopes' if op.get('all_scopes') else '')
    if o == 'name':
        return 'step%d[%d].%s()' % (op['of'], op['index'], op['call'])
    if o == 'get_syntax_errors':
        return o + '()'
    return '%s(%d,%d)' % (o, op['line'], op['column'])

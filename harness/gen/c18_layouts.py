"""Project layouts for C18's `full_name` clause: where the analysed file sits below the project
root, hence what the module's dotted import path is.

A layout is a JSON-able dict
    {'name': 'gen', 'rel': 'K/f/f.py', 'extra': ['K/__init__.py'], 'dotted': ['K', 'f', 'f']}
(`extra` = the empty `__init__.py` files of the directories that are regular packages; directories
without one are namespace packages).  The components of the dotted path are drawn from the very
spellings the program generator gives to functions, classes and assigned names, so that the module
path and the `__qualname__` part of a full name COLLIDE at every depth: `f.py` defining `f`,
`K/f.py` defining class `f` with a method `f` and a nested class `K`, `K/K.py`, `f/f/f.py`,
a package `K/__init__.py` defining `K` ... (glob.glob / copy.copy / datetime.datetime style).

`collision_programs(dotted)` is the deterministic family: abstract programs (gen/nesting.py syntax)
in which every def/class is called like the LAST or like the FIRST component of the module path,
at module level, as a method, as a nested class and below a nested class.
"""
from gen import nesting as G

# spellings shared with gen/scopes.py FNAMES / CNAMES / NAMES (definition names of the generator)
DEF_NAMES = ['f', 'g', 'h', 'K', 'L']
BIND_NAMES = ['a', 'b']
PLAIN = ['mod_a', 'pkg', 'sub']      # collide with nothing


def layout(dotted, package=False, inits=None):
    """the layout whose analysed file is module `dotted` (package=True: its `__init__.py`);
    inits[k] = directory dotted[:k+1] has an `__init__.py`"""
    dotted = list(dotted)
    dirs = dotted if package else dotted[:-1]
    rel = '/'.join(dirs + ['__init__.py']) if package else '/'.join(dirs + [dotted[-1] + '.py'])
    parents = dirs[:-1] if package else dirs
    inits = list(inits) if inits is not None else [True] * len(parents)
    extra = ['/'.join(parents[:k + 1] + ['__init__.py']) for k in range(len(parents)) if inits[k]]
    return {'name': 'gen', 'rel': rel, 'extra': extra, 'dotted': dotted}


def systematic_layouts(x, y):
    """every shape of path of depth <= 3 over the spellings x (the last component) and y, as module
    and as package, regular and namespace parents"""
    out = []
    paths = [[x], [x, x], [y, x], [x, x, x], [y, x, x], [x, y, x], [y, y, x]]
    for d in paths:
        out.append(layout(d))
        out.append(layout(d, package=True))
        if len(d) > 1:
            out.append(layout(d, inits=[False] * (len(d) - 1)))
    return out


def gen_layout(rng, pools):
    """random layout: depth 1..3, components from the definition spellings in use (mostly), the last
    one always a definition / assigned name"""
    fnames, cnames = pools
    defs = sorted(set(fnames) | set(cnames))
    depth = rng.choice([1, 1, 2, 2, 3])
    last = rng.choice(defs * 3 + BIND_NAMES)
    d = [rng.choice(defs * 2 + BIND_NAMES + PLAIN) for _ in range(depth - 1)] + [last]
    package = rng.random() < 0.25
    n_par = len(d) - 1
    if rng.random() < 0.6:
        inits = [True] * n_par
    else:
        inits = [rng.random() < 0.5 for _ in range(n_par)]
    return layout(d, package=package, inits=inits)


def gen_pools(rng):
    """name pools in which functions and classes share spellings (`class f` with a method `f`)"""
    k = rng.choice([2, 2, 3])
    shared = rng.sample(DEF_NAMES, k)
    return (shared, shared)


def collision_programs(dotted):
    """[(tag, abstract program)]: x = last component, y = first component (another spelling when
    the path has one component or both are equal)"""
    D, B = G.D, lambda n: {'k': 'bind', 'x': n, 'e': {'e': 'num'}}
    x = dotted[-1]
    y = dotted[0] if dotted[0] != x else ('g' if x != 'g' else 'h')
    meth = lambda n, body=None: D('function', n, body or [{'k': 'pass'}], params=[{'name': 'p'}])
    progs = []
    # function flavour: a module-level function called like the module; methods and classes called
    # like it deeper in the chain
    progs.append(('collide-function', {'body': G.PRELUDE + [
        D('function', x, [B('a')]),
        D('class', y, [
            meth(x),
            D('class', y, [meth(x), meth(y), D('class', x, [meth(x)])]),
        ]),
    ], 'trail': 0}))
    # class flavour: a module-level class called like the module with an attribute, a method and
    # nested classes of the same spelling
    progs.append(('collide-class', {'body': G.PRELUDE + [
        D('class', x, [
            B('a'),
            meth(y),
            D('class', x, [meth(x, [B('a')]), D('class', y, [meth(x)])]),
        ]),
        D('function', y, [B(x)], is_async=True),
    ], 'trail': 0}))
    # method flavour: class and method both called like the module (`worker.worker.worker`)
    progs.append(('collide-method', {'body': G.PRELUDE + [
        B(x),
        D('class', x, [
            B(x),
            meth(x),
            D('class', y, [D('class', x, [meth(y)], bases=[[None, G.N('Base')]])]),
        ], decos=[G.N('dec')]),
    ], 'trail': 0}))
    return progs

"""Programs for C16 whose answers go through jedi's memo layers (jedi/inference/cache.py,
jedi/cache.py:memoize_method): every *family* below is one way a value reaches a name - docstring
types (sphinx / epydoc), annotations (plain / string), decorators, call results that depend on the
call site, generators, comprehensions, properties, class / instance attributes via several
instances, special methods, closures, a second module, pytest fixtures.  Each family instance has a
definition and several *distinct use sites* of the same definition; the queries of a session are
asked at different use sites, so an answer for one site is computed while the memo already holds
what another site left there.  (Asking the same site twice hits the outermost memo and shows
nothing; a memo entry that is consumed by its first reader - a generator stored as it is - shows
only between distinct sites.)

Bodies of functions whose type comes from a docstring / annotation return an unknown expression, so
that the documented type is the ONLY source of the answer.

Only user classes are used as values (no typeshed in this sandbox); numpy-style docstrings are left
out (numpydoc is not installed here, jedi ignores them).

build(spec) -> dict(main=<source of main.py>, files={name: text}, queries=[(family, use index, kind, method, line, column)])
gen_spec(rng) / coverage_specs()
"""

HELPER = 'c16_helper_mod'


class _Src:
    def __init__(self):
        self.lines = []

    def add(self, text):
        for ln in text.split('\n'):
            self.lines.append(ln)
        return len(self.lines)

    def text(self):
        return '\n'.join(self.lines) + '\n'


def _doc(kind, what, cls):
    tag = {'sphinx': ':', 'epydoc': '@'}[kind]
    if what == 'rtype':
        return '    """\n    Builds it.\n\n    %srtype: %s\n    """' % (tag, cls)
    return '    """\n    Uses it.\n\n    %stype p: %s\n    """' % (tag, cls)


# family -> (definition(n, cls, other), use(n, k, cls, other) -> expression or ('for', iterable) , uses)
# n = unique suffix, cls = the class every use evaluates to unless the family is site dependent
def _families():
    F = {}

    def fam(name, definition, use, site_dependent=False, where='main'):
        F[name] = dict(definition=definition, use=use, site_dependent=site_dependent, where=where)

    for style in ('sphinx', 'epydoc'):
        fam('%s_rtype' % style,
            lambda n, c, o, style=style: 'def mk%s(k):\n%s\n    return registry[k]()' % (n, _doc(style, 'rtype', c)),
            lambda n, k, c, o: "mk%s('k%d')" % (n, k))
        fam('%s_param_type' % style,
            lambda n, c, o, style=style: 'def use%s(p):\n%s\n    return p' % (n, _doc(style, 'type', c)),
            lambda n, k, c, o: 'use%s(unknown%d)' % (n, k))
    fam('annotation_ret', lambda n, c, o: 'def mk%s(k) -> %s:\n    return registry[k]()' % (n, c),
        lambda n, k, c, o: "mk%s('k%d')" % (n, k))
    fam('str_annotation_ret', lambda n, c, o: "def mk%s(k) -> '%s':\n    return registry[k]()" % (n, c),
        lambda n, k, c, o: "mk%s('k%d')" % (n, k))
    fam('str_annotation_param', lambda n, c, o: "def use%s(p: '%s'):\n    return p" % (n, c),
        lambda n, k, c, o: 'use%s(unknown%d)' % (n, k))
    fam('decorator_identity',
        lambda n, c, o: 'def deco%s(f):\n    return f\n@deco%s\ndef mk%s(k):\n    return %s()' % (n, n, n, c),
        lambda n, k, c, o: "mk%s('k%d')" % (n, k))
    fam('decorator_wrapper',
        lambda n, c, o: ('def deco%s(f):\n    def inner(*a):\n        return f(*a)\n    return inner\n'
                         '@deco%s\ndef mk%s(k):\n    return %s()' % (n, n, n, c)),
        lambda n, k, c, o: "mk%s('k%d')" % (n, k))
    fam('call_site_argument', lambda n, c, o: 'def ident%s(x):\n    return x' % n,
        lambda n, k, c, o: 'ident%s(%s())' % (n, c if k % 2 == 0 else o), site_dependent=True)
    fam('generator', lambda n, c, o: 'def gen%s():\n    yield %s()' % (n, c), lambda n, k, c, o: ('for', 'gen%s()' % n))
    fam('yield_from',
        lambda n, c, o: 'def gen%s():\n    yield %s()\ndef gen%sb():\n    yield from gen%s()' % (n, c, n, n),
        lambda n, k, c, o: ('for', 'gen%sb()' % n))
    fam('comprehension', lambda n, c, o: 'xs%s = [%s() for _ in [%s(), %s()]]' % (n, c, o, o),
        lambda n, k, c, o: ('for', 'xs%s' % n))
    fam('list_literal', lambda n, c, o: 'xs%s = [%s(), %s()]' % (n, c, c), lambda n, k, c, o: 'xs%s[%d]' % (n, k % 2))
    fam('dict_literal', lambda n, c, o: "d%s = {'a': %s(), 'b': %s()}" % (n, c, c),
        lambda n, k, c, o: "d%s['%s']" % (n, 'ab'[k % 2]))
    fam('property', lambda n, c, o: 'class H%s:\n    @property\n    def w(self):\n        return %s()' % (n, c),
        lambda n, k, c, o: 'H%s().w' % n)
    fam('class_attribute', lambda n, c, o: 'class H%s:\n    w = %s()' % (n, c), lambda n, k, c, o: 'H%s().w' % n)
    fam('instance_attribute', lambda n, c, o: 'class H%s:\n    def __init__(self):\n        self.w = %s()' % (n, c),
        lambda n, k, c, o: 'H%s().w' % n)
    fam('method_result', lambda n, c, o: 'class H%s:\n    def m(self):\n        return %s()' % (n, c),
        lambda n, k, c, o: 'H%s().m()' % n)
    fam('init_argument', lambda n, c, o: 'class H%s:\n    def __init__(self, x):\n        self.x = x' % n,
        lambda n, k, c, o: 'H%s(%s()).x' % (n, c if k % 2 == 0 else o), site_dependent=True)
    fam('inherited_method',
        lambda n, c, o: 'class B%s:\n    def m(self):\n        return %s()\nclass D%s(B%s): pass' % (n, c, n, n),
        lambda n, k, c, o: 'D%s().m()' % n)
    fam('dunder_call', lambda n, c, o: 'class H%s:\n    def __call__(self):\n        return %s()' % (n, c),
        lambda n, k, c, o: 'H%s()()' % n)
    fam('dunder_getitem', lambda n, c, o: 'class H%s:\n    def __getitem__(self, i):\n        return %s()' % (n, c),
        lambda n, k, c, o: 'H%s()[%d]' % (n, k))
    fam('dunder_getattr', lambda n, c, o: 'class H%s:\n    def __getattr__(self, name):\n        return %s()' % (n, c),
        lambda n, k, c, o: 'H%s().anything%d' % (n, k))
    fam('dunder_iter', lambda n, c, o: 'class H%s:\n    def __iter__(self):\n        yield %s()' % (n, c),
        lambda n, k, c, o: ('for', 'H%s()' % n))
    fam('lambda', lambda n, c, o: 'mk%s = lambda: %s()' % (n, c), lambda n, k, c, o: 'mk%s()' % n)
    fam('closure',
        lambda n, c, o: 'def outer%s():\n    w = %s()\n    def inner():\n        return w\n    return inner' % (n, c),
        lambda n, k, c, o: 'outer%s()()' % n)
    fam('default_argument', lambda n, c, o: 'def mk%s(x=%s()):\n    return x' % (n, c), lambda n, k, c, o: 'mk%s()' % n)
    fam('star_args', lambda n, c, o: 'def mk%s(*args):\n    return args[0]' % n,
        lambda n, k, c, o: 'mk%s(%s(), %s())' % (n, c if k % 2 == 0 else o, o), site_dependent=True)
    fam('kwargs', lambda n, c, o: "def mk%s(**kw):\n    return kw['k']" % n,
        lambda n, k, c, o: 'mk%s(k=%s())' % (n, c if k % 2 == 0 else o), site_dependent=True)
    fam('self_result', lambda n, c, o: 'class S%s:\n    def show(self): pass\n    def clone(self):\n        return self' % n,
        lambda n, k, c, o: 'S%s().clone()' % n)
    fam('with_as', lambda n, c, o: ('class M%s:\n    def show(self): pass\n    def __enter__(self):\n        return self\n'
                                    '    def __exit__(self, *a): pass' % n),
        lambda n, k, c, o: ('with', 'M%s()' % n))
    # a second module: the definitions live in c16_helper_mod.py
    fam('import_docstring',
        lambda n, c, o: 'def hmk%s(k):\n%s\n    return registry[k]()' % (n, _doc('sphinx', 'rtype', c)),
        lambda n, k, c, o: "%s.hmk%s('k%d')" % (HELPER, n, k), where='helper')
    fam('import_from_function', lambda n, c, o: 'def hfn%s(k):\n    return %s()' % (n, c),
        lambda n, k, c, o: "hfn%s('k%d')" % (n, k), where='helper-from')
    fam('import_class_property', lambda n, c, o: 'class HH%s:\n    @property\n    def w(self):\n        return %s()' % (n, c),
        lambda n, k, c, o: '%s.HH%s().w' % (HELPER, n), where='helper')
    return F


FAMILIES = _families()
# pytest fixtures are their own kind of program (the test function's parameters are the use sites)
PYTEST = 'pytest_fixture'
ALL_FAMILIES = sorted(FAMILIES) + [PYTEST]
CLASSES = ['Wa', 'Wb', 'Wc', 'Wd']


def _class_defs(s):
    for c in CLASSES:
        s.add('class %s:\n    def show(self): pass\n    def hide(self): pass' % c)


def build(spec, uses=2):
    """spec: list of (family, class index).  Deterministic text."""
    main, helper = _Src(), _Src()
    _class_defs(helper)
    need_helper = any(FAMILIES[f]['where'] != 'main' for f, _ in spec if f != PYTEST)
    froms = []
    defs = []
    for i, (f, ci) in enumerate(spec):
        if f == PYTEST:
            continue
        F = FAMILIES[f]
        c, o = CLASSES[ci % len(CLASSES)], CLASSES[(ci + 1) % len(CLASSES)]
        text = F['definition'](str(i), c, o)
        if F['where'] == 'main':
            defs.append(text)
        else:
            helper.add(text)
            if F['where'] == 'helper-from':
                froms.append('hfn%d' % i)
    if need_helper:
        main.add('import %s' % HELPER)
        if froms:
            main.add('from %s import %s' % (HELPER, ', '.join(froms)))
    if any(f == PYTEST for f, _ in spec):
        main.add('import pytest')
    _class_defs(main)
    for d in defs:
        main.add(d)
    queries = []
    fixtures = []
    for i, (f, ci) in enumerate(spec):
        c, o = CLASSES[ci % len(CLASSES)], CLASSES[(ci + 1) % len(CLASSES)]
        if f == PYTEST:
            for k in range(uses):
                main.add('@pytest.fixture\ndef fix%d_%d():\n    return %s()' % (i, k, c if k % 2 == 0 else o))
                fixtures.append((i, k))
            continue
        F = FAMILIES[f]
        for k in range(uses):
            u = F['use'](str(i), k, c, o)
            var = 'u%d_%d' % (i, k)
            if isinstance(u, tuple) and u[0] == 'for':
                main.add('for %s in %s:' % (var, u[1]))
                ln = main.add('    %s' % var)
                queries.append((f, i, k, 'value', 'infer', ln, 4 + len(var)))
                ln = main.add('    %s.show' % var)
                queries.append((f, i, k, 'attr', 'goto', ln, 4 + len(var) + 5))
            elif isinstance(u, tuple) and u[0] == 'with':
                main.add('with %s as %s:' % (u[1], var))
                ln = main.add('    %s' % var)
                queries.append((f, i, k, 'value', 'infer', ln, 4 + len(var)))
                ln = main.add('    %s.show' % var)
                queries.append((f, i, k, 'attr', 'goto', ln, 4 + len(var) + 5))
            else:
                main.add('%s = %s' % (var, u))
                ln = main.add(var)
                queries.append((f, i, k, 'value', 'infer', ln, len(var)))
                ln = main.add('%s.show' % var)
                queries.append((f, i, k, 'attr', 'goto', ln, len(var) + 5))
                queries.append((f, i, k, 'attr-complete', 'complete', ln, len(var) + 3))
    if fixtures:
        main.add('def test_all(%s):' % ', '.join('fix%d_%d' % ik for ik in fixtures))
        for (i, k) in fixtures:
            var = 'fix%d_%d' % (i, k)
            ln = main.add('    %s' % var)
            queries.append((PYTEST, i, k, 'value', 'infer', ln, 4 + len(var)))
            ln = main.add('    %s.show' % var)
            queries.append((PYTEST, i, k, 'attr', 'goto', ln, 4 + len(var) + 5))
    files = {'main.py': main.text()}
    if need_helper:
        files[HELPER + '.py'] = helper.text()
    return dict(main=main.text(), files=files, queries=queries, spec=[list(x) for x in spec])


def gen_spec(rng, with_pytest=False):
    names = sorted(FAMILIES)
    k = rng.randint(3, 5)
    spec = [(rng.choice(names), rng.randrange(len(CLASSES))) for _ in range(k)]
    if with_pytest:
        spec.append((PYTEST, rng.randrange(len(CLASSES))))
    return spec


def coverage_specs(group=4):
    """every family once, `group` families per program; pytest fixtures in a program of their own"""
    names = sorted(FAMILIES)
    out = []
    for i in range(0, len(names), group):
        out.append([(f, (i + j) % len(CLASSES)) for j, f in enumerate(names[i:i + group])])
    out.append([(PYTEST, 0)])
    return out

"""Edit histories of one buffer (C08): a generated base program and a sequence of editor-like
edits (insert / delete / replace lines and characters, indent / dedent blocks, cut / paste / move,
duplicate, rename everywhere, change a signature, undo, redo of the same text; with `revisit` also
exact returns to earlier states: undo / redo along an undo stack, revert to any earlier version,
toggling between two texts).

Everything is a list of lines without terminators; `text(lines)` joins them.  Generators avoid what
the sandbox cannot do (empty typeshed): True/False/None, builtin call results, `Class.` / `func.`
completion."""

NAMES = ['alpha', 'beta', 'gamma', 'delta', 'value', 'item', 'total', 'count', 'node', 'left']
FUNCS = ['make', 'build', 'fetch', 'apply', 'merge', 'visit']
CLASSES = ['Foo', 'Bar', 'Node', 'Tree']
PARAMS = ['a', 'b', 'c', 'x', 'y', 'key', 'arg']
LITS = ['1', '2', "'s'", '"txt"', '[1, 2]', "('a', 3)", '1.5', '{}']


def _expr(rng, names):
    r = rng.random()
    if r < 0.35 or not names:
        return rng.choice(LITS)
    if r < 0.7:
        return rng.choice(names)
    if r < 0.85:
        return '%s + %s' % (rng.choice(names), rng.choice(LITS))
    return '[%s, %s]' % (rng.choice(names), rng.choice(LITS))


def _params(rng):
    ps = list(dict.fromkeys(rng.choice(PARAMS) for _ in range(rng.randint(0, 3))))
    out = []
    for i, p_ in enumerate(ps):
        out.append(p_ if rng.random() < 0.7 or i == 0 else '%s=%s' % (p_, rng.choice(LITS)))
    # defaults must come last
    out.sort(key=lambda s: '=' in s)
    return ps, out


def gen_func(rng, name, indent='', self_=False, callables=()):
    ps, sig = _params(rng)
    if self_:
        sig = ['self'] + sig
    lines = ['%sdef %s(%s):' % (indent, name, ', '.join(sig))]
    local = list(ps)
    for _ in range(rng.randint(0, 2)):
        n = rng.choice(NAMES)
        lines.append('%s    %s = %s' % (indent, n, _expr(rng, local)))
        local.append(n)
    if self_ and rng.random() < 0.6:
        lines.append('%s    self.%s = %s' % (indent, rng.choice(NAMES), _expr(rng, local)))
    if callables and rng.random() < 0.4:
        lines.append('%s    %s = %s(%s)' % (indent, rng.choice(NAMES), rng.choice(list(callables)),
                                            ', '.join(_expr(rng, local) for _ in range(rng.randint(0, 2)))))
    lines.append('%s    return %s' % (indent, _expr(rng, local)))
    return lines


def base_program(rng):
    lines = []
    funcs, classes, names = [], [], []
    for _ in range(rng.randint(3, 7)):
        r = rng.random()
        if r < 0.35:
            f = rng.choice(FUNCS)
            lines += gen_func(rng, f, callables=funcs) + ['']
            funcs.append(f)
        elif r < 0.55:
            c = rng.choice(CLASSES)
            base = '(%s)' % rng.choice(classes) if classes and rng.random() < 0.3 else ''
            lines.append('class %s%s:' % (c, base))
            lines.append('    %s = %s' % (rng.choice(NAMES), rng.choice(LITS)))
            for _ in range(rng.randint(1, 2)):
                lines += gen_func(rng, rng.choice(FUNCS), indent='    ', self_=True)
            lines.append('')
            classes.append(c)
        elif r < 0.75:
            n = rng.choice(NAMES)
            lines.append('%s = %s' % (n, _expr(rng, names)))
            names.append(n)
        elif r < 0.9 and (funcs or classes):
            n = rng.choice(NAMES)
            if classes and (not funcs or rng.random() < 0.5):
                lines.append('%s = %s()' % (n, rng.choice(classes)))
            else:
                lines.append('%s = %s(%s)' % (n, rng.choice(funcs),
                                             ', '.join(_expr(rng, names) for _ in range(rng.randint(0, 2)))))
            names.append(n)
        elif names and classes:
            n = rng.choice(names)
            lines.append('%s.%s(%s)' % (n, rng.choice(FUNCS), _expr(rng, names)))
        else:
            n = rng.choice(NAMES)
            lines.append('%s = %s' % (n, rng.choice(LITS)))
            names.append(n)
    # a few uses at the end so that queries have something to resolve
    for n in (names[-2:] or ['alpha']):
        lines.append(n)
    if funcs:
        lines.append('%s(%s' % (rng.choice(funcs), rng.choice(LITS)))   # open call: signatures
    return lines


def text(lines, final_newline=True):
    return '\n'.join(lines) + ('\n' if final_newline and lines else '')


def _block(rng, lines):
    """(start, end) of a def/class block or a random run of lines"""
    heads = [i for i, l in enumerate(lines) if l.lstrip().startswith(('def ', 'class '))]
    if heads and rng.random() < 0.7:
        i = rng.choice(heads)
        ind = len(lines[i]) - len(lines[i].lstrip())
        j = i + 1
        while j < len(lines) and (not lines[j].strip() or len(lines[j]) - len(lines[j].lstrip()) > ind):
            j += 1
        return i, j
    if not lines:
        return 0, 0
    i = rng.randrange(len(lines))
    return i, min(len(lines), i + rng.randint(1, 3))


def _idents(lines):
    import re
    seen = []
    for l in lines:
        for m in re.finditer(r'[A-Za-z_][A-Za-z_0-9]*', l):
            w = m.group()
            if w not in seen and w not in ('def', 'class', 'return', 'self', 'import', 'from', 'pass'):
                seen.append(w)
    return seen


def new_statement(rng, lines):
    ids = _idents(lines)
    r = rng.random()
    if r < 0.4:
        return ['%s = %s' % (rng.choice(NAMES), _expr(rng, ids[:8]))]
    if r < 0.6:
        return gen_func(rng, rng.choice(FUNCS))
    if r < 0.75 and ids:
        return [rng.choice(ids)]
    if r < 0.9 and ids:
        return ['%s(%s' % (rng.choice(ids), rng.choice(LITS))]
    return ['class %s:' % rng.choice(CLASSES), '    %s = %s' % (rng.choice(NAMES), rng.choice(LITS))]


EDITS = ['insert_line', 'delete_line', 'replace_line', 'insert_char', 'delete_char', 'indent',
         'dedent', 'cut', 'paste', 'move', 'duplicate', 'rename', 'change_sig', 'undo', 'same',
         'append_use', 'swap']


def edit(rng, lines, state):
    """one edit; state = {'clip': [...], 'past': [list of earlier line lists]}; returns (kind, new lines)"""
    kind = rng.choice(EDITS)
    ls = list(lines)
    n = len(ls)
    if kind == 'insert_line':
        i = rng.randint(0, n)
        ls[i:i] = new_statement(rng, ls)
    elif kind == 'delete_line' and n > 1:
        i = rng.randrange(n)
        del ls[i:i + rng.randint(1, 2)]
    elif kind == 'replace_line' and n:
        i = rng.randrange(n)
        ind = ls[i][:len(ls[i]) - len(ls[i].lstrip())]
        ls[i:i + 1] = [ind + x for x in new_statement(rng, ls)[:1]]
    elif kind == 'insert_char' and n:
        i = rng.randrange(n)
        c = rng.randint(0, len(ls[i]))
        ls[i] = ls[i][:c] + rng.choice(['x', '_', '(', ')', ' ', '.', ':', '1', '=', ',', '#', "'"]) + ls[i][c:]
    elif kind == 'delete_char' and n:
        i = rng.randrange(n)
        if ls[i]:
            c = rng.randrange(len(ls[i]))
            ls[i] = ls[i][:c] + ls[i][c + 1:]
    elif kind == 'indent' and n:
        i, j = _block(rng, ls)
        ls[i:j] = ['    ' + l if l.strip() else l for l in ls[i:j]]
    elif kind == 'dedent' and n:
        i, j = _block(rng, ls)
        ls[i:j] = [l[4:] if l.startswith('    ') else l for l in ls[i:j]]
    elif kind == 'cut' and n > 2:
        i, j = _block(rng, ls)
        state['clip'] = ls[i:j]
        del ls[i:j]
    elif kind == 'paste' and state.get('clip'):
        i = rng.randint(0, n)
        ls[i:i] = state['clip']
    elif kind == 'move' and n > 3:
        i, j = _block(rng, ls)
        blk = ls[i:j]
        del ls[i:j]
        k = rng.randint(0, len(ls))
        ls[k:k] = blk
    elif kind == 'duplicate' and n:
        i, j = _block(rng, ls)
        blk = ls[i:j]
        if blk and blk[0].lstrip().startswith('def ') and rng.random() < 0.7:
            # a redefinition with another signature
            ind = blk[0][:len(blk[0]) - len(blk[0].lstrip())]
            nm = blk[0].lstrip()[4:].split('(')[0]
            blk = [ind + l for l in gen_func(rng, nm, self_='self' in blk[0])]
        k = rng.randint(j, len(ls))
        ls[k:k] = blk
    elif kind == 'rename':
        ids = _idents(ls)
        if ids:
            import re
            old = rng.choice(ids)
            new = rng.choice(NAMES + FUNCS)
            ls = [re.sub(r'\b%s\b' % re.escape(old), new, l) for l in ls]
    elif kind == 'change_sig':
        heads = [i for i, l in enumerate(ls) if l.lstrip().startswith('def ') and '(' in l and l.rstrip().endswith(':')]
        if heads:
            i = rng.choice(heads)
            ind = ls[i][:len(ls[i]) - len(ls[i].lstrip())]
            nm = ls[i].lstrip()[4:].split('(')[0]
            _, sig = _params(rng)
            if 'self' in ls[i]:
                sig = ['self'] + sig
            ls[i] = '%sdef %s(%s):' % (ind, nm, ', '.join(sig))
    elif kind == 'undo' and state.get('past'):
        ls = list(rng.choice(state['past'][-3:]))
    elif kind == 'same':
        pass
    elif kind == 'append_use':
        ids = _idents(ls)
        if ids:
            ls.append(rng.choice(ids) + rng.choice(['', '', '.', '(']))
    elif kind == 'swap' and n > 1:
        i = rng.randrange(n - 1)
        ls[i], ls[i + 1] = ls[i + 1], ls[i]
    else:
        kind = 'same'
    if not ls:
        ls = ['']
    return kind, ls


REVISITS = ['undo', 'undo', 'redo', 'revert', 'toggle']


def history(rng, length, revisit=0.0):
    """list of (edit kind, text) of `length`+1 versions, the first being the base program.

    `revisit` = probability that a step RETURNS to an earlier state of the buffer, character for
    character, the way an editor does: `undo` / `redo` walk the editor's undo stack (an ordinary
    edit cuts the redo branch off), `revert` goes back to any earlier version at any distance
    (checkout, reload from disk, undo tree), `toggle` alternates between the last two different
    texts (comment a line in and out: A B A B ...)."""
    lines = base_program(rng)
    state = {'clip': [], 'past': []}
    out = [('base', text(lines))]
    versions = [(lines, out[0][1])]      # every version so far
    stack, pos = [0], 0                   # undo stack of indices into versions, pointer
    for _ in range(length):
        state['past'].append(lines)
        vi = None
        if revisit and rng.random() < revisit:
            kind = rng.choice(REVISITS)
            cur = versions[-1][1]
            if kind == 'undo' and pos > 0:
                pos -= 1
                vi = stack[pos]
            elif kind == 'redo' and pos + 1 < len(stack):
                pos += 1
                vi = stack[pos]
            elif kind == 'toggle':
                other = [i for i in range(len(versions) - 1, -1, -1) if versions[i][1] != cur]
                if other:
                    vi = other[0]
                    stack[pos + 1:] = [vi]
                    pos += 1
            elif kind == 'revert':
                other = [i for i in range(len(versions)) if versions[i][1] != cur]
                if other:
                    vi = rng.choice(other)
                    stack[pos + 1:] = [vi]
                    pos += 1
        if vi is not None:
            lines, t = versions[vi]
            kind = 'revisit-' + kind
        else:
            kind, lines = edit(rng, lines, state)
            t = text(lines, final_newline=rng.random() < 0.9)
            stack[pos + 1:] = [len(versions)]
            pos += 1
        versions.append((lines, t))
        out.append((kind, t))
    return out

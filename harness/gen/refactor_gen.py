"""Generated executable programs for the refactoring properties (C06, C07).

Programs are builtin-free (the sandbox has no typeshed), deterministic, pure (no I/O, no
global mutation from functions, no expression that can raise: divisors and shift counts are
non-zero literals, subscripts are reduced modulo the length), so that the *observable
behaviour* of a program is the final value of its module globals.
"""
import ast
import sys

ASCII = ['alpha', 'beta', 'gam', 'delta', 'eps', 'zeta', 'eta', 'theta', 'iota', 'kap']
UNI = ['größe', 'λx', 'переменная', 'naïve', '变量', 'ünï', 'µm', 'ñu']


class G:
    def __init__(self, rng, unicode_names=False, rich=True):
        self.rng = rng
        self.pool = list(UNI if unicode_names else ASCII)
        if unicode_names:
            self.pool += ASCII[:4]
        rng.shuffle(self.pool)
        self.n = 0
        self.rich = rich
        self.funcs = []      # (name, nparams)
        self.tuples = []     # names bound to 3-tuples

    def fresh(self):
        self.n += 1
        if self.n <= len(self.pool):
            return self.pool[self.n - 1]
        return '%s%d' % (self.pool[self.n % len(self.pool)], self.n)

    # ---------------------------------------------------------------- expressions
    def atom(self, names):
        r = self.rng.random()
        if names and r < 0.55:
            return self.rng.choice(names)
        return str(self.rng.randint(0, 9))

    def expr(self, names, depth=2, need=1):
        t, p = self.pexpr(names, depth)
        return t if p >= need else '(%s)' % t

    def pexpr(self, names, depth=2):
        """(text, precedence level): 1 ternary, 2 or, 3 and, 4 not, 5 comparison, 6 |, 7 ^, 8 &,
        9 shift, 10 arith, 11 term, 12 factor, 13 power, 14 atom/atom_expr.  Operands are
        parenthesised exactly when Python's grammar requires it (sometimes redundantly)."""
        rng = self.rng
        if depth <= 0 or rng.random() < 0.2:
            return (self.atom(names), 14)
        k = rng.random()

        def e(need=1, d=depth - 1):
            t, p = self.pexpr(names, d)
            if p < need or rng.random() < 0.06:
                return '(%s)' % t
            return t
        BIN = {'|': 6, '^': 7, '&': 8, '<<': 9, '>>': 9, '+': 10, '-': 10, '*': 11, '//': 11, '%': 11}
        if k < 0.30:
            op = rng.choice(['+', '-', '*', '+', '-', '*', '//', '%', '<<', '>>', '&', '|', '^'])
            L = BIN[op]
            if op in ('//', '%'):
                return ('%s %s %d' % (e(L), op, rng.randint(1, 7)), L)
            if op in ('<<', '>>'):
                return ('%s %s %d' % (e(L), op, rng.randint(0, 3)), L)
            return ('%s %s %s' % (e(L), op, e(L + 1)), L)
        if k < 0.36:
            return ('%s ** %d' % (self.atom(names), rng.randint(0, 2)), 13)
        if k < 0.43:
            op = rng.choice(['-', '+', '~', 'not '])
            if op == 'not ':
                return ('not ' + e(4), 4)
            return (op + e(12), 12)
        if k < 0.52:
            op = rng.choice(['<', '<=', '==', '!=', '>', '>='])
            if rng.random() < 0.2:
                return ('%s %s %s %s %s' % (e(6), op, e(6), rng.choice(['<', '!=']), e(6)), 5)
            return ('%s %s %s' % (e(6), op, e(6)), 5)
        if k < 0.60:
            if rng.random() < 0.5:
                return ('%s and %s' % (e(3), e(4)), 3)
            return ('%s or %s' % (e(2), e(3)), 2)
        if k < 0.67:
            return ('%s if %s else %s' % (e(2), e(2), e(1)), 1)
        if k < 0.75:
            return ('(%s)' % e(), 14)
        if k < 0.82 and self.funcs:
            f, n = rng.choice(self.funcs)
            return ('%s(%s)' % (f, ', '.join(e() for _ in range(n))), 14)
        if k < 0.87:
            return ('(%s, %s, %s)[%s %% 3]' % (e(), e(), e(), e(11)), 14)
        if k < 0.90 and self.tuples:
            return ('%s[%d]' % (rng.choice(self.tuples), rng.randint(0, 2)), 14)
        if not self.rich:
            return (self.atom(names), 14)
        if k < 0.93:
            v = 'v%d' % rng.randint(0, 9)
            return ('(lambda %s: %s)(%s)' % (v, self.pexpr(names + [v], depth - 1)[0], e()), 14)
        if k < 0.96:
            v = 'w%d' % rng.randint(0, 9)
            t, p = self.pexpr(names + [v], depth - 1)
            if p < 2:
                t = '(%s)' % t
            return ('[%s for %s in (1, 2)][%d]' % (t, v, rng.randint(0, 1)), 14)
        if k < 0.98 and self.tuples:
            return ('[*%s, %s][%d]' % (rng.choice(self.tuples), e(), rng.randint(0, 3)), 14)
        return ('%s in (%s, %s)' % (e(6), e(), e()), 5)

    # ---------------------------------------------------------------- statements
    def comment(self):
        return self.rng.choice(['', '', '', '  # note', ' # ' + self.rng.choice(UNI), '\t# tab'])

    def body(self, names, ind, depth=1, in_func=True):
        rng = self.rng
        lines = []
        local = list(names)
        for _ in range(rng.randint(1, 4)):
            k = rng.random()
            if k < 0.5:
                v = self.fresh()
                lines.append('%s%s = %s%s' % (ind, v, self.expr(local), self.comment()))
                local.append(v)
            elif k < 0.6 and local != names:
                v = rng.choice(local[len(names):])
                lines.append('%s%s %s= %s' % (ind, v, rng.choice('+-*'), self.expr(local, 1)))
            elif k < 0.72 and depth > 0:
                v = self.fresh()
                lines.append('%sif %s:%s' % (ind, self.expr(local, 1), self.comment()))
                lines.append('%s    %s = %s' % (ind, v, self.expr(local)))
                if rng.random() < 0.6:
                    lines.append('%selse:' % ind)
                    lines.append('%s    %s = %s' % (ind, v, self.expr(local)))
                else:
                    lines.insert(len(lines) - 2, '%s%s = %d' % (ind, v, rng.randint(0, 5)))
                local.append(v)
            elif k < 0.82 and depth > 0:
                v, acc = self.fresh(), self.fresh()
                lines.append('%s%s = 0' % (ind, acc))
                lines.append('%sfor %s in (%s, %s):' % (ind, v, self.expr(local, 1), self.expr(local, 1)))
                if rng.random() < 0.3:
                    lines.append('')
                    lines.append('%s    # inside' % ind)
                lines.append('%s    %s = %s + %s' % (ind, acc, acc, self.expr(local + [v], 1, 11)))
                local.append(acc)
            elif k < 0.87 and depth > 0:
                v = self.fresh()
                lines.append('%s%s = %d' % (ind, v, rng.randint(1, 3)))
                lines.append('%swhile %s > 0:' % (ind, v))
                lines.append('%s    %s -= 1' % (ind, v))
                local.append(v)
            elif k < 0.88:
                v, w = self.fresh(), self.fresh()
                lines.append('%s%s = %s; %s = %s' % (ind, v, self.expr(local, 1), w, self.expr(local + [v], 1)))
                local += [v, w]
            elif rng.random() < 0.3:
                v = self.fresh()
                lines.append('%s%s = (%s +' % (ind, v, self.expr(local, 1, 10)))
                lines.append('%s        %s)' % (ind, self.expr(local, 1, 11)))
                local.append(v)
            elif self.funcs and rng.random() < 0.5:
                # a call spread over several lines: every argument is the first token of a
                # continuation line, with comment / blank lines in front of some of them
                v = self.fresh()
                f, n = rng.choice(self.funcs)
                args = [self.expr(local, 1) for _ in range(n)]
                if rng.random() < 0.5:
                    lines.append('%s%s = %s(' % (ind, v, f))
                    for i, a in enumerate(args):
                        if rng.random() < 0.45:
                            lines.append('%s    # %s' % (ind, rng.choice(['scale factor', 'second', 'größe', 'x = 1'])))
                        if rng.random() < 0.15:
                            lines.append('')
                        lines.append('%s    %s%s' % (ind, a, ',' if i < n - 1 else ')'))
                else:
                    head = '%s%s = %s(' % (ind, v, f)
                    lines.append(head + args[0] + (',' if n > 1 else ')'))
                    for i, a in enumerate(args[1:], 1):
                        lines.append(' ' * len(head) + a + (',' if i < n - 1 else ')'))
                local.append(v)
            else:
                # a bracketed multi-line display with comment / blank lines between the elements
                v = self.fresh()
                lines.append('%s%s = (' % (ind, v))
                if rng.random() < 0.6:
                    lines.append('%s    # %s' % (ind, rng.choice(['first', 'scale factor', 'größe'])))
                lines.append('%s    %s,' % (ind, self.expr(local, 1)))
                if rng.random() < 0.3:
                    lines.append('')
                lines.append('%s    %s)[%d]' % (ind, self.expr(local, 1), rng.randint(0, 1)))
                local.append(v)
            if rng.random() < 0.12:
                lines.append('')
        return lines, local

    def program(self):
        rng = self.rng
        lines = []
        if rng.random() < 0.3:
            lines.append('# -*- coding: utf-8 -*-')
        if rng.random() < 0.3:
            lines += ['"""doc', 'string"""', '']
        names = []
        for _ in range(rng.randint(1, 3)):
            v = self.fresh()
            lines.append('%s = %s%s' % (v, self.expr(names, 1), self.comment()))
            names.append(v)
        if rng.random() < 0.6:
            t = self.fresh()
            lines.append('%s = (%s, %s, %s)' % (t, self.expr(names, 1), self.expr(names, 1), self.expr(names, 1)))
            self.tuples.append(t)
        for _ in range(rng.randint(1, 2)):
            f = self.fresh()
            params = [self.fresh() for _ in range(rng.randint(1, 3))]
            sig = list(params)
            if rng.random() < 0.4:
                sig[-1] = '%s=%d' % (sig[-1], rng.randint(0, 5))
            lines.append('')
            if rng.random() < 0.5:
                lines.append('')
            lines.append('def %s(%s):%s' % (f, ', '.join(sig), self.comment()))
            if rng.random() < 0.3:
                lines.append('    # ' + rng.choice(['leading comment', 'größe', 'x = 1']))
            b, local = self.body(names + params, '    ')
            lines += b
            lines.append('    return %s' % self.expr(local))
            lines.append('')
            self.funcs.append((f, len(params)))
        if rng.random() < 0.5:
            k, m, a, z = self.fresh().capitalize(), self.fresh(), self.fresh(), self.fresh()
            lines.append('class %s:' % k)
            lines.append('    %s = %s' % (a, self.expr(names, 1)))
            lines.append('')
            lines.append('    def %s(self, %s):' % (m, z))
            b, local = self.body(names + [z], '        ', depth=0)
            lines += b
            lines.append('        return %s + self.%s' % (self.expr(local, 1, 10), a))
            lines.append('')
            v = self.fresh()
            lines.append('%s = %s().%s(%s)' % (v, k, m, self.expr(names, 1)))
            names.append(v)
        b, local = self.body(names, '', in_func=False)
        lines += b
        names = local
        r = rng.random()
        if r < 0.15:
            v, w = self.fresh(), self.fresh()
            lines.append('%s = %s = %s' % (v, w, self.expr(names, 1)))
            names += [v, w]
        elif r < 0.3:
            v, w = self.fresh(), self.fresh()
            lines.append('%s, %s = %s, %s' % (v, w, self.expr(names, 1), self.expr(names, 1)))
            names += [v, w]
        elif r < 0.4:
            v = self.fresh()
            lines.append('%s: int = %s' % (v, self.expr(names, 1)))
            names.append(v)
        v = self.fresh()
        lines.append('%s = %s' % (v, self.expr(names)))
        return lines


def gen_source(rng, unicode_names=False, eol='\n', final_newline=True, rich=True):
    lines = G(rng, unicode_names, rich).program()
    text = eol.join(lines)
    if final_newline:
        text += eol
    return text


# -------------------------------------------------------------------- running programs

class _Budget(Exception):
    pass


def run_program(src, budget=40000):
    """('ok', {name: repr(value)}) | ('exc', class name) | ('syntax', msg) ; functions and
    classes are reported by kind only."""
    try:
        code = compile(src, '<prog>', 'exec')
    except (SyntaxError, ValueError) as e:
        return ('syntax', '%s: %s' % (type(e).__name__, e))
    n = [0]

    def tracer(frame, event, arg):
        n[0] += 1
        if n[0] > budget:
            raise _Budget()
        return tracer
    g = {'__name__': '__prog__'}
    old = sys.gettrace()
    sys.settrace(tracer)
    try:
        exec(code, g)
    except _Budget:
        return ('budget', '')
    except RecursionError:
        return ('exc', 'RecursionError')
    except Exception as e:
        return ('exc', type(e).__name__)
    finally:
        sys.settrace(old)
    out = {}
    for k, v in g.items():
        if k.startswith('__'):
            continue
        if isinstance(v, (int, str, tuple, list, bool)) or v is None:
            out[k] = repr(v)
        else:
            out[k] = '<%s>' % type(v).__name__
    return ('ok', out)

"""Generated executable programs for the refactoring properties (C06, C07).

Programs are builtin-free (the sandbox has no typeshed), deterministic, pure (no I/O, no
global mutation from functions, no expression that can raise: divisors and shift counts are
non-zero literals, subscripts are reduced modulo the length), so that the *observable
behaviour* of a program is the final value of its module globals.
"""
import ast
import sys

ASCII = ['alpha', 'beta', 'gam', 'delta', 'eps', 'zeta', 'eta', 'theta', 'iota', 'kap']
UNI = ['größe', 'λx', 'переменная', 'naïve', '变量', 'ünï', 'µm', 'ñu']


class G:
    def __init__(self, rng, unicode_names=False, rich=True):
        self.rng = rng
        self.pool = list(UNI if unicode_names else ASCII)
        if unicode_names:
            self.pool += ASCII[:4]
        rng.shuffle(self.pool)
        self.n = 0
        self.rich = rich
        self.funcs = []      # (name, nparams)
        self.tuples = []     # names bound to 3-tuples

    def fresh(self):
        self.n += 1
        if self.n <= len(self.pool):
            return self.pool[self.n - 1]
        return '%s%d' % (self.pool[self.n % len(self.pool)], self.n)

    # ---------------------------------------------------------------- expressions
    def atom(self, names):
        r = self.rng.random()
        if names and r < 0.55:
            return self.rng.choice(names)
        return str(self.rng.randint(0, 9))

    def expr(self, names, depth=2, need=1):
        t, p = self.pexpr(names, depth)
        return t if p >= need else '(%s)' % t

    def pexpr(self, names, depth=2):
        """(text, precedence level): 1 ternary, 2 or, 3 and, 4 not, 5 comparison, 6 |, 7 ^, 8 &,
        9 shift, 10 arith, 11 term, 12 factor, 13 power, 14 atom/atom_expr.  Operands are
        parenthesised exactly when Python's grammar requires it (sometimes redundantly)."""
        rng = self.rng
        if depth <= 0 or rng.random() < 0.2:
            return (self.atom(names), 14)
        k = rng.random()

        def e(need=1, d=depth - 1):
            t, p = self.pexpr(names, d)
            if p < need or rng.random() < 0.06:
                return '(%s)' % t
            return t
        BIN = {'|': 6, '^': 7, '&': 8, '<<': 9, '>>': 9, '+': 10, '-': 10, '*': 11, '//': 11, '%': 11}
        if k < 0.30:
            op = rng.choice(['+', '-', '*', '+', '-', '*', '//', '%', '<<', '>>', '&', '|', '^'])
            L = BIN[op]
            if op in ('//', '%'):
                return ('%s %s %d' % (e(L), op, rng.randint(1, 7)), L)
            if op in ('<<', '>>'):
                return ('%s %s %d' % (e(L), op, rng.randint(0, 3)), L)
            return ('%s %s %s' % (e(L), op, e(L + 1)), L)
        if k < 0.36:
            return ('%s ** %d' % (self.atom(names), rng.randint(0, 2)), 13)
        if k < 0.43:
            op = rng.choice(['-', '+', '~', 'not '])
            if op == 'not ':
                return ('not ' + e(4), 4)
            return (op + e(12), 12)
        if k < 0.52:
            op = rng.choice(['<', '<=', '==', '!=', '>', '>='])
            if rng.random() < 0.2:
                return ('%s %s %s %s %s' % (e(6), op, e(6), rng.choice(['<', '!=']), e(6)), 5)
            return ('%s %s %s' % (e(6), op, e(6)), 5)
        if k < 0.60:
            if rng.random() < 0.5:
                return ('%s and %s' % (e(3), e(4)), 3)
            return ('%s or %s' % (e(2), e(3)), 2)
        if k < 0.67:
            return ('%s if %s else %s' % (e(2), e(2), e(1)), 1)
        if k < 0.75:
            return ('(%s)' % e(), 14)
        if k < 0.82 and self.funcs:
            f, n = rng.choice(self.funcs)
            return ('%s(%s)' % (f, ', '.join(e() for _ in range(n))), 14)
        if k < 0.87:
            return ('(%s, %s, %s)[%s %% 3]' % (e(), e(), e(), e(11)), 14)
        if k < 0.90 and self.tuples:
            return ('%s[%d]' % (rng.choice(self.tuples), rng.randint(0, 2)), 14)
        if not self.rich:
            return (self.atom(names), 14)
        if k < 0.93:
            v = 'v%d' % rng.randint(0, 9)
            return ('(lambda %s: %s)(%s)' % (v, self.pexpr(names + [v], depth - 1)[0], e()), 14)
        if k < 0.96:
            v = 'w%d' % rng.randint(0, 9)
            t, p = self.pexpr(names + [v], depth - 1)
            if p < 2:
                t = '(%s)' % t
            return ('[%s for %s in (1, 2)][%d]' % (t, v, rng.randint(0, 1)), 14)
        if k < 0.98 and self.tuples:
            return ('[*%s, %s][%d]' % (rng.choice(self.tuples), e(), rng.randint(0, 3)), 14)
        return ('%s in (%s, %s)' % (e(6), e(), e()), 5)

    # ---------------------------------------------------------------- statements
    def comment(self):
        return self.rng.choice(['', '', '', '  # note', ' # ' + self.rng.choice(UNI), '\t# tab'])

    def body(self, names, ind, depth=1, in_func=True):
        rng = self.rng
        lines = []
        local = list(names)
        for _ in range(rng.randint(1, 4)):
            k = rng.random()
            if k < 0.5:
                v = self.fresh()
                lines.append('%s%s = %s%s' % (ind, v, self.expr(local), self.comment()))
                local.append(v)
            elif k < 0.6 and local != names:
                v = rng.choice(local[len(names):])
                lines.append('%s%s %s= %s' % (ind, v, rng.choice('+-*'), self.expr(local, 1)))
            elif k < 0.72 and depth > 0:
                v = self.fresh()
                lines.append('%sif %s:%s' % (ind, self.expr(local, 1), self.comment()))
                lines.append('%s    %s = %s' % (ind, v, self.expr(local)))
                if rng.random() < 0.6:
                    lines.append('%selse:' % ind)
                    lines.append('%s    %s = %s' % (ind, v, self.expr(local)))
                else:
                    lines.insert(len(lines) - 2, '%s%s = %d' % (ind, v, rng.randint(0, 5)))
                local.append(v)
            elif k < 0.82 and depth > 0:
                v, acc = self.fresh(), self.fresh()
                lines.append('%s%s = 0' % (ind, acc))
                lines.append('%sfor %s in (%s, %s):' % (ind, v, self.expr(local, 1), self.expr(local, 1)))
                if rng.random() < 0.3:
                    lines.append('')
                    lines.append('%s    # inside' % ind)
                lines.append('%s    %s = %s + %s' % (ind, acc, acc, self.expr(local + [v], 1, 11)))
                local.append(acc)
            elif k < 0.87 and depth > 0:
                v = self.fresh()
                lines.append('%s%s = %d' % (ind, v, rng.randint(1, 3)))
                lines.append('%swhile %s > 0:' % (ind, v))
                lines.append('%s    %s -= 1' % (ind, v))
                local.append(v)
            elif k < 0.88:
                v, w = self.fresh(), self.fresh()
                lines.append('%s%s = %s; %s = %s' % (ind, v, self.expr(local, 1), w, self.expr(local + [v], 1)))
                local += [v, w]
            elif rng.random() < 0.3:
                v = self.fresh()
                lines.append('%s%s = (%s +' % (ind, v, self.expr(local, 1, 10)))
                lines.append('%s        %s)' % (ind, self.expr(local, 1, 11)))
                local.append(v)
            elif self.funcs and rng.random() < 0.5:
                # a call spread over several lines: every argument is the first token of a
                # continuation line, with comment / blank lines in front of some of them
                v = self.fresh()
                f, n = rng.choice(self.funcs)
                args = [self.expr(local, 1) for _ in range(n)]
                if rng.random() < 0.5:
                    lines.append('%s%s = %s(' % (ind, v, f))
                    for i, a in enumerate(args):
                        if rng.random() < 0.45:
                            lines.append('%s    # %s' % (ind, rng.choice(['scale factor', 'second', 'größe', 'x = 1'])))
                        if rng.random() < 0.15:
                            lines.append('')
                        lines.append('%s    %s%s' % (ind, a, ',' if i < n - 1 else ')'))
                else:
                    head = '%s%s = %s(' % (ind, v, f)
                    lines.append(head + args[0] + (',' if n > 1 else ')'))
                    for i, a in enumerate(args[1:], 1):
                        lines.append(' ' * len(head) + a + (',' if i < n - 1 else ')'))
                local.append(v)
            else:
                # a bracketed multi-line display with comment / blank lines between the elements
                v = self.fresh()
                lines.append('%s%s = (' % (ind, v))
                if rng.random() < 0.6:
                    lines.append('%s    # %s' % (ind, rng.choice(['first', 'scale factor', 'größe'])))
                lines.append('%s    %s,' % (ind, self.expr(local, 1)))
                if rng.random() < 0.3:
                    lines.append('')
                lines.append('%s    %s)[%d]' % (ind, self.expr(local, 1), rng.randint(0, 1)))
                local.append(v)
            if rng.random() < 0.12:
                lines.append('')
        return lines, local

    def program(self):
        rng = self.rng
        lines = []
        if rng.random() < 0.3:
            lines.append('# -*- coding: utf-8 -*-')
        if rng.random() < 0.3:
            lines += ['"""doc', 'string"""', '']
        names = []
        for _ in range(rng.randint(1, 3)):
            v = self.fresh()
            lines.append('%s = %s%s' % (v, self.expr(names, 1), self.comment()))
            names.append(v)
        if rng.random() < 0.6:
            t = self.fresh()
            lines.append('%s = (%s, %s, %s)' % (t, self.expr(names, 1), self.expr(names, 1), self.expr(names, 1)))
            self.tuples.append(t)
        for _ in range(rng.randint(1, 2)):
            f = self.fresh()
            params = [self.fresh() for _ in range(rng.randint(1, 3))]
            sig = list(params)
            if rng.random() < 0.4:
                sig[-1] = '%s=%d' % (sig[-1], rng.randint(0, 5))
            lines.append('')
            if rng.random() < 0.5:
                lines.append('')
            lines.append('def %s(%s):%s' % (f, ', '.join(sig), self.comment()))
            if rng.random() < 0.3:
                lines.append('    # ' + rng.choice(['leading comment', 'größe', 'x = 1']))
            b, local = self.body(names + params, '    ')
            lines += b
            lines.append('    return %s' % self.expr(local))
            lines.append('')
            self.funcs.append((f, len(params)))
        if rng.random() < 0.5:
            k, m, a, z = self.fresh().capitalize(), self.fresh(), self.fresh(), self.fresh()
            lines.append('class %s:' % k)
            lines.append('    %s = %s' % (a, self.expr(names, 1)))
            lines.append('')
            lines.append('    def %s(self, %s):' % (m, z))
            b, local = self.body(names + [z], '        ', depth=0)
            lines += b
            lines.append('        return %s + self.%s' % (self.expr(local, 1, 10), a))
            lines.append('')
            v = self.fresh()
            lines.append('%s = %s().%s(%s)' % (v, k, m, self.expr(names, 1)))
            names.append(v)
        b, local = self.body(names, '', in_func=False)
        lines += b
        names = local
        r = rng.random()
        if r < 0.15:
            v, w = self.fresh(), self.fresh()
            lines.append('%s = %s = %s' % (v, w, self.expr(names, 1)))
            names += [v, w]
        elif r < 0.3:
            v, w = self.fresh(), self.fresh()
            lines.append('%s, %s = %s, %s' % (v, w, self.expr(names, 1), self.expr(names, 1)))
            names += [v, w]
        elif r < 0.4:
            v = self.fresh()
            lines.append('%s: int = %s' % (v, self.expr(names, 1)))
            names.append(v)
        v = self.fresh()
        lines.append('%s = %s' % (v, self.expr(names)))
        return lines


def gen_source(rng, unicode_names=False, eol='\n', final_newline=True, rich=True):
    lines = G(rng, unicode_names, rich).program()
    text = eol.join(lines)
    if final_newline:
        text += eol
    return text


# -------------------------------------------------------------------- running programs

class _Budget(Exception):
    pass


def run_program(src, budget=40000):
    """('ok', {name: repr(value)}) | ('exc', class name) | ('syntax', msg) ; functions and
    classes are reported by kind only."""
    try:
        code = compile(src, '<prog>', 'exec')
    except (SyntaxError, ValueError) as e:
        return ('syntax', '%s: %s' % (type(e).__name__, e))
    n = [0]

    def tracer(frame, event, arg):
        n[0] += 1
        if n[0] > budget:
            raise _Budget()
        return tracer
    g = {'__name__': '__prog__'}
    old = sys.gettrace()
    sys.settrace(tracer)
    try:
        exec(code, g)
    except _Budget:
        return ('budget', '')
    except RecursionError:
        return ('exc', 'RecursionError')
    except Exception as e:
        return ('exc', type(e).__name__)
    finally:
        sys.settrace(old)
    out = {}
    for k, v in g.items():
        if k.startswith('__'):
            continue
        if isinstance(v, (int, str, tuple, list, bool)) or v is None:
            out[k] = repr(v)
        else:
            out[k] = '<%s>' % type(v).__name__
    return ('ok', out)


# -------------------------------------------------------------------- control-flow function bodies
#
# Programs for the statement-range part of C06 (extract_function on runs of whole statements of a
# function body).  A program is a few pure helper functions and one or two *entry* functions whose
# bodies mix assignments, rebinding, augmented assignment, tuple assignment, if / elif / else, for
# loops over tuple displays and tuple parameters (possibly empty; break / continue / else), try /
# except / else / finally around a division by a parameter, and nested blocks.  Discipline:
#   * every name that is read is definitely bound on every path (the original never raises
#     UnboundLocalError / NameError); the only exception that can occur is ZeroDivisionError inside
#     a `try` body that catches it;
#   * values are ints (and tuples of ints for the iterable parameters), every statement is free of
#     side effects other than binding local names; helpers are pure;
#   * parameters are never rebound and every `if` condition is a test of parameters only (`p > 1`,
#     `q % 2`, `p < q`, `not t`): argument tuples exist for every path (the oracle picks arguments until
#     every line of the selection was executed), and jedi's flow analysis cannot decide a condition
#     statically from a partial inference (`u = K; if u % 3:` is `always true` for it - root cause
#     extract-function-unreachable-branch-name-becomes-parameter, kept alive by corpus/C06);
#   * closures (FlowG.closure_stmt): a lambda / local def whose body reads locals of the entry function as free
#     variables, defined some statements behind the binding of those locals and called a few statements further on
#     (controls: default argument, shadowing parameter, comprehension); a captured name is never rebound afterwards,
#     and between definition and call only fresh names are bound (python closures bind late);
# The behaviour of an entry function on an argument tuple is its return value.

FLOW_LOCALS = ['acc', 'b', 'cnt', 'd', 'e', 'g', 'h', 'k', 'm', 'n', 'r', 's', 'tot', 'u', 'v', 'w', 'x', 'y', 'z',
               'lo', 'hi', 'nxt', 'prev', 'out']
FLOW_INT_ARGS = [0, 1, 2, 3, 5, -1, 7, 10]
FLOW_TUPLE_ARGS = [(), (1,), (2, 3), (0, 1, 4), (5, 0), (3, 3, 3)]


class FlowG:
    def __init__(self, rng):
        self.rng = rng
        self.pool = list(FLOW_LOCALS)
        rng.shuffle(self.pool)
        self.n = 0
        self.helpers = []        # (name, arity)
        self.glob = []           # module-level int constants
        self.loopvars = 0
        self.scopes = 0
        self.captured = set()    # names read by the body of a closure: never rebound by a later statement

    def fresh(self):
        self.n += 1
        if self.n <= len(self.pool):
            return self.pool[self.n - 1]
        return '%s%d' % (self.pool[self.n % len(self.pool)], self.n // len(self.pool))

    # ------------------------------------------------------------ expressions (int valued)
    def atom(self, env):
        r = self.rng.random()
        if env and r < 0.7:
            return self.rng.choice(env)
        if self.glob and r < 0.76:
            return self.rng.choice(self.glob)
        return str(self.rng.randint(0, 9))

    def expr(self, env, depth=2):
        rng = self.rng
        if depth <= 0 or rng.random() < 0.3:
            return self.atom(env)
        k = rng.random()
        a = self.expr(env, depth - 1)
        if k < 0.5:
            op = rng.choice(['+', '-', '*', '+', '-'])
            b = self.expr(env, depth - 1)
            return '%s %s %s' % (self._par(a), op, self._par(b))
        if k < 0.6:
            return '%s %s %d' % (self._par(a), rng.choice(['//', '%']), rng.randint(2, 7))
        if k < 0.7 and self.helpers:
            f, n = rng.choice(self.helpers)
            return '%s(%s)' % (f, ', '.join([a] + [self.expr(env, depth - 1) for _ in range(n - 1)]))
        if k < 0.8:
            return '%s if %s else %s' % (self._par(a), self._par(self.atom(env)), self._par(self.expr(env, depth - 1)))
        if k < 0.86:
            return '-%s' % self._par(a)
        if k < 0.93:
            return '(%s %s %s)' % (self._par(a), rng.choice(['and', 'or']), self._par(self.expr(env, depth - 1)))
        return '(%s, %s)[%s %% 2]' % (a, self.expr(env, depth - 1), self._par(self.atom(env)))

    @staticmethod
    def _par(t):
        import re as _re
        return t if _re.fullmatch(r'\w+|\w+\([^()]*\)|\([^()]*\)', t) else '(%s)' % t

    def cond(self, params, tuples=None):
        """a test of (never rebound) parameters only"""
        rng = self.rng
        if tuples and (not params or rng.random() < 0.25):
            return rng.choice(['%s', 'not %s']) % rng.choice(tuples)
        a = rng.choice(params)
        k = rng.random()
        if k < 0.4:
            return '%s %s %d' % (a, rng.choice(['>', '<', '>=', '==', '!=']), rng.randint(0, 3))
        if k < 0.6:
            return '%s %% %d' % (a, rng.randint(2, 3))
        if k < 0.8 and len(params) > 1:
            return '%s %s %s' % (a, rng.choice(['<', '>', '==', '<=']), rng.choice([x for x in params if x != a]))
        if k < 0.9:
            return 'not %s' % a
        return a

    # ------------------------------------------------------------ statements
    def block(self, env, ctx, ind, depth, n=None, in_loop=False):
        """-> (lines, env after the block): `env` = int names definitely bound, in binding order;
        ctx: dict(params=[int params], tuples=[tuple params], assignable=[names a nested block may rebind])"""
        rng = self.rng
        lines = []
        env = list(env)
        ro = self.ro(ctx)
        for _ in range(n if n is not None else rng.randint(2, 4)):
            if in_loop and rng.random() < 0.2:
                # a jump of the innermost enclosing loop at ANY position of a loop body (also behind a nested
                # loop, inside nested if / try blocks)
                lines += self.jump(ctx, ind)
                continue
            if ctx.get('may_return') and rng.random() < 0.05:
                # an early return (nested in an `if`): a selection that contains it has to be refused
                lines.append('%sif %s:' % (ind, self.cond(ctx['params'], ctx['tuples'])))
                lines.append('%s    return (%s,)' % (ind, ', '.join(env[-3:])))
                continue
            k = rng.random()
            ro = self.ro(ctx)
            loc = [x for x in env if x not in ro]
            if depth > 0 and rng.random() < 0.07:
                ls, env = self.while_stmt(env, ctx, ind, depth, in_loop)
                lines += ls
                continue
            if rng.random() < 0.035:
                ls, env = self.scope_stmt(env, ctx, ind, depth)
                lines += ls
                continue
            if rng.random() < 0.075:
                ls, env = self.closure_stmt(env, ctx, ind)
                lines += ls
                continue
            if k < 0.17 or not loc:
                v = self.fresh()
                lines.append('%s%s = %s' % (ind, v, self.expr(env)))
                env.append(v)
            elif k < 0.33:
                # rebinding (the right-hand side often mentions the old value)
                v = rng.choice(loc)
                e = self.expr(env)
                if rng.random() < 0.35 and v not in e:
                    e = '%s %s %s' % (v, rng.choice('+-*'), self._par(e))
                lines.append('%s%s = %s' % (ind, v, e))
            elif k < 0.43:
                v = rng.choice(loc)
                lines.append('%s%s %s= %s' % (ind, v, rng.choice(['+', '-', '*', '+']), self.expr(env, 1)))
            elif k < 0.48 and len(loc) >= 2:
                a, b = rng.sample(loc, 2)
                if rng.random() < 0.5:
                    lines.append('%s%s, %s = %s, %s' % (ind, a, b, b, a))
                else:
                    lines.append('%s%s, %s = %s, %s' % (ind, a, b, self.expr(env, 1), self.expr(env, 1)))
            elif k < 0.51:
                a, b = self.fresh(), rng.choice(loc)
                lines.append('%s%s = %s = %s' % (ind, a, b, self.expr(env, 1)))
                env.append(a)
            elif k < 0.71 and depth > 0:
                ls, env = self.if_stmt(env, ctx, ind, depth, in_loop)
                lines += ls
            elif k < 0.86 and depth > 0:
                ls, env = self.for_stmt(env, ctx, ind, depth, in_loop)
                lines += ls
            elif k < 0.94 and depth > 0 and ctx['params']:
                ls, env = self.try_stmt(env, ctx, ind, depth, in_loop)
                lines += ls
            elif k < 0.97 and self.helpers:
                f, n_ = rng.choice(self.helpers)
                lines.append('%s%s(%s)' % (ind, f, ', '.join(self.expr(env, 1) for _ in range(n_))))
            else:
                v = self.fresh()
                lines.append('%s%s = %s' % (ind, v, self.expr(env)))
                env.append(v)
        return lines, env

    def ro(self, ctx):
        """names a generated statement never rebinds: parameters, the counters of while loops and the names a
        closure has captured (python binds late: rebinding one between the definition of a closure and its call is a
        side effect on the closure, such statements are outside the equivalence clause)"""
        return set(ctx['params']) | set(ctx.get('frozen', ())) | self.captured

    def jump(self, ctx, ind):
        rng = self.rng
        kw = rng.choice(['continue', 'break', 'continue', 'break'])
        return ['%sif %s:' % (ind, self.cond(ctx['params'], ctx['tuples'])), '%s    %s' % (ind, kw)]

    def loop_tail(self, env, ctx, ind, depth):
        """the end of a loop body: sometimes one more nested loop, sometimes a jump behind everything else"""
        rng = self.rng
        lines = []
        if depth - 1 > 0 and rng.random() < 0.3:
            mk = self.while_stmt if rng.random() < 0.3 else self.for_stmt
            ls, _ = mk(env, ctx, ind, depth - 1, True)
            lines += ls
        if rng.random() < 0.4:
            lines += self.jump(ctx, ind)
        return lines

    def scope_stmt(self, env, ctx, ind, depth):
        """a statement that opens a new scope: a lambda that is called at once, a local def (with a loop and a
        jump of its own) that is called, a local class with one attribute"""
        rng = self.rng
        v = self.fresh()
        k = rng.random()
        if k < 0.45:
            a = self.expr(env, 1)
            return ['%s%s = (lambda a: a %s %d)(%s)' % (ind, v, rng.choice('+-*'), rng.randint(1, 5), a)], env + [v]
        if k < 0.85:
            self.scopes += 1
            h = 'loc%d' % self.scopes
            lines = ['%sdef %s(a):' % (ind, h)]
            if rng.random() < 0.6:
                lines += ['%s    for z9 in (1, 2, a):' % ind, '%s        if z9 > a:' % ind,
                          '%s            %s' % (ind, rng.choice(['break', 'continue'])),
                          '%s        a = a + z9' % ind]
            lines.append('%s    return a %s %d' % (ind, rng.choice('+-*'), rng.randint(1, 5)))
            lines.append('%s%s = %s(%s)' % (ind, v, h, self.expr(env, 1)))
            return lines, env + [v]
        self.scopes += 1
        h = 'Loc%d' % self.scopes
        lines = ['%sclass %s:' % (ind, h), '%s    kk = %d' % (ind, rng.randint(1, 9)),
                 '%s%s = %s.kk + %s' % (ind, v, h, self._par(self.expr(env, 1)))]
        return lines, env + [v]

    def closure_stmt(self, env, ctx, ind):
        """names of the enclosing function that are read from a NESTED scope which is entered later: a lambda / a local
        def whose body reads them as free variables (a closure), defined here and called some statements further on;
        controls: a default argument (evaluated at the definition), a parameter of the nested function that shadows
        the local, a comprehension.  Often the captured names are bound just in front of the definition, next to
        names that are used directly, so that runs of statements in front of the definition bind names whose only
        later use is inside the nested body."""
        rng = self.rng
        lines = []
        env = list(env)
        ro = self.ro(ctx)
        if rng.random() < 0.7 or not [x for x in env if x not in ro]:
            # fresh bindings in front: captured ones and direct ones, in any order
            for _ in range(rng.randint(1, 3)):
                v = self.fresh()
                lines.append('%s%s = %s' % (ind, v, self.expr(env, 1)))
                env.append(v)
        loc = [x for x in env if x not in ctx['params']] or list(env)
        recent = loc[-3:]
        free = rng.sample(recent, min(len(recent), rng.randint(1, 2)))
        self.scopes += 1
        k = rng.random()
        body_expr = 'a'
        for fv in free:
            body_expr = '%s %s %s' % (body_expr, rng.choice('+-*'), fv)
        call_arity = 1
        if k < 0.4:
            h = 'sh%d' % self.scopes
            lines.append('%s%s = lambda a: %s' % (ind, h, body_expr))
            self.captured |= set(free)
        elif k < 0.7:
            h = 'loc%d' % self.scopes
            lines.append('%sdef %s(a):' % (ind, h))
            if rng.random() < 0.5:
                lines += ['%s    if a < %s:' % (ind, free[0]), '%s        return %s' % (ind, free[-1])]
            lines.append('%s    return %s' % (ind, body_expr))
            self.captured |= set(free)
        elif k < 0.8:
            # control: read at definition time (default argument), not from the body
            h = 'loc%d' % self.scopes
            lines.append('%sdef %s(a, bb=%s):' % (ind, h, free[0]))
            lines.append('%s    return a %s bb' % (ind, rng.choice('+-*')))
        elif k < 0.9:
            # control: the parameter of the nested function shadows the local
            h = 'sh%d' % self.scopes
            lines.append('%s%s = lambda %s: %s %s %d' % (ind, h, free[0], free[0], rng.choice('+-*'), rng.randint(1, 5)))
        else:
            # a comprehension (evaluated here) whose element expression reads the locals
            v = self.fresh()
            lines.append('%s%s = [%s for a in (1, 2, %s)][%s %% 3]' % (ind, v, body_expr, self.atom(env),
                                                                    self._par(self.atom(env))))
            return lines, env + [v]
        # statements between the definition and the call: they bind fresh names only
        for _ in range(rng.randint(0, 2)):
            v = self.fresh()
            lines.append('%s%s = %s' % (ind, v, self.expr(env, 1)))
            env.append(v)
        v = self.fresh()
        call = '%s(%s)' % (h, self.expr(env, 1))
        if rng.random() < 0.3:
            call = '%s + %s' % (call, '%s(%s)' % (h, self.atom(env)))
        lines.append('%s%s = %s' % (ind, v, call))
        return lines, env + [v]

    def while_stmt(self, env, ctx, ind, depth, in_loop=False):
        """`w = 0` / `while w < N:` / `w = w + 1` first in the body (the counter is never rebound elsewhere, a
        `continue` cannot skip the increment), body with jumps, optional else"""
        rng = self.rng
        self.scopes += 1
        w = 'w%d' % self.scopes
        lines = ['%s%s = 0' % (ind, w)]
        if not [x for x in env if x not in self.ro(ctx)]:
            acc = self.fresh()
            lines.append('%s%s = %s' % (ind, acc, self.expr(env, 0)))
            env = env + [acc]
        loc = [x for x in env if x not in self.ro(ctx)]
        lines.append('%swhile %s < %d:' % (ind, w, rng.randint(1, 3)))
        sub = ind + '    '
        lines.append('%s%s = %s + 1' % (sub, w, w))
        inner = dict(ctx, frozen=list(ctx.get('frozen', ())) + [w])
        body_env = env + [w]
        acc = rng.choice(loc)
        lines.append('%s%s = %s + %s' % (sub, acc, acc, self._par(self.expr(body_env, 1))))
        ls, _ = self.block(body_env, inner, sub, depth - 1, rng.randint(1, 3), True)
        lines += ls
        lines += self.loop_tail(body_env, inner, sub, depth)
        if rng.random() < (0.35 if in_loop else 0.2):
            lines.append('%selse:' % ind)
            lines.append('%s    %s = %s' % (ind, rng.choice(loc), self.expr(env, 1)))
            if in_loop and rng.random() < 0.6:
                # the else clause of a loop is not part of that loop: a jump here belongs to the enclosing one
                lines += self.jump(ctx, ind + '    ')
        return lines, env + [w]

    def mention(self, env, v, depth=1):
        """an expression that reads `v`"""
        e = self.expr(env, depth)
        if v in e.replace('(', ' ').replace(')', ' ').replace(',', ' ').split():
            return e
        return '%s %s %s' % (v, self.rng.choice('+-*'), self._par(e))

    def branch(self, env, ctx, ind, depth, joint, in_loop, n=None, rebind=None, read=None):
        """a nested suite: rebinding / reading statements, then every `joint` name is assigned.
        rebind: a name bound in front of the statement that this branch binds anew before it reads it;
        read: a name this branch reads (its value from before the statement, unless rebound here)"""
        rng = self.rng
        lines = []
        if rebind is not None:
            others = [x for x in env if x != rebind]
            lines.append('%s%s = %s' % (ind, rebind, self.expr(others, 1)))
        ls, inner = self.block(env, ctx, ind, depth - 1, n if n is not None else rng.randint(0, 2), in_loop)
        lines += ls
        for v in joint:
            if read is not None or rebind is not None:
                lines.append('%s%s = %s' % (ind, v, self.mention(inner, read or rebind)))
            else:
                lines.append('%s%s = %s' % (ind, v, self.expr(inner)))
        tgt = [x for x in inner if x != (read or rebind) and x not in self.ro(ctx)]
        if not joint and (read or rebind) and tgt:
            lines.append('%s%s = %s' % (ind, rng.choice(tgt), self.mention(inner, read or rebind)))
        if in_loop and rng.random() < 0.12:
            lines.append('%s%s' % (ind, rng.choice(['break', 'continue'])))
        if not lines:
            lines.append('%spass' % ind)
        return lines

    def if_stmt(self, env, ctx, ind, depth, in_loop):
        rng = self.rng
        lines = []
        joint = [self.fresh()] if rng.random() < 0.6 else []
        has_else = bool(joint) or rng.random() < 0.5
        style = rng.random()
        if joint and style < 0.25:
            # the joint name is initialised in front of the statement instead of in an else branch
            lines.append('%s%s = %s' % (ind, joint[0], self.expr(env, 1)))
            has_else = rng.random() < 0.3
        # a name that some branches bind anew (and then read) while the others read the value it had in
        # front of the statement; which branch comes first in the text varies
        loc = [x for x in env if x not in self.ro(ctx)]
        shared = rng.choice(loc) if loc and rng.random() < 0.5 else None
        roles = [rng.random() < 0.5 for _ in range(3)]
        if shared is not None and not any(roles):
            roles[rng.randrange(2)] = True

        def br(k):
            if shared is None:
                return self.branch(env, ctx, ind + '    ', depth, joint, in_loop)
            if roles[k]:
                return self.branch(env, ctx, ind + '    ', depth, joint, in_loop, rebind=shared)
            return self.branch(env, ctx, ind + '    ', depth, joint, in_loop, read=shared)
        lines.append('%sif %s:' % (ind, self.cond(ctx['params'], ctx['tuples'])))
        lines += br(0)
        if rng.random() < 0.25:
            lines.append('%selif %s:' % (ind, self.cond(ctx['params'], ctx['tuples'])))
            lines += br(1)
        if has_else:
            lines.append('%selse:' % ind)
            lines += br(2)
        after = env + joint
        if shared is not None and rng.random() < 0.5:
            # ... and the possibly-rebound name is read behind the statement
            v = self.fresh()
            lines.append('%s%s = %s' % (ind, v, self.mention(after, shared)))
            after = after + [v]
        return lines, after

    def for_stmt(self, env, ctx, ind, depth, in_loop=False):
        rng = self.rng
        lines = []
        self.loopvars += 1
        i = 'ijlq'[self.loopvars % 4] + ('' if self.loopvars < 4 else str(self.loopvars))
        k = rng.random()
        maybe_empty = False
        if ctx['tuples'] and k < 0.45:
            it = rng.choice(ctx['tuples'])
            maybe_empty = True
            if rng.random() < 0.3:
                it = '%s + (%s,)' % (it, self.expr(env, 1))
                maybe_empty = False
        else:
            it = '(%s)' % ', '.join(self.expr(env, 1) for _ in range(rng.randint(2, 3)))
        pre = rng.random() < 0.35
        if pre:
            lines.append('%s%s = %s' % (ind, i, self.expr(env, 0)))
        if not [x for x in env if x not in self.ro(ctx)] or rng.random() < 0.4:
            acc = self.fresh()
            lines.append('%s%s = %s' % (ind, acc, self.expr(env, 0)))
            env = env + [acc]
        loc = [x for x in env if x not in self.ro(ctx)]
        lines.append('%sfor %s in %s:' % (ind, i, it))
        sub = ind + '    '
        body_env = env + [i]
        body = []
        if rng.random() < 0.35:
            body.append('%sif %s:' % (sub, self.cond(ctx['params'], ctx['tuples'])))
            body.append('%s    %s' % (sub, rng.choice(['continue', 'break', 'continue'])))
        acc = rng.choice(loc)
        form = rng.random()
        if form < 0.4:
            body.append('%s%s = %s + %s' % (sub, acc, acc, self._par(self.expr(body_env, 1))))
        elif form < 0.6:
            body.append('%s%s += %s' % (sub, acc, self.expr(body_env, 1)))
        elif form < 0.8:
            t = self.fresh()
            body.append('%s%s = %s + %s' % (sub, t, acc, self._par(self.expr(body_env, 1))))
            body.append('%s%s = %s * 2 %% 1000' % (sub, acc, t))
        ls, _ = self.block(body_env, ctx, sub, depth - 1, rng.randint(0 if body else 1, 3), True)
        body += ls
        body += self.loop_tail(body_env, ctx, sub, depth)
        lines += body
        if rng.random() < (0.35 if in_loop else 0.15):
            lines.append('%selse:' % ind)
            lines.append('%s    %s = %s' % (ind, rng.choice(loc), self.expr(env, 1)))
            if in_loop and rng.random() < 0.6:
                # the else clause of a loop is not part of that loop: a jump here belongs to the enclosing one
                lines += self.jump(ctx, ind + '    ')
        after = list(env)
        if pre or not maybe_empty:
            if rng.random() < 0.6:
                after.append(i)
        return lines, after

    def try_stmt(self, env, ctx, ind, depth, in_loop):
        rng = self.rng
        lines = []
        v = self.fresh()
        p = rng.choice(ctx['params'])
        sub = ind + '    '
        lines.append('%stry:' % ind)
        pre, inner = self.block(env, ctx, sub, 0, rng.randint(0, 1), in_loop) if env else ([], env)
        lines += pre
        if in_loop and rng.random() < 0.25:
            lines += self.jump(ctx, sub)
        lines.append('%s%s = %s // %s' % (sub, v, self._par(self.expr(inner, 1)), p))
        if rng.random() < 0.4:
            # after the raising point only names that are bound in front of the statement are rebound
            x = rng.choice([y_ for y_ in inner if y_ not in self.ro(ctx)] + [v])
            lines.append('%s%s = %s' % (sub, x, self.expr(inner + [v], 1)))
        lines.append('%sexcept ZeroDivisionError:' % ind)
        hb, _ = self.block(env, ctx, sub, 0, rng.randint(0, 1), in_loop) if env else ([], env)
        lines += hb
        if in_loop and rng.random() < 0.15:
            lines += self.jump(ctx, sub)
        lines.append('%s%s = %s' % (sub, v, self.expr(env, 1)))
        r = rng.random()
        if r < 0.2:
            lines.append('%selse:' % ind)
            lines.append('%s%s = %s + 1' % (sub, v, v))
        elif r < 0.4 and [x for x in env if x not in self.ro(ctx)]:
            lines.append('%sfinally:' % ind)
            lines.append('%s%s = %s' % (sub, rng.choice([x for x in env if x not in self.ro(ctx)]),
                                        self.expr(env, 1)))
        return lines, env + [v]

    # ------------------------------------------------------------ whole program
    def function(self, name, ind='', method=False):
        rng = self.rng
        params = ['p', 'q', 'c'][:rng.randint(1, 3)]
        tuples = ['t'] if rng.random() < 0.6 else []
        sig = ([] if not method else ['self']) + params + tuples
        lines = ['%sdef %s(%s):' % (ind, name, ', '.join(sig))]
        ctx = {'params': params, 'tuples': tuples, 'may_return': True}
        env = list(params)
        sub = ind + '    '
        # one or two locals in front, so that selections have something bound before them
        for _ in range(rng.randint(1, 2)):
            v = self.fresh()
            lines.append('%s%s = %s' % (sub, v, self.expr(env, 1)))
            env.append(v)
        body, env = self.block(env, ctx, sub, 2, rng.randint(3, 5))
        lines += body
        keep = [v for v in env if rng.random() < 0.85] or env[-1:]
        lines.append('%sreturn (%s,)' % (sub, ', '.join(keep)))
        return lines, {'params': params, 'tuples': tuples}

    def program(self):
        rng = self.rng
        lines = []
        if rng.random() < 0.5:
            self.glob.append('K')
            lines.append('K = %d' % rng.randint(2, 9))
            lines.append('')
        for hn in ['mix', 'twice'][:rng.randint(0, 2)]:
            ar = rng.randint(1, 2)
            ps = ['a', 'bb'][:ar]
            lines.append('def %s(%s):' % (hn, ', '.join(ps)))
            lines.append('    return %s' % self.expr(ps, 1))
            lines += ['', '']
            self.helpers.append((hn, ar))
        entries = []
        for fn in ['f', 'g2'][:1 if rng.random() < 0.7 else 2]:
            if rng.random() < 0.2:
                cls = 'Box' + fn.upper()[0]
                lines.append('class %s:' % cls)
                ls, sig = self.function(fn, '    ', method=True)
                lines += ls
                entry = '%s().%s' % (cls, fn)
            else:
                ls, sig = self.function(fn)
                lines += ls
                entry = fn
            lines += ['', '']
            entries.append({'entry': entry, 'name': fn, 'params': sig['params'], 'tuples': sig['tuples']})
        while lines and lines[-1] == '':
            lines.pop()
        return lines, entries


def gen_flow_program(rng, eol='\n'):
    """-> (source, [entry]): entry = dict(entry=<expression that evaluates to the callable>, name=<def name>,
    params=[int parameter names], tuples=[tuple parameter names])"""
    lines, entries = FlowG(rng).program()
    return eol.join(lines) + eol, entries


def flow_arguments(rng, entry, n, corners=True):
    """`n` argument tuples (as literal source text) for an entry function: corner tuples first, then random"""
    np_, nt = len(entry['params']), len(entry['tuples'])
    out = []
    seen = set()

    def add(ints, tups):
        a = tuple(ints) + tuple(tups)
        if a not in seen:
            seen.add(a)
            out.append(repr(a))
    for v in (0, 1, 2) if corners else ():
        for t in (FLOW_TUPLE_ARGS[0], FLOW_TUPLE_ARGS[2]):
            add([v] * np_, [t] * nt)
    tries = 0
    while len(out) < n and tries < 10 * n:
        tries += 1
        add([rng.choice(FLOW_INT_ARGS) for _ in range(np_)], [rng.choice(FLOW_TUPLE_ARGS) for _ in range(nt)])
    return out[:n]

"""Scopes programs: the binding skeleton of a Python program (DESIGN 5.0 Model/Scopes).

Abstract syntax (JSON-able):
  item := {"k":"bind","x":n}            n = 0
        | {"k":"use","x":n}             n            (expression statement)
        | {"k":"global","x":n}          global n
        | {"k":"nonlocal","x":n}        nonlocal n
        | {"k":"call","x":n,"n":k}      n(0, ..)     (k arguments; a use of n)
        | {"k":"def","kind":"function"|"class","name":n,"params":[..],"body":[item..]}
        | {"k":"lambda","params":[..],"x":n}   (lambda ps: n)(0,..)   -- a use of n inside a lambda scope
        | {"k":"comp","var":v,"x":n}           [n for v in [0]]       -- a use of n inside a comprehension
          optional "it": y  (+ "itf": "bare"|"paren")   [n for v in y] / [n for v in (y)]: the outermost
             iterable is a use of y in the ENCLOSING scope (evaluated there before the comprehension's
             own scope exists), whatever the loop target is called ([a for a in a])
          optional "cond": c                            [n for v in y if c]: a use of c inside the comprehension
A `def` (function), `lambda` and `lamdef` item may carry "dflt": n - the LAST parameter has the
default value `n` (`def f(p=n):`, `lambda p=n: ..`): a use of n in the ENCLOSING scope, looked up
by jedi from the start of the def / of the lambda.
A program is a module body (list of items).

Every identifier occurrence gets an id in pre-order (printing order).  Two printers:
  plain(prog)  -> (source, occs)  what jedi sees; occs[id] = dict(name, line, col, role, scope path)
  executable(prog) -> source whose bindings store tokens (name, occ id) and whose uses report the
                      token they saw: validates the Python-side spec against CPython.
"""
import random

NAMES = ['a', 'b', 'c']
FNAMES = ['f', 'g', 'h']
CNAMES = ['K', 'L']


def _occ(occs, name, role, line, col):
    occs.append({'id': len(occs), 'name': name, 'role': role, 'line': line, 'col': col})
    return len(occs) - 1


def plain(prog):
    """returns (source, occs). Positions: 1-based line, 0-based column."""
    lines = []
    occs = []

    def emit(items, ind):
        pad = '    ' * ind
        if not items:
            lines.append(pad + 'pass')
            return
        for it in items:
            k = it['k']
            ln = len(lines) + 1
            if k == 'bind':
                _occ(occs, it['x'], 'bind', ln, len(pad))
                lines.append('%s%s = 0' % (pad, it['x']))
            elif k == 'use':
                _occ(occs, it['x'], 'use', ln, len(pad))
                lines.append('%s%s' % (pad, it['x']))
            elif k == 'assign':
                _occ(occs, it['x'], 'bind', ln, len(pad))
                _occ(occs, it['y'], 'use', ln, len(pad) + len(it['x']) + 3)
                lines.append('%s%s = %s' % (pad, it['x'], it['y']))
            elif k in ('global', 'nonlocal'):
                _occ(occs, it['x'], k, ln, len(pad) + len(k) + 1)
                lines.append('%s%s %s' % (pad, k, it['x']))
            elif k == 'call':
                _occ(occs, it['x'], 'use', ln, len(pad))
                lines.append('%s%s(%s)' % (pad, it['x'], ', '.join('0' for _ in range(it['n']))))
            elif k == 'def':
                if it['kind'] == 'function':
                    head = '%sdef ' % pad
                    _occ(occs, it['name'], 'def', ln, len(head))
                    s = head + it['name'] + '('
                    for i, p in enumerate(it['params']):
                        if i:
                            s += ', '
                        _occ(occs, p, 'param', ln, len(s))
                        s += p
                    if it.get('dflt') and it['params']:
                        s += '='
                        _occ(occs, it['dflt'], 'use', ln, len(s))
                        s += it['dflt']
                    lines.append(s + '):')
                else:
                    head = '%sclass ' % pad
                    _occ(occs, it['name'], 'def', ln, len(head))
                    lines.append(head + it['name'] + ':')
                emit(it['body'], ind + 1)
            elif k == 'lambda':
                s = pad + '(lambda '
                for i, p in enumerate(it['params']):
                    if i:
                        s += ', '
                    _occ(occs, p, 'param', ln, len(s))
                    s += p
                if it.get('dflt') and it['params']:
                    s += '='
                    _occ(occs, it['dflt'], 'dflt', ln, len(s))
                    s += it['dflt']
                s += ': '
                _occ(occs, it['x'], 'use', ln, len(s))
                s += it['x'] + ')(' + ', '.join('0' for _ in it['params']) + ')'
                lines.append(s)
            elif k == 'lamdef':
                # name = lambda params: x      (a lambda that is called later)
                _occ(occs, it['name'], 'bind', ln, len(pad))
                s = pad + it['name'] + ' = lambda '
                for i, p in enumerate(it['params']):
                    if i:
                        s += ', '
                    _occ(occs, p, 'param', ln, len(s))
                    s += p
                if it.get('dflt') and it['params']:
                    s += '='
                    _occ(occs, it['dflt'], 'dflt', ln, len(s))
                    s += it['dflt']
                s += ': '
                _occ(occs, it['x'], 'use', ln, len(s))
                s += it['x']
                lines.append(s)
            elif k == 'comp':
                s = pad + '['
                _occ(occs, it['x'], 'use', ln, len(s))
                s += it['x'] + ' for '
                _occ(occs, it['var'], 'bind', ln, len(s))
                s += it['var'] + ' in '
                if it.get('it'):
                    if it.get('itf') == 'paren':
                        s += '('
                    _occ(occs, it['it'], 'use', ln, len(s))
                    occs[-1]['part'] = 'iter'
                    s += it['it']
                    if it.get('itf') == 'paren':
                        s += ')'
                else:
                    s += '[0]'
                if it.get('cond'):
                    s += ' if '
                    _occ(occs, it['cond'], 'use', ln, len(s))
                    occs[-1]['part'] = 'cond'
                    s += it['cond']
                s += ']'
                lines.append(s)
            else:
                raise ValueError(k)
    emit(prog, 0)
    return '\n'.join(lines) + '\n', occs


def executable(prog):
    """Same scoping structure; bindings store ('name', occ_id); every use reports what it saw via
    _u(occ_id, value). A use that raises NameError reports _UNBOUND. Returns source."""
    lines = []
    counter = [0]

    def nid():
        counter[0] += 1
        return counter[0] - 1

    def emit(items, ind):
        pad = '    ' * ind
        if not items:
            lines.append(pad + 'pass')
            return
        for it in items:
            k = it['k']
            if k == 'bind':
                i = nid()
                lines.append('%s%s = (%r, %d)' % (pad, it['x'], it['x'], i))
            elif k == 'use':
                i = nid()
                lines.append('%stry: _u(%d, %s)' % (pad, i, it['x']))
                lines.append('%sexcept NameError: _u(%d, _UNBOUND)' % (pad, i))
            elif k == 'assign':
                bi = nid()
                i = nid()
                lines.append('%stry: _u(%d, %s)' % (pad, i, it['y']))
                lines.append('%sexcept NameError: _abort(%d)' % (pad, i))
                lines.append('%selse: %s = (%r, %d)' % (pad, it['x'], it['x'], bi))
            elif k in ('global', 'nonlocal'):
                nid()
                lines.append('%s%s %s' % (pad, k, it['x']))
            elif k == 'call':
                i = nid()
                args = ', '.join("('<arg>', %d)" % i for _ in range(it['n']))
                lines.append('%stry: _c(%d, %s)(%s)' % (pad, i, it['x'], args))
                lines.append('%sexcept NameError: _u(%d, _UNBOUND)' % (pad, i))
                lines.append('%sexcept TypeError: pass' % pad)
            elif k == 'def':
                i = nid()
                if it['kind'] == 'function':
                    pids = [nid() for _ in it['params']]
                    ps = ', '.join(it['params'])
                    if it.get('dflt') and it['params']:
                        di = nid()
                        lines.append('%stry: _d%d = _u(%d, %s)' % (pad, di, di, it['dflt']))
                        lines.append('%sexcept NameError: _abort(%d)' % (pad, di))
                        ps += '=_d%d' % di
                    lines.append('%sdef %s(%s):' % (pad, it['name'], ps))
                    # parameters are rebound to tokens naming the parameter occurrence
                    for p, pi in zip(it['params'], pids):
                        lines.append('%s    %s = (%r, %d)' % (pad, p, p, pi))
                    emit(it['body'], ind + 1)
                    lines.append('%s%s.__occ__ = %d' % (pad, it['name'], i))
                else:
                    lines.append('%sclass %s:' % (pad, it['name']))
                    emit(it['body'], ind + 1)
                    lines.append('%s%s.__occ__ = %d' % (pad, it['name'], i))
            elif k == 'lambda':
                pids = [nid() for _ in it['params']]
                ps = ', '.join(it['params'])
                if it.get('dflt') and it['params']:
                    di = nid()
                    lines.append('%stry: _d%d = _u(%d, %s)' % (pad, di, di, it['dflt']))
                    lines.append('%sexcept NameError: _abort(%d)' % (pad, di))
                    ps += '=_d%d' % di
                i = nid()
                args = ', '.join('(%r, %d)' % (p, pi) for p, pi in zip(it['params'], pids))
                lines.append('%stry: (lambda %s: _u(%d, %s))(%s)'
                             % (pad, ps, i, it['x'], args))
                lines.append('%sexcept NameError: _u(%d, _UNBOUND)' % (pad, i))
            elif k == 'lamdef':
                bi = nid()
                pids = [nid() for _ in it['params']]
                ps0 = ', '.join(it['params'])
                if it.get('dflt') and it['params']:
                    di = nid()
                    lines.append('%stry: _d%d = _u(%d, %s)' % (pad, di, di, it['dflt']))
                    lines.append('%sexcept NameError: _abort(%d)' % (pad, di))
                    ps0 += '=_d%d' % di
                i = nid()
                # parameters are rebound to their own tokens through default-free wrappers
                ps = ', '.join(it['params'])
                toks = ', '.join('_tok(%s, %r, %d)' % (p_, p_, pi) for p_, pi in zip(it['params'], pids))
                # the inner lambda only re-labels the arguments with the parameter occurrences; a
                # nested function scope is transparent for the lookup of every other name
                lines.append('%s%s = lambda %s: (lambda %s: _u(%d, %s))(%s)'
                             % (pad, it['name'], ps0, ps, i, it['x'], toks))
                lines.append('%s%s.__occ__ = %d' % (pad, it['name'], bi))
            elif k == 'comp':
                i = nid()
                vi = nid()
                if it.get('it'):
                    # the iterable stays where it is (Python decides in which scope it is evaluated);
                    # _it reports the value it saw and hands out the loop variable's token
                    yi = nid()
                    itx = '_it(%d, %s, (%r, %d))' % (yi, it['it'] if it.get('itf') != 'paren' else '(%s)' % it['it'],
                                                     it['var'], vi)
                else:
                    yi = -1
                    itx = '[(%r, %d)]' % (it['var'], vi)
                cond = ''
                ci = -1
                if it.get('cond'):
                    ci = nid()
                    cond = ' if _cd(%d, %s)' % (ci, it['cond'])
                lines.append('%stry: [_u(%d, %s) for %s in %s%s]'
                             % (pad, i, it['x'], it['var'], itx, cond))
                # a NameError comes from the iterable (the program stops), the condition (stops: the
                # element is never evaluated) or the element
                lines.append('%sexcept NameError: _ce(%d, %d, %d)' % (pad, yi, ci, i))
    emit(prog, 0)
    return '\n'.join(lines) + '\n'


UNBOUND = ('<unbound>', -1)


class _Abort(BaseException):
    pass


def run_executable(prog, occs):
    """Executes the program; returns {use occ id: set of tokens seen} (token = binding occ id,
    -1 for unbound, -2 for a value that is not a binding token (function/class object))."""
    src = executable(prog)
    seen = {}
    defs_by_obj = {}

    def _u(i, v):
        if v is UNBOUND:
            seen.setdefault(i, set()).add(-1)
        elif isinstance(v, tuple) and len(v) == 2 and isinstance(v[1], int):
            seen.setdefault(i, set()).add(v[1])
        elif isinstance(getattr(v, '__occ__', None), int):
            seen.setdefault(i, set()).add(v.__occ__)
        else:
            seen.setdefault(i, set()).add(-2)
        return v

    def _c(i, v):
        _u(i, v)
        return v
    def _tok(v, name, pid):
        # whatever reaches a parameter (an argument marker or a default value) is read through
        # the parameter: a use of the parameter sees the parameter's own token
        return (name, pid)

    flags = set()

    def _it(i, v, tok):
        _u(i, v)
        flags.add(i)
        return [tok]

    def _cd(i, v):
        _u(i, v)
        flags.add(i)
        return 1

    def _ce(yi, ci, i):
        # NameError inside a comprehension statement: which part raised it?
        y_ok = yi < 0 or yi in flags
        c_ok = ci < 0 or ci in flags
        flags.discard(yi)
        flags.discard(ci)
        if not y_ok:
            _abort(yi)
        if not c_ok:
            _abort(ci)
        _u(i, UNBOUND)

    def _abort(i):
        # an assignment whose right-hand side is unbound: the real program stops here with
        # NameError; the binding does not happen.  The program is not an executable program.
        seen.setdefault(i, set()).add(-1)
        raise _Abort()
    g = {'_u': _u, '_c': _c, '_tok': _tok, '_abort': _abort, '_it': _it, '_cd': _cd, '_ce': _ce, '_UNBOUND': UNBOUND, '__name__': '__scopes__'}
    import sys
    old = sys.getrecursionlimit()
    sys.setrecursionlimit(200)
    try:
        exec(compile(src, '<scopes>', 'exec'), g)
        err = None
    except _Abort:
        err = 'aborted'
    except RecursionError:
        err = 'RecursionError'
    except Exception as e:   # e.g. TypeError when a call hits a non-callable token
        err = type(e).__name__
    finally:
        sys.setrecursionlimit(old)
    return seen, err, src


# ------------------------------------------------------------------ generation

def gen_items(rng, depth, kind, budget, allow):
    """kind: 'module' | 'function' | 'class' """
    items = []
    pending = []      # calls issued later in the same body
    n = rng.randint(1, 4 if depth else 5)
    for _ in range(n):
        if pending and rng.random() < 0.4:
            items.append(pending.pop(0))
        if budget[0] <= 0:
            break
        budget[0] -= 1
        r = rng.random()
        if r < 0.08 and 'assign' in allow:
            items.append({'k': 'assign', 'x': rng.choice(NAMES), 'y': rng.choice(NAMES)})
        elif r < 0.30:
            items.append({'k': 'bind', 'x': rng.choice(NAMES)})
        elif r < 0.58:
            items.append({'k': 'use', 'x': rng.choice(NAMES)})
        elif r < 0.66 and kind != 'module':
            items.append({'k': 'global', 'x': rng.choice(NAMES)})
        elif r < 0.72 and kind != 'module' and depth >= 2:
            items.append({'k': 'nonlocal', 'x': rng.choice(NAMES)})
        elif r < 0.90 and (depth < 3 or (depth == 3 and kind == 'class')):
            # (one level deeper inside a class body: class > class > function is where
            # `FunctionValue.from_context` has to skip SEVERAL enclosing classes)
            if rng.random() < 0.7 or depth == 3:
                name = rng.choice(FNAMES + NAMES[:1])
                params = rng.sample(NAMES, rng.choice([0, 0, 1, 2]))
                body = gen_items(rng, depth + 1, 'function', budget, allow)
                items.append({'k': 'def', 'kind': 'function', 'name': name, 'params': params, 'body': body})
                if params and 'dflt' in allow and rng.random() < 0.4:
                    items[-1]['dflt'] = rng.choice(NAMES)
                r2 = rng.random()
                if r2 < 0.5:
                    items.append({'k': 'call', 'x': name, 'n': len(params)})
                elif r2 < 0.9:
                    pending.append({'k': 'call', 'x': name, 'n': len(params)})
            else:
                name = rng.choice(CNAMES)
                body = gen_items(rng, depth + 1, 'class', budget, allow)
                items.append({'k': 'def', 'kind': 'class', 'name': name, 'params': [], 'body': body})
        elif r < 0.95 and 'lambda' in allow:
            if rng.random() < 0.5:
                items.append({'k': 'lambda', 'params': rng.sample(NAMES, rng.choice([0, 1, 1, 2]) if 'ldflt' in allow
                                                                  else rng.choice([0, 1])),
                              'x': rng.choice(NAMES)})
                if items[-1]['params'] and 'ldflt' in allow and rng.random() < 0.5:
                    items[-1]['dflt'] = rng.choice(NAMES)
            else:
                name = rng.choice(FNAMES)
                params = rng.sample(NAMES, rng.choice([0, 0, 1]))
                items.append({'k': 'lamdef', 'name': name, 'params': params, 'x': rng.choice(NAMES)})
                if 'ldflt' in allow:
                    if not params and rng.random() < 0.5:
                        items[-1]['params'] = params = rng.sample(NAMES, rng.choice([1, 2]))
                    if params and rng.random() < 0.6:
                        items[-1]['dflt'] = rng.choice(NAMES)
                pending.append({'k': 'call', 'x': name, 'n': len(params)})
        elif 'comp' in allow:
            items.append({'k': 'comp', 'var': rng.choice(NAMES), 'x': rng.choice(NAMES)})
            if 'compit' in allow and rng.random() < 0.7:
                # the iterable is a name; half of the time the loop target's own name
                items[-1]['it'] = items[-1]['var'] if rng.random() < 0.5 else rng.choice(NAMES)
                if rng.random() < 0.3:
                    items[-1]['itf'] = 'paren'
        else:
            items.append({'k': 'use', 'x': rng.choice(NAMES)})
    items.extend(pending)
    return items


def gen_program(rng, size=14, allow=('lambda', 'comp', 'assign'), prelude=0.6):
    for _ in range(200):
        prog = gen_items(rng, 0, 'module', [size], allow)
        if rng.random() < prelude:
            # most real programs bind what they use: start with module-level bindings
            prog = [{'k': 'bind', 'x': x} for x in NAMES if rng.random() < 0.8] + prog
        src, occs = plain(prog)
        try:
            compile(src, '<gen>', 'exec')
        except SyntaxError:
            continue
        return prog
    return [{'k': 'bind', 'x': 'a'}, {'k': 'use', 'x': 'a'}]


def enumerate_small(max_items, names=('a', 'b'), allow_def=True):
    """all module bodies with <= max_items items in total over a small alphabet (exhaustive stream)"""
    atoms = []
    for x in names:
        atoms += [{'k': 'bind', 'x': x}, {'k': 'use', 'x': x}]
    atoms += [{'k': 'assign', 'x': names[0], 'y': names[0]}, {'k': 'assign', 'x': names[0], 'y': names[-1]}]

    def bodies(n, kind, depth):
        # yields lists of items with exactly n items in total
        if n == 0:
            yield []
            return
        extra = []
        if kind != 'module':
            for x in names:
                extra.append({'k': 'global', 'x': x})
                if depth >= 2:
                    extra.append({'k': 'nonlocal', 'x': x})
        calls = [{'k': 'call', 'x': 'f', 'n': 0}] if allow_def and depth < 2 else []
        for first in atoms + extra + calls:
            for rest in bodies(n - 1, kind, depth):
                yield [first] + rest
        if allow_def and depth < 2:
            for m in range(1, n):
                for k2 in ('function', 'class'):
                    for inner in bodies(m, k2, depth + 1):
                        for rest in bodies(n - 1 - m, kind, depth):
                            if k2 == 'function':
                                d = {'k': 'def', 'kind': 'function', 'name': 'f', 'params': [], 'body': inner}
                                yield [d] + rest
                            else:
                                yield [{'k': 'def', 'kind': 'class', 'name': 'K', 'params': [], 'body': inner}] + rest
    for n in range(1, max_items + 1):
        for b in bodies(n, 'module', 0):
            src, _ = plain(b)
            try:
                compile(src, '<gen>', 'exec')
            except SyntaxError:
                continue
            yield b


# ------------------------------------------------------------------ flat table for the Lean model

KINDS = {'module': 0, 'function': 1, 'class': 2, 'lambda': 3, 'comp': 4}
ROLES = {'bind': 0, 'use': 1, 'global': 2, 'nonlocal': 3, 'param': 4, 'def': 5, 'dflt': 6}


def flat(prog):
    """returns dict(scopes=[[kind, parent, defOcc]], occs=[[nameIdx, role, scope, stmtStart]], names=[...]).
    stmtStart = index of the first occurrence of the enclosing assignment statement (jedi looks names up
    from the start of the expr_stmt), else the occurrence's own index.
    Occurrence order = the order of `plain` (pre-order)."""
    names = []

    def nm(x):
        if x not in names:
            names.append(x)
        return names.index(x)
    scopes = [[KINDS['module'], 0, -1]]
    occs = []

    def walk(items, s):
        for it in items:
            k = it['k']
            if k in ('bind', 'use', 'global', 'nonlocal'):
                occs.append([nm(it['x']), ROLES[k], s, len(occs)])
            elif k == 'assign':
                occs.append([nm(it['x']), ROLES['bind'], s, len(occs)])
                occs.append([nm(it['y']), ROLES['use'], s, len(occs) - 1])
            elif k == 'call':
                occs.append([nm(it['x']), ROLES['use'], s, len(occs)])
            elif k == 'def':
                d = len(occs)
                occs.append([nm(it['name']), ROLES['def'], s, len(occs)])
                scopes.append([KINDS[it['kind']], s, d])
                t = len(scopes) - 1
                for p in it['params']:
                    occs.append([nm(p), ROLES['param'], t, len(occs)])
                if it.get('dflt') and it['params']:
                    # a use in the ENCLOSING scope, looked up from the start of the def
                    occs.append([nm(it['dflt']), ROLES['use'], s, d])
                walk(it['body'], t)
            elif k == 'lambda':
                scopes.append([KINDS['lambda'], s, -1])
                t = len(scopes) - 1
                first = len(occs)
                for p in it['params']:
                    occs.append([nm(p), ROLES['param'], t, len(occs)])
                if it.get('dflt') and it['params']:
                    # Python: a use in the ENCLOSING scope; jedi: looked up from the lambda's OWN
                    # context, limited to the start of the lambda (model role dfltUse)
                    occs.append([nm(it['dflt']), ROLES['dflt'], t, first])
                occs.append([nm(it['x']), ROLES['use'], t, len(occs)])
            elif k == 'lamdef':
                occs.append([nm(it['name']), ROLES['bind'], s, len(occs)])
                scopes.append([KINDS['lambda'], s, -1])
                t = len(scopes) - 1
                first = len(occs)
                for p in it['params']:
                    occs.append([nm(p), ROLES['param'], t, len(occs)])
                if it.get('dflt') and it['params']:
                    # Python: a use in the ENCLOSING scope; jedi: looked up from the lambda's OWN
                    # context, limited to the start of the lambda (model role dfltUse)
                    occs.append([nm(it['dflt']), ROLES['dflt'], t, first])
                occs.append([nm(it['x']), ROLES['use'], t, len(occs)])
            elif k == 'comp':
                scopes.append([KINDS['comp'], s, -1])
                t = len(scopes) - 1
                occs.append([nm(it['x']), ROLES['use'], t, len(occs)])
                occs.append([nm(it['var']), ROLES['bind'], t, len(occs)])
                if it.get('it'):
                    # the outermost iterable: a use in the ENCLOSING scope (Python: evaluated before
                    # the comprehension scope is entered; jedi: create_context returns the parent
                    # context for it - Model/CompCtx, stream compctx)
                    parts.append([len(occs), 'iter+cond' if it.get('cond') else 'iter'])
                    occs.append([nm(it['it']), ROLES['use'], s, len(occs)])
                if it.get('cond'):
                    parts.append([len(occs), 'cond'])
                    occs.append([nm(it['cond']), ROLES['use'], t, len(occs)])
    parts = []
    walk(prog, 0)
    return {'scopes': scopes, 'occs': occs, 'names': names, 'compparts': parts}


def has_cond(prog):
    for it in prog:
        if it['k'] == 'comp' and it.get('cond'):
            return True
        if it['k'] == 'def' and has_cond(it['body']):
            return True
    return False


def enumerate_comp_iter(conds=False):
    """every comprehension `[x for v in y]` / `[x for v in (y)]` (with conds: `.. if c`) over names
    {a, b} in every kind of enclosing scope (module, function, class body, nested function, method)
    with both names bound at module level and optionally rebound in the enclosing scopes: the
    loop-target / element / iterable / condition name coincidences exhaustively"""
    names = ('a', 'b')
    B = lambda x: {'k': 'bind', 'x': x}
    F = lambda name, body: {'k': 'def', 'kind': 'function', 'name': name, 'params': [], 'body': body}
    C = lambda name, body: {'k': 'def', 'kind': 'class', 'name': name, 'params': [], 'body': body}
    call = lambda f: {'k': 'call', 'x': f, 'n': 0}
    pre = [B('a'), B('b')]
    for v in names:
        for x in names:
            for y in names:
                for itf in ('bare', 'paren'):
                    for c in (names if conds else (None,)):
                        comp = {'k': 'comp', 'var': v, 'x': x, 'it': y, 'itf': itf}
                        if c:
                            comp['cond'] = c
                        yield pre + [comp]
                        for rebind in ([], [B('a')], [B('a'), B('b')]):
                            yield pre + [F('f', rebind + [comp]), call('f')]
                            yield pre + [C('K', rebind + [comp])]
                            yield pre + [F('f', rebind + [F('g', [comp]), call('g')]), call('f')]
                            yield pre + [F('f', [B('b')] + [F('g', rebind + [comp]), call('g')]), call('f')]
                            yield pre + [C('K', rebind + [F('g', [comp]), call('g')])]
                        # the iterable's name is bound only AFTER the comprehension in the function:
                        # a local, unbound at run time (no claim), never the module's
                        yield pre + [F('f', [comp, B(y)]), call('f')]

"""Random terminating programs over the documented feature list of jedi for the direct C02 oracle
(stream `flow`), and the runner that executes them.

What is generated (gen_program): straight-line and *flow* code at module level and inside
functions - for loops over tuple/list literals, known sequences, generator calls, comprehensions,
generator expressions and `__iter__` holders; generator functions whose yields sit in the top-level
for (the case jedi unrolls iteration by iteration), behind nested for/if/with/try blocks and
intermediate locals, or anywhere (the case jedi answers with the union of the yields); if/else with
always-true, `1`/`0` and isinstance tests; with (`__enter__`); try/except/finally with and
without a raise; while/break; augmented assignment through `__add__` inside for loops; nested
functions, closures, lambdas, default arguments; decorators that return the function;
property/staticmethod/classmethod; `__getitem__`/`__call__`/`__iter__`/`__enter__`; single
inheritance; tuple/list/dict literals, constant indexing, (nested) tuple unpacking; holder objects
created by the constructor or by the (for H9: inherited) classmethod `H.mk(..)` and probed
themselves (soundness only).  Class families with descriptor binding through inheritance are the
business of gen/descbind.py (same probe convention, same runner).

Values are instances of the tiny classes V0..V5 (typeshed is empty in this sandbox: no True/False/
None, no builtin call results, no str/int methods).  Every probed expression is first assigned to a
fresh name `tN` and that name then stands alone on the next line, so `Script.infer(line, column)` is
well defined.

Discipline that keeps the programs inside what jedi documents as supported (so the oracle can demand
soundness everywhere):
  * a name is never re-assigned inside a loop in which it has been read before (no loop-carried
    reads: jedi resolves names by position), and never once a nested function reads it;
  * names are only read where they are definitely assigned;
  * no recursion; every function has few call sites, sequences have <= 3 elements (jedi gives up
    after 6 executions of one function / 300 inferences of one node);
  * probes are only placed where no parameter is in scope (what a parameter holds *inside* the
    function is the business of the dynamic parameter search, property C16);
  * attributes are only written through `self` in `__init__`; derived classes define no `__init__`;
  * inside a for loop that may run zero times (over a generator whose yields are conditional)
    nothing bound before the loop is re-bound (jedi takes the suite of a `for` for certainly
    executed: known finding, reproducer in the corpus);
  * a name re-assigned in a straight line inside a nested suite carries no exactness claim once the
    suite is left (jedi keeps reporting the shadowed definition after if/while/try suites: known
    finding, reproducer in corpus/C02/flow-regressions.json);
  * no named function / class is applied to a value that has itself passed through that function /
    class (`f(f(x))`, `y = f(x); f(y)`, `H(H(x).c)`): the generator keeps, for every value, the set
    of named callables it may have passed through (`prov`) and for every function what its body
    uses.  A small share of the programs (`selfnest`) lifts this restriction on purpose: there jedi's
    statement-recursion guard fires without any recursion in the program (known finding).

Exactness (`exact` of a probe): the generator tracks for every expression whether exactly one
creation site `Vk()` can reach it through *straight* constructs only (assignment, constant indexing
of a literal, unpacking of a literal, call of a function/lambda/method whose body is straight,
attribute of a holder) - no loop, branch, generator, comprehension or re-assignment in a nested
block in between.  Only there the oracle demands that infer reports exactly that class.
"""
import ast
import re
import sys

NVAL = 6
PROBE = re.compile(r'^t\d+$')
MODNAME = '__flowprog__'


# ---------------------------------------------------------------------------------- runner

def probes_of(src):
    """[(line, column, name)] of every probe statement (`tN` alone on its line)"""
    out = []
    for n in ast.walk(ast.parse(src)):
        if isinstance(n, ast.Expr) and isinstance(n.value, ast.Name) and PROBE.match(n.value.id):
            out.append((n.lineno, n.col_offset, n.value.id))
    return sorted(out)


class _Instrument(ast.NodeTransformer):
    def visit_Expr(self, n):
        if isinstance(n.value, ast.Name) and PROBE.match(n.value.id):
            call = ast.Call(func=ast.Name(id='__rec__', ctx=ast.Load()),
                            args=[ast.Constant(n.lineno), ast.Name(id=n.value.id, ctx=ast.Load())],
                            keywords=[])
            return ast.copy_location(ast.Expr(value=ast.copy_location(call, n)), n)
        return n


class _Budget(Exception):
    pass


def run(src, max_lines=400000):
    """Executes the program; returns ({probe line: [[kind, class name, class line], ..]}, error).
    kind: 'instance' (instance of a class of the program), 'class' (a class of the program itself),
    'other'.  The set is collected over the WHOLE run (a probe in a loop / function sees many
    values)."""
    tree = ast.parse(src)
    cls_line = {}
    dup = set()
    for n in ast.walk(tree):
        if isinstance(n, ast.ClassDef):
            if n.name in cls_line:
                dup.add(n.name)
            cls_line[n.name] = n.lineno
    tree = ast.fix_missing_locations(_Instrument().visit(tree))
    seen = {}

    def rec(line, v):
        t = type(v)
        if isinstance(v, type) and getattr(v, '__module__', None) == MODNAME and v.__name__ in cls_line \
                and v.__name__ not in dup:
            k = ['class', v.__name__, cls_line[v.__name__]]
        elif getattr(t, '__module__', None) == MODNAME and t.__name__ in cls_line and t.__name__ not in dup:
            k = ['instance', t.__name__, cls_line[t.__name__]]
        else:
            k = ['other', t.__name__, None]
        s = seen.setdefault(line, [])
        if k not in s:
            s.append(k)
    count = [0]

    def tracer(frame, event, arg):
        if frame.f_code.co_filename != '<flowprog>':
            return None
        count[0] += 1
        if count[0] > max_lines:
            raise _Budget('step budget exhausted')
        return tracer
    g = {'__rec__': rec, '__name__': MODNAME}
    err = None
    code = compile(tree, '<flowprog>', 'exec')
    old = sys.gettrace()
    sys.settrace(tracer)
    try:
        exec(code, g)
    except BaseException as e:      # noqa: the program's own exception ends the run, what was seen counts
        err = '%s: %s' % (type(e).__name__, e)
    finally:
        sys.settrace(old)
    return {str(k): sorted(v) for k, v in seen.items()}, err


# ------------------------------------------------------------------------------- generator

NONE = frozenset()
HOT = frozenset(['~'])     # pseudo provenance: the value varies (derives from a loop variable / parameter)


class Var:
    __slots__ = ('kind', 'x', 'n', 'xs', 'frozen', 'reads', 'block', 'sig', 'calls', 'prov', 'shadow')

    def __init__(self, kind, x=None, n=0, xs=None, block=0, sig=None, prov=NONE):
        self.kind = kind      # 'I' value, 'T' sequence of values, 'O' holder, 'F' function, 'G' generator function
        self.x = x            # exactness info of an 'I' / content of an 'O': class name | ('param', i) | None
        self.n = n            # length of a 'T'
        self.xs = xs          # per-element exactness of a literal 'T'
        self.frozen = False   # read by a nested function: never re-assigned
        self.reads = set()    # ids of the loops inside which it has been read
        self.block = block    # id of the block of its (single) assignment
        self.sig = sig        # 'F': dict(params=[kinds], ret=x, uses=set) / 'G': dict(one=bool, per=n, uses=set)
        self.calls = 0
        self.shadow = None    # id of the nested suite in which it was re-assigned in a straight line
        self.prov = frozenset(prov)   # named callables the value(s) may have passed through


class Scope:
    def __init__(self, parent, kind, has_params):
        self.parent = parent
        self.kind = kind                  # 'module' | 'func' | 'gen'
        self.has_params = has_params or (parent is not None and parent.has_params)
        self.vars = {}
        self.loops = []                   # open loop ids, innermost last
        self.block = 0
        self.locked = set()               # names that may not be re-assigned in the current suite


class Prog:
    def __init__(self, rng, size):
        self.rng = rng
        self.lines = []
        self.k = 0
        self.nprobe = 0
        self.nloop = 0
        self.nblock = 0
        self.size = size
        self.holders = []
        self.decos = []
        self.features = set()
        self.probe_info = {}
        self.uses_stack = []              # one set per function body being generated
        self.selfnest = rng.random() < 0.08
        self.nested = False               # a self-nested application was really generated

    # -- small helpers
    def fresh(self, p):
        self.k += 1
        return '%s%d' % (p, self.k)

    def emit(self, ind, text):
        self.lines.append('    ' * ind + text)

    def chance(self, p):
        return self.rng.random() < p

    def visible(self, sc, kind, pred=None):
        """[(name, var, owner scope)] readable at this point"""
        out = []
        got = set()
        s = sc
        while s is not None:
            for n, v in s.vars.items():
                if v.kind == kind and n not in got and (pred is None or pred(v)):
                    got.add(n)
                    out.append((n, v, s))
            s = s.parent
        return out

    def read(self, sc, name, var, owner):
        if owner is sc:
            var.reads.update(sc.loops)
        else:
            var.frozen = True
        self.note(var.prov)
        return name

    def note(self, prov):
        """everything a function body touches ends up in the `uses` of the function"""
        for u in self.uses_stack:
            u.update(prov - HOT)

    def may_apply(self, callee_uses, *arg_provs):
        """may a callable with these `uses` be applied to arguments with these provenances?"""
        hit = any(callee_uses & p for p in arg_provs)
        if hit and self.selfnest:
            self.nested = True
            return True
        return not hit

    def applied(self, callee_uses, *arg_provs):
        out = set(callee_uses)
        for p in arg_provs:
            out |= p
        self.note(out)
        return frozenset(out)

    @staticmethod
    def xof(sc, owner, x):
        """exactness info as seen from scope sc: `('param', i)` only means something inside the
        function that owns the parameter"""
        if owner is not sc and isinstance(x, tuple):
            return None
        return x

    def bind(self, sc, name, var):
        var.block = sc.block
        sc.vars[name] = var

    def pick_holder(self, *arg_provs):
        """a holder class that may wrap values of these provenances, or None"""
        hs = [h for h in self.holders if self.may_apply(self.holder_uses(h), *arg_provs)]
        return self.rng.choice(hs) if hs else None

    @staticmethod
    def holder_uses(h):
        return frozenset(['H0']) if h in ('H0', 'H9') else frozenset([h])

    # -- the classes every program starts with
    def prelude(self):
        r = self.rng
        base = ''
        if self.chance(0.5):
            self.emit(0, 'class Base:')
            self.emit(1, 'def __add__(self, other):')
            self.emit(2, 'return other')
            base = '(Base)'
            self.has_add = True
        else:
            self.has_add = False
        for i in range(NVAL):
            self.emit(0, 'class V%d%s: pass' % (i, base))
        self.emit(0, 'class E0(Exception): pass')
        for h in range(r.randint(1, 2)):
            self.holder('H%d' % h)
        if self.chance(0.5):
            self.emit(0, 'class H9(H0):')
            # overrides only use `self.c` (no cycle through the base's accessors)
            which = r.choice(['pass', 'get', 'p', 'getitem'])
            if which == 'pass':
                self.emit(1, 'pass')
            elif which == 'get':
                self.emit(1, 'def get(self):')
                self.emit(2, 'r = self.c')
                self.emit(2, 'return r')
            elif which == 'p':
                self.emit(1, '@property')
                self.emit(1, 'def p(self):')
                self.emit(2, 'return (self.c,)[0]')
            else:
                self.emit(1, 'def __getitem__(self, i):')
                self.emit(2, 'w = self.c')
                self.emit(2, 'return w')
            self.holders.append('H9')
            self.features.add('inheritance')
        if self.chance(0.6):
            self.emit(0, 'class P0:')
            self.emit(1, 'def __init__(self, a, b):')
            self.emit(2, 'self.a = a')
            self.emit(2, 'self.b = b')
            self.emit(1, 'def swap(self):')
            self.emit(2, 'return P0(self.b, self.a)')
            self.has_pair = True
        else:
            self.has_pair = False
        for d in range(r.randint(0, 2)):
            name = 'deco%d' % d
            self.emit(0, 'def %s(fn):' % name)
            if self.chance(0.5):
                self.emit(1, 'return fn')
            else:
                self.emit(1, 'keep = fn')
                self.emit(1, 'return keep')
            self.decos.append(name)

    def holder(self, name):
        r = self.rng
        self.emit(0, 'class %s:' % name)
        self.emit(1, 'def __init__(self, c):')
        if self.chance(0.3):
            self.emit(2, 'k = c')
            self.emit(2, 'self.c = k')
        else:
            self.emit(2, 'self.c = c')
        self.emit(1, 'def get(self):')
        v = r.randrange(3)
        if v == 0:
            self.emit(2, 'return self.c')
        elif v == 1:
            self.emit(2, 'r = self.c')
            self.emit(2, 'return r')
        else:
            self.emit(2, 'for q in (self.c,):')
            self.emit(3, 'r = q')
            self.emit(2, 'return r')
        self.emit(1, '@property')
        self.emit(1, 'def p(self):')
        self.emit(2, 'return ' + r.choice(['self.c', 'self.get()']))
        self.emit(1, '@staticmethod')
        self.emit(1, 'def s(a):')
        self.emit(2, 'return a')
        self.emit(1, '@classmethod')
        self.emit(1, 'def mk(cls, a):')
        self.emit(2, 'return ' + r.choice(['cls(a)', '%s(a)' % name]))
        self.emit(1, 'def __getitem__(self, i):')
        self.emit(2, 'return ' + r.choice(['self.c', 'self.p']))
        self.emit(1, 'def __call__(self):')
        self.emit(2, 'return ' + r.choice(['self.c', 'self.get()']))
        self.emit(1, 'def __iter__(self):')
        v = r.randrange(3)
        if v == 0:
            self.emit(2, 'yield self.c')
        elif v == 1:
            self.emit(2, 'for q in (self.c,):')
            self.emit(3, 'yield q')
        else:
            self.emit(2, 'for q in (self.c,):')
            self.emit(3, 'if q:')
            self.emit(4, 'w = q')
            self.emit(3, 'yield w')
        self.emit(1, 'def __enter__(self):')
        self.emit(2, 'return ' + r.choice(['self.c', 'self.get()']))
        self.emit(1, 'def __exit__(self, *a):')
        self.emit(2, 'pass')
        self.holders.append(name)

    # -- expressions of kind I: returns (text, x, prov)
    def expr(self, sc, depth=0):
        r = self.rng
        names = self.visible(sc, 'I')
        opts = []
        if names:
            opts += ['name'] * 6
        opts += ['fresh'] * (2 if names else 6)
        fs = []
        if depth < 2:
            if self.visible(sc, 'T'):
                opts += ['index'] * 2 + ['comp']
            if self.visible(sc, 'O'):
                opts += ['hold'] * 2
            fs = [f for f in self.visible(sc, 'F') if f[1].calls < 3]
            if fs:
                opts += ['call'] * 3
            opts += ['newhold', 'lit', 'lambda', 'tern', 'static']
            if self.has_pair:
                opts += ['pair']
            if self.has_add:
                opts += ['add']
        k = r.choice(opts)
        if k == 'name':
            hot = [x for x in names if x[1].prov & HOT]
            n, v, o = r.choice(hot if hot and self.chance(0.6) else names)
            return self.read(sc, n, v, o), self.xof(sc, o, v.x), v.prov
        if k == 'fresh':
            c = 'V%d' % r.randrange(NVAL)
            return c + '()', c, NONE
        if k == 'index':
            n, v, o = r.choice(self.visible(sc, 'T'))
            i = r.randrange(v.n)
            self.features.add('index')
            return '%s[%d]' % (self.read(sc, n, v, o), i), self.xof(sc, o, v.xs[i] if v.xs else None), v.prov
        if k == 'hold':
            n, v, o = r.choice(self.visible(sc, 'O'))
            return self.access(self.read(sc, n, v, o)), self.xof(sc, o, v.x), v.prov
        if k in ('newhold', 'static'):
            e, x, pv = self.expr(sc, depth + 1)
            h = self.pick_holder(pv)
            if h is None:
                return e, x, pv
            pv = self.applied(self.holder_uses(h), pv)
            if k == 'newhold':
                return self.access('%s(%s)' % (h, e)), x, pv
            self.features.add('staticmethod/classmethod')
            return r.choice(['%s.s(%s)' % (h, e), '%s.mk(%s).c' % (h, e), '%s(%s).s(%s)' % (h, 'V0()', e),
                             '%s.mk(%s).get()' % (h, e)]), x, pv
        if k in ('pair', 'add', 'lit', 'lambda'):
            e1, x1, p1 = self.expr(sc, depth + 1)
            e2, x2, p2 = self.expr(sc, depth + 1)
            pv = p1 | p2
            if k == 'pair':
                if not self.may_apply(frozenset(['P0']), p1, p2):
                    return e1, x1, p1
                pv = self.applied(frozenset(['P0']), p1, p2)
                self.features.add('pair')
                t, x = r.choice([('P0(%s, %s).a' % (e1, e2), x1), ('P0(%s, %s).b' % (e1, e2), x2),
                                 ('P0(%s, %s).swap().a' % (e1, e2), x2), ('P0(a=%s, b=%s).b' % (e1, e2), x2),
                                 ('P0(b=%s, a=%s).b' % (e1, e2), x1)])
            elif k == 'add':
                self.features.add('__add__')
                t, x = '(%s + %s)' % (e1, e2), x2
            elif k == 'lit':
                self.features.add('literal-index')
                t, x = r.choice([('(%s, %s)[0]' % (e1, e2), x1), ('[%s, %s][1]' % (e1, e2), x2),
                                 ("{'a': %s, 'b': %s}['b']" % (e1, e2), x2),
                                 ("{'a': %s, 'b': %s}['a']" % (e1, e2), x1),
                                 ('((%s, %s), %s)[0][1]' % (e1, e2, e1), x2)])
            else:
                self.features.add('lambda')
                t, x = r.choice([('(lambda a: a)(%s)' % e1, x1), ('(lambda a, b: b)(%s, %s)' % (e1, e2), x2),
                                 ('(lambda a, b=%s: b)(%s)' % (e2, e1), x2),
                                 ('(lambda *a: a[1])(%s, %s)' % (e1, e2), x2),
                                 ("(lambda **k: k['z'])(z=%s)" % e1, x1)])
            return t, x, pv
        if k == 'tern':
            e1, _, p1 = self.expr(sc, depth + 1)
            e2, _, p2 = self.expr(sc, depth + 1)
            c, _, p3 = self.expr(sc, 2)
            self.features.add('ternary')
            return '(%s if %s else %s)' % (e1, c, e2), None, p1 | p2 | p3
        if k == 'comp':
            n, v, o = r.choice(self.visible(sc, 'T'))
            i = r.randrange(v.n)
            w = self.fresh('w')
            self.features.add('comprehension-index')
            pv = v.prov
            h = self.pick_holder(pv)
            els = [w, '(lambda a: a)(%s)' % w, '(%s,)[0]' % w]
            el = r.choice(els + (['%s(%s).c' % (h, w)] if h else []))
            if h and el.startswith(h):
                pv = self.applied(self.holder_uses(h), pv)
            return '[%s for %s in %s][%d]' % (el, w, self.read(sc, n, v, o), i), None, pv
        if k == 'call':
            n, v, o = r.choice(fs)
            args = []
            xs = []
            pvs = []
            for pk in v.sig['params']:
                e, x, pv = self.expr(sc, depth + 1)
                args.append(e)
                xs.append(x)
                pvs.append(pv)
            if not self.may_apply(v.sig['uses'], *pvs):
                c = 'V%d' % r.randrange(NVAL)
                return c + '()', c, NONE
            v.calls += 1 + len(sc.loops)
            ret = v.sig['ret']
            if isinstance(ret, tuple):
                ret = xs[ret[1]]
            elif o is not sc and not isinstance(ret, str):
                ret = None
            self.features.add('call')
            return '%s(%s)' % (self.read(sc, n, v, o), ', '.join(args)), ret, self.applied(v.sig['uses'], *pvs)
        raise AssertionError(k)

    def access(self, obj):
        a = self.rng.choice(['.c', '.get()', '.p', '[0]', '()', '.c', '.get()'])
        self.features.add({'.p': 'property', '[0]': '__getitem__', '()': '__call__'}.get(a, 'attribute'))
        return obj + a

    # -- sequences: returns (text, n, xs, prov) ; xs None when not a literal
    def seq(self, sc, allow_names=True):
        r = self.rng
        ts = self.visible(sc, 'T') if allow_names else []
        if ts and self.chance(0.4):
            n, v, o = r.choice(ts)
            return self.read(sc, n, v, o), v.n, ([self.xof(sc, o, x) for x in v.xs] if v.xs else None), v.prov
        n = r.randint(1, 3)
        es = [self.expr(sc, 1) for _ in range(n)]
        inner = ', '.join(e[0] for e in es)
        pv = frozenset().union(*[e[2] for e in es])
        if self.chance(0.3):
            return '[%s]' % inner, n, [e[1] for e in es], pv
        return '(%s%s)' % (inner, ',' if n == 1 else ''), n, [e[1] for e in es], pv

    # -- statements
    def assign(self, sc, ind):
        """n = <expr> ; fresh name or (sometimes) a re-assignment that is not loop-carried"""
        e, x, pv = self.expr(sc)
        cands = [(n, v) for n, v in sc.vars.items()
                 if v.kind == 'I' and not v.frozen and not (v.reads & set(sc.loops)) and n not in sc.locked]
        if cands and self.chance(0.2):
            n, v = self.rng.choice(cands)
            mentions = re.search(r'\b%s\b' % n, e) is not None
            # `n = f(n)` in a loop is loop-carried; `n = (lambda b=n: b)()` - the old binding read
            # through a lambda default of the re-binding statement - is a known finding
            if not (mentions and (sc.loops or 'lambda' in e)):
                self.emit(ind, '%s = %s' % (n, e))
                v.x = x if (v.block == sc.block) else None
                if v.block == sc.block:
                    v.shadow = sc.block
                v.prov = v.prov | pv
                self.features.add('reassign')
                return
        n = self.fresh('n')
        self.emit(ind, '%s = %s' % (n, e))
        self.bind(sc, n, Var('I', x=x, prov=pv))

    def probe(self, sc, ind, only=None):
        if sc.has_params:
            return
        names = [x for x in self.visible(sc, 'I') if only is None or x[0] == only]
        if not names:
            return
        n, v, o = self.rng.choice(names)
        self.read(sc, n, v, o)
        self.nprobe += 1
        t = 't%d' % self.nprobe
        self.emit(ind, '%s = %s' % (t, n))
        self.emit(ind, t)
        x = self.xof(sc, o, v.x)
        self.probe_info[len(self.lines)] = x if isinstance(x, str) else None

    def stmt(self, sc, ind, depth, allow_yield=False):
        """emits one statement (possibly compound)"""
        r = self.rng
        opts = ['assign'] * 5 + ['probe'] * 3 + ['seq', 'seq', 'unpack', 'hold']
        if depth < 3:
            opts += ['for'] * 4 + ['if'] * 3 + ['with', 'try', 'try', 'while']
            if sc.kind == 'gen':
                opts += ['for'] * 3 + ['if'] * 3
            if self.has_add:
                opts += ['aug']
        if depth < 2 and len(self.lines) < self.size and sc.kind != 'gen':
            opts += ['def', 'def', 'gen', 'gen', 'lam']
        if allow_yield:
            opts += ['yield'] * 4
        k = r.choice(opts)
        if k == 'assign':
            self.assign(sc, ind)
        elif k == 'probe':
            self.probe(sc, ind)
        elif k == 'yield':
            e, _, _ = self.expr(sc, 2)
            self.emit(ind, 'yield ' + e)
        elif k == 'seq':
            t, n, xs, pv = self.seq(sc, allow_names=False)
            s = self.fresh('s')
            self.emit(ind, '%s = %s' % (s, t))
            self.bind(sc, s, Var('T', n=n, xs=xs, prov=pv))
        elif k == 'hold':
            e, x, pv = self.expr(sc, 1)
            h = self.pick_holder(pv)
            if h is None:
                return self.assign(sc, ind)
            o = self.fresh('o')
            if self.chance(0.3):
                # alternate constructor: for H9 an inherited classmethod reached through the subclass
                self.emit(ind, '%s = %s.mk(%s)' % (o, h, e))
                self.features.add('holder-via-classmethod')
            else:
                self.emit(ind, '%s = %s(%s)' % (o, h, e))
            self.bind(sc, o, Var('O', x=x, prov=self.applied(self.holder_uses(h), pv)))
            if self.chance(0.4) and not sc.has_params:
                # the holder object itself is probed (soundness only: no exactness bookkeeping)
                self.nprobe += 1
                t = 't%d' % self.nprobe
                self.emit(ind, '%s = %s' % (t, o))
                self.emit(ind, t)
                self.probe_info[len(self.lines)] = None
                self.features.add('probe-holder-object')
        elif k == 'unpack':
            self.features.add('unpack')
            t, n, xs, pv = self.seq(sc)
            if n == 1 or self.chance(0.3):
                e1, x1, p1 = self.expr(sc, 1)
                e2, x2, p2 = self.expr(sc, 1)
                e3, x3, p3 = self.expr(sc, 1)
                a, b, c = self.fresh('n'), self.fresh('n'), self.fresh('n')
                form = r.randrange(3)
                if form == 0:
                    self.emit(ind, '%s, %s = %s, %s' % (a, b, e1, e2))
                elif form == 1:
                    self.emit(ind, '(%s, %s), %s = (%s, %s), %s' % (a, b, c, e1, e2, e3))
                    self.bind(sc, c, Var('I', x=x3, prov=p3))
                else:
                    self.emit(ind, '%s, %s = [%s, %s]' % (a, b, e1, e2))
                self.bind(sc, a, Var('I', x=x1, prov=p1))
                self.bind(sc, b, Var('I', x=x2, prov=p2))
            else:
                names = [self.fresh('n') for _ in range(n)]
                self.emit(ind, '%s = %s' % (', '.join(names), t))
                for i, nm in enumerate(names):
                    self.bind(sc, nm, Var('I', x=xs[i] if xs else None, prov=pv))
        elif k == 'for':
            self.for_stmt(sc, ind, depth, allow_yield)
        elif k == 'if':
            self.if_stmt(sc, ind, depth, allow_yield)
        elif k == 'with':
            e, x, pv = self.expr(sc, 1)
            h = self.pick_holder(pv)
            if h is None:
                return self.assign(sc, ind)
            self.features.add('with')
            w = self.fresh('n')
            self.emit(ind, 'with %s(%s) as %s:' % (h, e, w))
            self.bind(sc, w, Var('I', x=x, prov=self.applied(self.holder_uses(h), pv)))
            self.block(sc, ind + 1, depth + 1, r.randint(1, 3), allow_yield)
        elif k == 'try':
            self.try_stmt(sc, ind, depth, allow_yield)
        elif k == 'while':
            names = self.visible(sc, 'I')
            if not names:
                return self.assign(sc, ind)
            self.features.add('while')
            n, v, o = r.choice(names)
            self.emit(ind, 'while %s:' % self.read(sc, n, v, o))
            lid = self.open_loop(sc)
            self.block(sc, ind + 1, depth + 1, r.randint(1, 3), allow_yield)
            self.emit(ind + 1, 'break')
            self.close_loop(sc, lid)
        elif k == 'aug':
            # acc = e0 ; for v in seq: acc += <something of v>     (Base.__add__ returns `other`)
            self.features.add('augmented-assignment')
            e0, _, p0 = self.expr(sc, 1)
            acc = self.fresh('n')
            self.emit(ind, '%s = %s' % (acc, e0))
            t, n, xs, pv = self.seq(sc)
            v = self.fresh('v')
            self.emit(ind, 'for %s in %s:' % (v, t))
            h = self.pick_holder(pv)
            if h is None or self.chance(0.5):
                self.emit(ind + 1, '%s += %s' % (acc, v))
            else:
                w = self.fresh('n')
                self.emit(ind + 1, '%s = %s' % (w, r.choice([v, '(%s,)[0]' % v, '%s(%s).c' % (h, v)])))
                self.emit(ind + 1, '%s += %s' % (acc, w))
                pv = self.applied(self.holder_uses(h), pv)
            var = Var('I', x=None, prov=p0 | pv)
            var.frozen = True
            self.bind(sc, acc, var)
        elif k == 'def':
            self.def_function(sc, ind, depth)
        elif k == 'lam':
            self.features.add('lambda')
            f = self.fresh('f')
            form = r.randrange(3)
            uses = set([f])
            if form == 0:
                self.emit(ind, '%s = lambda a: a' % f)
                sig = dict(params=['I'], ret=('param', 0))
            elif form == 1:
                self.emit(ind, '%s = lambda a, b: (b, a)[0]' % f)
                sig = dict(params=['I', 'I'], ret=('param', 1))
            else:
                names = self.visible(sc, 'I')
                if not names:
                    return self.assign(sc, ind)
                n, v, o = r.choice(names)
                v.frozen = True
                v.reads.update(sc.loops)
                self.note(v.prov)
                uses |= v.prov
                self.emit(ind, '%s = lambda a: %s' % (f, n))
                sig = dict(params=['I'], ret=None if isinstance(v.x, tuple) else self.xof(sc, o, v.x))
            sig['uses'] = frozenset(uses)
            self.bind(sc, f, Var('F', sig=sig))
        elif k == 'gen':
            self.def_generator(sc, ind, depth)

    def open_loop(self, sc):
        self.nloop += 1
        sc.loops.append(self.nloop)
        return self.nloop

    def close_loop(self, sc, lid):
        assert sc.loops.pop() == lid

    def block(self, sc, ind, depth, n, allow_yield, export=True, must=None):
        """a suite of n statements; names bound inside stay visible afterwards only if `export`
        (the suite certainly runs)"""
        before = set(sc.vars)
        self.nblock += 1
        saved = sc.block
        sc.block = self.nblock
        start = len(self.lines)
        for _ in range(n):
            self.stmt(sc, ind, depth, allow_yield=allow_yield)
        if must:
            must()
        if len(self.lines) == start:
            self.emit(ind, 'pass')
        for v in sc.vars.values():
            if v.shadow == sc.block:
                # read after the suite, jedi still reports the shadowed definition (known finding):
                # no exactness claim there
                v.x = None
        sc.block = saved
        new = {k: v for k, v in sc.vars.items() if k not in before}
        if not export:
            for k_ in new:
                del sc.vars[k_]
        return new

    def for_stmt(self, sc, ind, depth, allow_yield, force=None):
        r = self.rng
        self.features.add('for')
        v = self.fresh('v')
        certain = True
        src = r.choice(['seq'] * 4 + ['gen'] * 4 + ['holder', 'comp', 'genexp', 'pairs'])
        gens = [g for g in self.visible(sc, 'G') if g[1].calls < 2]
        if force:
            gens = [force]
            src = 'gen'
        elif gens and self.chance(0.4):
            src = 'gen'
        if src == 'gen' and not gens:
            src = 'seq'
        target = v
        bound = [v]
        if src == 'pairs':
            k = r.randint(1, 2)
            pairs = []
            pv = NONE
            for _ in range(k):
                e1, _x, p1 = self.expr(sc, 1)
                e2, _x, p2 = self.expr(sc, 1)
                pairs.append('(%s, %s)' % (e1, e2))
                pv = pv | p1 | p2
            it = '(%s,)' % ', '.join(pairs)
            v2 = self.fresh('v')
            target = '%s, %s' % (v, v2)
            bound.append(v2)
            self.features.add('for-tuple-target')
        elif src == 'holder':
            e, x, pv = self.expr(sc, 1)
            h = self.pick_holder(pv)
            if h is None:
                it = '(%s,)' % e
            else:
                it = '%s(%s)' % (h, e)
                pv = self.applied(self.holder_uses(h), pv)
                self.features.add('__iter__')
        else:
            t, n, xs, pv = self.seq(sc)
            it = t
            if src == 'gen':
                gn, gv, go = r.choice(gens)
                if force and (n < 2 or pv & gv.sig['uses'] or self.chance(0.3)):
                    # values created on the spot, of different classes
                    cs = r.sample(range(NVAL), r.randint(2, 3))
                    t, n, xs, pv = '(%s)' % ', '.join('V%d()' % c for c in cs), len(cs), None, NONE
                    it = t
                if self.may_apply(gv.sig['uses'], pv):
                    gv.calls += 1
                    it = '%s(%s)' % (self.read(sc, gn, gv, go), t)
                    pv = self.applied(gv.sig['uses'], pv)
                    certain = gv.sig['one']
                    self.features.add('for-over-generator')
                    if self.chance(0.2):
                        w = self.fresh('w')
                        it = '[%s for %s in %s]' % (r.choice([w, '(%s,)[0]' % w]), w, it)
                        self.features.add('comprehension-over-generator')
            elif src == 'comp':
                w = self.fresh('w')
                h = self.pick_holder(pv)
                el = r.choice([w, '(lambda a: a)(%s)' % w] + (['%s(%s).get()' % (h, w)] if h else []))
                if h and el.startswith(h):
                    pv = self.applied(self.holder_uses(h), pv)
                it = '[%s for %s in %s]' % (el, w, t)
                self.features.add('comprehension')
            elif src == 'genexp':
                w = self.fresh('w')
                it = '(%s for %s in %s)' % (r.choice([w, '(%s,)[0]' % w]), w, t)
                self.features.add('generator-expression')
        self.emit(ind, 'for %s in %s:' % (target, it))
        lid = self.open_loop(sc)
        for nm in bound:
            var = Var('I', x=None, prov=pv | HOT)
            var.frozen = True      # the loop variable itself is never re-assigned
            self.bind(sc, nm, var)
        must = None
        if force and not sc.has_params:
            def must():
                self.probe(sc, ind + 1, only=v)
        saved = set(sc.locked)
        if not certain:
            # the loop may run zero times: jedi takes a for suite for certainly executed (known
            # finding), so nothing bound before the loop is re-bound inside it
            sc.locked |= set(sc.vars)
        self.block(sc, ind + 1, depth + 1, r.randint(0 if force else 1, 3 if force else 4), allow_yield,
                   export=certain, must=must)
        sc.locked = saved
        self.close_loop(sc, lid)
        if not certain:
            for nm in bound:
                sc.vars.pop(nm, None)

    def cond(self, sc):
        """(text, truth) ; truth True/False when known to the generator, None otherwise"""
        r = self.rng
        names = self.visible(sc, 'I')
        c = r.random()
        if c < 0.12:
            self.features.add('if-literal')
            return r.choice([('1', True), ('0', False)])
        if names and c < 0.2:
            n, v, o = r.choice(names)
            self.features.add('isinstance')
            return 'isinstance(%s, V%d)' % (self.read(sc, n, v, o), r.randrange(NVAL)), None
        if names:
            n, v, o = r.choice(names)
            return self.read(sc, n, v, o), True
        return 'V0()', True

    def if_stmt(self, sc, ind, depth, allow_yield):
        r = self.rng
        self.features.add('if')
        c, truth = self.cond(sc)
        self.emit(ind, 'if %s:' % c)
        has_else = self.chance(0.45)
        # a name both branches define (merge point)
        merged = self.fresh('n') if has_else and self.chance(0.6) else None
        mprov = [NONE]

        def bind_merged():
            e, _, pv = self.expr(sc, 1)
            mprov[0] = mprov[0] | pv
            self.emit(ind + 1, '%s = %s' % (merged, e))
        new1 = self.block(sc, ind + 1, depth + 1, r.randint(1, 3), allow_yield,
                          export=False, must=bind_merged if merged else None)
        new2 = {}
        if has_else:
            self.emit(ind, 'else:')
            new2 = self.block(sc, ind + 1, depth + 1, r.randint(1, 3), allow_yield,
                              export=False, must=bind_merged if merged else None)
        if truth is True:
            sc.vars.update(new1)
        elif truth is False:
            sc.vars.update(new2)
        if merged:
            self.bind(sc, merged, Var('I', x=None, prov=mprov[0]))

    def try_stmt(self, sc, ind, depth, allow_yield):
        r = self.rng
        self.features.add('try')
        raises = self.chance(0.4)
        self.emit(ind, 'try:')
        merged = self.fresh('n') if self.chance(0.6) else None
        mprov = [NONE]

        def bind_merged():
            e, _, pv = self.expr(sc, 1)
            mprov[0] = mprov[0] | pv
            self.emit(ind + 1, '%s = %s' % (merged, e))

        def body_end():
            if merged:
                bind_merged()
            if raises:
                self.emit(ind + 1, 'raise E0()')
        self.block(sc, ind + 1, depth + 1, r.randint(1, 3), allow_yield, export=True, must=body_end)
        form = r.choice(['except', 'except', 'finally'])
        if raises or form == 'except':
            self.emit(ind, 'except E0:')
            self.block(sc, ind + 1, depth + 1, r.randint(1, 2), allow_yield, export=raises,
                       must=bind_merged if merged else None)
        if form == 'finally':
            self.emit(ind, 'finally:')
            self.block(sc, ind + 1, depth + 1, r.randint(1, 2), False, export=True)
        if merged:
            self.bind(sc, merged, Var('I', x=None, prov=mprov[0]))

    def def_function(self, sc, ind, depth):
        """def f(a..): <suite>; return <value>   (sometimes decorated, nested, with an early
        return); the body is generated by the same statement generator"""
        r = self.rng
        self.features.add('def')
        f = self.fresh('f')
        np_ = r.choice([0, 1, 1, 2])
        params = ['a%d_%d' % (self.k, i) for i in range(np_)]
        if self.decos and self.chance(0.4):
            for d in r.sample(self.decos, r.randint(1, len(self.decos))):
                self.emit(ind, '@' + d)
            self.features.add('decorator')
        self.emit(ind, 'def %s(%s):' % (f, ', '.join(params)))
        inner = Scope(sc, 'func', has_params=np_ > 0)
        for i, p in enumerate(params):
            var = Var('I', x=('param', i), prov=HOT)
            var.frozen = True
            inner.vars[p] = var
        uses = set([f])
        self.uses_stack.append(uses)
        nlines = len(self.lines)
        self.block(inner, ind + 1, depth + 1, r.randint(0, 4), False)
        if self.lines[-1].strip() == 'pass' and len(self.lines) == nlines + 1:
            self.lines.pop()
        if self.chance(0.25):
            # early return behind a test
            c, truth = self.cond(inner)
            e, _, _ = self.expr(inner, 1)
            self.emit(ind + 1, 'if %s:' % c)
            self.emit(ind + 2, 'return ' + e)
            self.features.add('early-return')
        e, x, _ = self.expr(inner, 1)
        self.emit(ind + 1, 'return ' + e)
        self.uses_stack.pop()
        self.note(uses - {f})
        body = self.lines[nlines:]
        straight = not any(re.match(r'\s*(for|if|while|try|with|yield|def) ', ln + ' ') or
                           re.match(r'\s*(try|else|finally):', ln) for ln in body[:-1]) \
            and ' if ' not in body[-1] and ' for ' not in body[-1]
        if not straight:
            x = None
        if sc.kind != 'module':
            self.features.add('closure')
        self.bind(sc, f, Var('F', sig=dict(params=['I'] * np_, ret=x, uses=frozenset(uses))))

    def def_generator(self, sc, ind, depth):
        """def g(seq): for e in seq: <suite>; yield <name>       (`one`: exactly one yield per
        element, in the top-level for - the case jedi unrolls) or yields anywhere"""
        r = self.rng
        self.features.add('generator')
        g = self.fresh('g')
        p = 'a%d' % self.k
        one = self.chance(0.6)
        per = 1
        self.emit(ind, 'def %s(%s):' % (g, p))
        inner = Scope(sc, 'gen', has_params=True)
        var = Var('T', n=1, xs=None, prov=HOT)
        var.frozen = True
        inner.vars[p] = var
        uses = set([g])
        self.uses_stack.append(uses)
        if self.chance(0.3):
            self.block(inner, ind + 1, depth + 1, r.randint(1, 2), False)
        e = self.fresh('v')
        self.emit(ind + 1, 'for %s in %s:' % (e, p))
        lid = self.open_loop(inner)
        ev = Var('I', x=None, prov=HOT)
        ev.frozen = True
        self.bind(inner, e, ev)
        body_block = self.nblock + 1
        if one:
            self.features.add('generator-unrolled')
            self.block(inner, ind + 2, depth + 1, r.randint(1, 4), False)
            # the yielded name: prefer one bound inside the loop body (an intermediate)
            local = [(n, v) for n, v in inner.vars.items() if v.kind == 'I' and n != e and v.block != 0]
            hot = [x for x in local if x[1].prov & HOT]
            deep = [x for x in hot if x[1].block != body_block]
            if local and self.chance(0.85):
                n, v = r.choice(deep if deep and self.chance(0.7) else (hot if hot and self.chance(0.7) else local))
                self.note(v.prov)
                self.emit(ind + 2, 'yield ' + n)
            else:
                ex, _, _ = self.expr(inner, 1)
                self.emit(ind + 2, 'yield ' + ex)
            if self.chance(0.3):
                ex, _, _ = self.expr(inner, 1)
                self.emit(ind + 2, 'yield ' + ex)
                per = 2
        else:
            k0 = len(self.lines)
            self.block(inner, ind + 2, depth + 1, r.randint(2, 4), True)
            if not any(re.match(r'\s*yield ', ln) for ln in self.lines[k0:]):
                ex, _, _ = self.expr(inner, 1)
                self.emit(ind + 2, 'yield ' + ex)
        self.close_loop(inner, lid)
        if self.chance(0.2):
            ex, _, _ = self.expr(inner, 1)
            self.emit(ind + 1, 'yield ' + ex)
            one = False
        self.uses_stack.pop()
        self.note(uses - {g})
        gv = Var('G', sig=dict(one=one, uses=frozenset(uses), per=per if one else None))
        self.bind(sc, g, gv)
        # often consumed right away: for loop (probing the loop variable) or tuple unpacking
        if self.chance(0.65):
            if one and per == 1 and self.chance(0.25):
                t, n, xs, pv = self.seq(sc, allow_names=False)
                if self.may_apply(gv.sig['uses'], pv):
                    gv.calls += 1
                    names = [self.fresh('n') for _ in range(n)]
                    self.emit(ind, '%s%s = %s(%s)' % (', '.join(names), ',' if n == 1 else '', g, t))
                    self.features.add('unpack-generator')
                    pv = self.applied(gv.sig['uses'], pv)
                    for nm in names:
                        self.bind(sc, nm, Var('I', x=None, prov=pv))
                    if not sc.has_params:
                        self.probe(sc, ind, only=r.choice(names))
            else:
                self.for_stmt(sc, ind, depth, False, force=(g, gv, sc))

    def def_segment_generator(self, sc, ind):
        """def g(a): <segments> ; n1, .., nk = g(<literal>) ; every nK probed.
        A segment is a plain `yield <expr>` directly in the function body or a simple for loop (one
        loop name, directly in the body, over the parameter or a literal) with one or two yields -
        exactly the shapes whose element ORDER jedi predicts (get_yield_lazy_values) - in any
        interleaving (yields before, between and after loops, several loops).  The result is
        consumed POSITION BY POSITION by tuple unpacking, so the order of the element stream is
        visible at the probes (a `for` over the generator merges all yields)."""
        r = self.rng
        self.features.add('generator-segments')
        g = self.fresh('g')
        p = 'a%d' % self.k
        self.emit(ind, 'def %s(%s):' % (g, p))
        inner = Scope(sc, 'gen', has_params=True)
        var = Var('T', n=1, xs=None, prov=HOT)
        var.frozen = True
        inner.vars[p] = var
        uses = set([g])
        self.uses_stack.append(uses)
        arg_cs = ['V%d' % c for c in r.sample(range(NVAL), r.randint(1, 3))]
        elems = []          # per yielded position: the class that certainly arrives there, or None
        kinds = []
        nseg = r.randint(1, 4)
        if self.chance(0.5):
            nseg = max(nseg, 3)
        for _ in range(nseg):
            kind = r.choice('YL')
            if kind == 'L' and len(elems) > 4:
                kind = 'Y'
            if len(elems) >= 7:
                break
            kinds.append(kind)
            if kind == 'Y':
                ex, x, _ = self.expr(inner, 1)
                self.emit(ind + 1, 'yield ' + ex)
                elems.append(x if isinstance(x, str) else None)
                continue
            if self.chance(0.5):
                it, xs = p, list(arg_cs)
            else:
                it, n, xs, _ = self.seq(inner, allow_names=False)
                if n > 2 and len(elems) > 2:
                    it, xs = p, list(arg_cs)
            v = self.fresh('v')
            self.emit(ind + 1, 'for %s in %s:' % (v, it))
            lid = self.open_loop(inner)
            ev = Var('I', x=None, prov=HOT)
            ev.frozen = True
            self.bind(inner, v, ev)
            y = v
            if self.chance(0.4):
                y = self.fresh('n')
                self.emit(ind + 2, '%s = %s' % (y, r.choice([v, '(%s,)[0]' % v, '(lambda a: a)(%s)' % v])))
            self.emit(ind + 2, 'yield ' + y)
            second = None
            if self.chance(0.3):
                ex, x, _ = self.expr(inner, 1)
                self.emit(ind + 2, 'yield ' + ex)
                second = (x if isinstance(x, str) and v not in ex else None,)
                kinds[-1] = 'L2'
            self.close_loop(inner, lid)
            inner.vars.pop(v, None)
            inner.vars.pop(y, None)
            for x in xs:
                elems.append(x if isinstance(x, str) else None)
                if second:
                    elems.append(second[0])
        self.uses_stack.pop()
        self.note(uses - {g})
        gv = Var('G', sig=dict(one=False, uses=frozenset(uses), per=None))
        gv.calls = 2          # called here, not again
        self.bind(sc, g, gv)
        self.features.add('generator-segments:' + '-'.join(kinds))
        names = [self.fresh('n') for _ in elems]
        self.emit(ind, '%s%s = %s((%s,))' % (', '.join(names), ',' if len(names) == 1 else '', g,
                                             ', '.join(c + '()' for c in arg_cs)))
        pv = self.applied(gv.sig['uses'])
        for nm, x in zip(names, elems):
            self.bind(sc, nm, Var('I', x=x, prov=pv))
        for nm in names:
            self.probe(sc, ind, only=nm)


def gen_segprogram(rng):
    """programs around generator functions made of top-level yields and simple for loops in any
    interleaving, unpacked position by position (Prog.def_segment_generator); same info as
    gen_program"""
    p = Prog(rng, 10)
    p.selfnest = False
    p.prelude()
    sc = Scope(None, 'module', False)
    for _ in range(rng.randint(0, 2)):
        p.assign(sc, 0)
    for _ in range(rng.randint(1, 2)):
        p.def_segment_generator(sc, 0)
    src = '\n'.join(p.lines) + '\n'
    info = {'exact': {str(k): v for k, v in p.probe_info.items() if v is not None}, 'selfnest': False}
    return src, info, sorted(p.features)


def gen_program(rng, size=None):
    """returns (source, info, sorted feature list); info = {'exact': {probe line: class name where
    the exactness clause applies}, 'selfnest': the program applies a named callable to a value that
    passed through the same callable}"""
    size = size or rng.choice([12, 20, 30, 45])
    p = Prog(rng, size)
    p.prelude()
    p.size = size = size + len(p.lines)
    sc = Scope(None, 'module', False)
    # some definitions first (functions, generator functions), then statements
    for _ in range(rng.randint(1, 3)):
        k = rng.choice(['def', 'gen', 'gen', 'assign'])
        if k == 'def':
            p.def_function(sc, 0, 0)
        elif k == 'gen':
            p.def_generator(sc, 0, 0)
        else:
            p.assign(sc, 0)
    guard = 0
    while len(p.lines) < size + 25 and guard < 60:
        guard += 1
        p.stmt(sc, 0, 0)
        if len(p.lines) >= size and p.nprobe >= 3:
            break
    # every program ends with probes of what is in scope
    for _ in range(3):
        p.probe(sc, 0)
    src = '\n'.join(p.lines) + '\n'
    if p.nested:
        p.features.add('selfnest')
    info = {'exact': {str(k): v for k, v in p.probe_info.items() if v is not None}, 'selfnest': p.nested}
    return src, info, sorted(p.features)

"""C01, stream `mixed`: programs whose query results MIX definitions that have a position in a
source file with definitions that have none (compiled modules and their members, namespace
packages, keywords: `line == column == None`, `module_path is None`).

The part of the property's domain this covers: "every query method ... and every documented
attribute of the objects they return completes normally" for Scripts that

  * have no path (code of an unsaved buffer: `module_path` None for the script's own names, the
    same as for compiled names), have a path inside the project, or a path of a file that does
    not exist;
  * run against a small project on disk (LAYOUT) with a plain module, a regular package, a
    namespace package (directory without `__init__.py`) and a second module that uses the
    same compiled names (so that project-wide `get_references` has other files to report);
  * bind one name to values of BOTH kinds by every binding form of the language that joins
    values (conditional expression, if/else, try/except import, for over a tuple, subscript of
    a list / dict display, `or`, parameter of a function called with both, return of both,
    re-import of the same name from a compiled and from a source module, star import next to
    a local definition, class attribute, lambda) and then use it: bare, attribute access,
    call, next to keywords.

`programs(rng, n)` -> list of items {id, source, path, project, kinds}.  The worker
(props.c01.mixed_item) asks every query method at every name / keyword / dot position.
"""

# ------------------------------------------------------------------ the project on disk

LAYOUT = {
    'requirements.txt': '',           # makes the directory the project root for jedi's default project
    'loc.py': ('pi = 3\n'
               'e = "e"\n'
               'def sqrt(x):\n    return x\n'
               'def floor(x):\n    return x\n'
               'class Cls:\n    maxsize = 1\n    def meth(self):\n        return self\n'
               'maxsize = 2\n'
               'path = "p"\n'
               'def sleep(s):\n    pass\n'
               'def count(a=0):\n    return a\n'),
    'other.py': ('import sys\nimport math, time, itertools\nfrom math import pi, sqrt\nimport nsp\nimport nsp.sub\n'
                 'from sys import maxsize\nimport loc\n'
                 'def use():\n    return sys, math.pi, sqrt, maxsize, loc.pi, time.sleep, itertools.count\n'
                 'def use_ns():\n    return nsp\n'),
    'pkg/__init__.py': 'from pkg.mod import sqrt\nimport sys\nversion = sys.maxsize\n',
    'pkg/mod.py': 'import math\ndef sqrt(x):\n    return math.sqrt(x)\npi = math.pi\n',
    'nsp/sub/m.py': 'v = 1\ndef sqrt(x):\n    return x\n',
    'nsp/inner.py': 'import sys\nw = sys\n',
}


def materialise(root):
    """writes LAYOUT below `root`"""
    import os
    for rel, content in LAYOUT.items():
        p = os.path.join(root, rel)
        os.makedirs(os.path.dirname(p), exist_ok=True)
        with open(p, 'w', encoding='utf-8') as f:
            f.write(content)


# ------------------------------------------------------------------ the two kinds of value

# (import statement, expression, attribute names that exist on it)     -- no position
COMPILED_MODULES = [
    ('import sys', 'sys', ['maxsize', 'path', 'version']),
    ('import math', 'math', ['pi', 'sqrt', 'floor', 'e']),
    ('import time', 'time', ['sleep', 'time']),
    ('import itertools', 'itertools', ['count', 'chain']),
    ('import gc', 'gc', ['collect']),
    ('import errno', 'errno', ['ENOENT']),
    ('import marshal', 'marshal', ['dumps']),
    ('import _thread', '_thread', ['allocate_lock']),
    ('import array', 'array', ['array']),
    ('import sys as s2', 's2', ['maxsize']),
    ('import math as m2', 'm2', ['pi', 'sqrt']),
]
COMPILED_MEMBERS = [
    ('from math import pi', 'pi', []),
    ('from math import sqrt', 'sqrt', []),
    ('from math import floor', 'floor', []),
    ('from sys import maxsize', 'maxsize', []),
    ('from time import sleep', 'sleep', []),
    ('from itertools import count', 'count', []),
    ('import math', 'math.sqrt', []),
    ('import math', 'math.pi', []),
    ('import sys', 'sys.maxsize', []),
]
NAMESPACES = [
    ('import nsp', 'nsp', ['sub', 'inner']),
    ('import nsp.sub', 'nsp.sub', ['m']),
    ('from nsp import sub', 'sub', ['m']),
    ('import nsp as n2', 'n2', ['sub']),
]
# -- with a position
SOURCE_VALUES = [
    ('def fallback():\n    pass', 'fallback', []),
    ('class Local:\n    pi = 1\n    maxsize = 2\n    def sqrt(self):\n        return self', 'Local', ['pi', 'sqrt', 'maxsize']),
    ('import loc', 'loc', ['pi', 'sqrt', 'maxsize', 'path', 'e', 'floor', 'sleep', 'count']),
    ('import pkg', 'pkg', ['sqrt', 'version', 'mod']),
    ('import pkg.mod', 'pkg.mod', ['sqrt', 'pi']),
    ('from pkg import mod', 'mod', ['sqrt', 'pi']),
    ('from nsp.sub import m', 'm', ['sqrt', 'v']),
    ('from loc import sqrt as lsqrt', 'lsqrt', []),
    ('from loc import Cls', 'Cls', ['maxsize', 'meth']),
    ('lam = lambda q: q', 'lam', []),
    ('text = "t"', 'text', []),
    ('def gen():\n    yield 1', 'gen', []),
]
# `from X import name` pairs that bind the SAME name from a compiled and from a source module
SAME_NAME = [
    ('math', 'loc', 'pi'), ('math', 'loc', 'sqrt'), ('math', 'pkg.mod', 'sqrt'), ('math', 'loc', 'floor'),
    ('sys', 'loc', 'maxsize'), ('sys', 'loc', 'path'), ('time', 'loc', 'sleep'), ('itertools', 'loc', 'count'),
    ('math', 'nsp.sub.m', 'sqrt'), ('math', 'loc', 'e'), ('math', 'pkg', 'sqrt'),
]
KEYWORD_USES = [
    'if {m}:\n    pass',
    'while not {m}:\n    break',
    'assert {m} is not {o}',
    'del {m}',
    'with {m} as w:\n    w',
    'k = lambda: {m}',
    'for i in {m}, {o}:\n    continue',
    'try:\n    {m}\nexcept {o}:\n    raise\nfinally:\n    pass',
    'k = {m} if {o} else {m}',
    'k = {m} and {o} or not {m}',
    'def d():\n    global k\n    return {m}',
    'k = [j for j in ({m}, {o}) if j]',
]


def indent(block, by='    '):
    return '\n'.join(by + l if l else l for l in block.split('\n'))


def join_forms():
    """name -> function(rng, A, B) -> (setup statements, name bound to A and B).  A, B are
    expressions; `c` is an undefined-at-analysis-time condition name."""
    def ternary(rng, a, b):
        return 'mx = %s if c else %s' % (a, b), 'mx'

    def ifelse(rng, a, b):
        return 'if c:\n    mx = %s\nelse:\n    mx = %s' % (a, b), 'mx'

    def ifelif(rng, a, b):
        return 'if c:\n    mx = %s\nelif d:\n    mx = %s\nelse:\n    mx = %s' % (a, b, a), 'mx'

    def forin(rng, a, b):
        return 'for mx in (%s, %s):\n    mx' % (a, b), 'mx'

    def forlist(rng, a, b):
        return 'for mx in [%s, %s]:\n    pass' % (a, b), 'mx'

    def listindex(rng, a, b):
        return 'mx = [%s, %s][c]' % (a, b), 'mx'

    def tupleindex(rng, a, b):
        return 'both = (%s, %s)\nmx = both[c]' % (a, b), 'mx'

    def dictvalue(rng, a, b):
        return 'mx = {"a": %s, "b": %s}[c]' % (a, b), 'mx'

    def boolor(rng, a, b):
        return 'mx = %s or %s' % (a, b), 'mx'

    def param(rng, a, b):
        return 'def f(p):\n    return p\nf(%s)\nf(%s)\nmx = f(c)' % (a, b), 'mx'

    def paraminside(rng, a, b):
        return 'def f(mx):\n    mx\n    return mx\nf(%s)\nf(%s)' % (a, b), 'mx'

    def returns(rng, a, b):
        return 'def g(c):\n    if c:\n        return %s\n    return %s\nmx = g(1)' % (a, b), 'mx'

    def lambd(rng, a, b):
        return 'h = lambda c: %s if c else %s\nmx = h(1)' % (a, b), 'mx'

    def classattr(rng, a, b):
        return 'class K:\n    if c:\n        at = %s\n    else:\n        at = %s\nmx = K.at' % (a, b), 'mx'

    def selfattr(rng, a, b):
        return ('class K:\n    def __init__(self, c):\n        self.at = %s\n        if c:\n            self.at = %s\n'
                '    def get(self):\n        return self.at\nmx = K(1).get()' % (a, b)), 'mx'

    def tryexcept(rng, a, b):
        return 'try:\n    mx = %s\nexcept Exception:\n    mx = %s' % (a, b), 'mx'

    def walrus(rng, a, b):
        return 'if (mx := %s if c else %s):\n    pass' % (a, b), 'mx'

    def unpack(rng, a, b):
        return 'mx, my = (%s, %s) if c else (%s, %s)' % (a, b, b, a), 'mx'

    def starred(rng, a, b):
        return 'mx, *rest = %s, %s' % (a, b), 'rest'

    def comp(rng, a, b):
        return 'mx = [j for j in (%s, %s)][0]' % (a, b), 'mx'

    return dict(ternary=ternary, ifelse=ifelse, ifelif=ifelif, forin=forin, forlist=forlist, listindex=listindex,
                tupleindex=tupleindex, dictvalue=dictvalue, boolor=boolor, param=param, paraminside=paraminside,
                returns=returns, lambd=lambd, classattr=classattr, selfattr=selfattr, tryexcept=tryexcept,
                walrus=walrus, unpack=unpack, starred=starred, comp=comp)


JOIN_FORMS = join_forms()


def import_joins(rng):
    """programs that bind one name by imports of both kinds (no expression to join)"""
    cm, sm, name = rng.choice(SAME_NAME)
    forms = [
        ('reimport', 'from %s import %s\nfrom %s import %s' % (cm, name, sm, name)),
        ('reimport-rev', 'from %s import %s\nfrom %s import %s' % (sm, name, cm, name)),
        ('if-import', 'if c:\n    from %s import %s\nelse:\n    from %s import %s' % (cm, name, sm, name)),
        ('try-import', 'try:\n    from %s import %s\nexcept ImportError:\n    from %s import %s' % (cm, name, sm, name)),
        ('star-import', 'from %s import *\nfrom %s import *' % (cm, sm)),
        ('star-local', 'from %s import *\ndef %s(x):\n    return x' % (cm, name)),
        ('local-then-import', '%s = 1\nfrom %s import %s' % (name, cm, name)),
        ('import-then-local', 'from %s import %s\nif c:\n    %s = "s"' % (cm, name, name)),
        ('module-alias', 'try:\n    import %s as mod\nexcept ImportError:\n    import %s as mod\nmod.%s' % (cm, sm, name)),
        ('module-alias-if', 'if c:\n    import %s as mod\nelse:\n    import %s as mod\nmod.%s' % (sm, cm, name)),
        ('def-or-import', 'try:\n    from %s import %s\nexcept ImportError:\n    def %s(x):\n        return x' % (cm, name, name)),
        ('class-scope', 'class K:\n    from %s import %s\n    from %s import %s\nK.%s' % (cm, name, sm, name, name)),
        ('func-scope', 'def fn(c):\n    if c:\n        from %s import %s\n    else:\n        from %s import %s\n    return %s\nr = fn(1)\nr'
         % (cm, name, sm, name, name)),
    ]
    kind, setup = rng.choice(forms)
    return kind, setup, name, (cm, sm)


def uses(rng, m, other, attrs):
    out = ['%s' % m]
    if attrs:
        for a in rng.sample(attrs, min(len(attrs), 2)):
            out.append('%s.%s' % (m, a))
    out.append(rng.choice(['%s(1)' % m, '%s()' % m, 'r = %s(%s)\nr' % (m, other), '%s[0]' % m]))
    for u in rng.sample(KEYWORD_USES, 2):
        out.append(u.format(m=m, o=other))
    rng.shuffle(out)
    return out


def program(rng):
    """-> (source, kinds)"""
    r = rng.random()
    kinds = []
    head = []
    if r < 0.3:
        kind, setup, name, (cm, sm) = import_joins(rng)
        kinds += ['join:' + kind, 'a:member-of-' + cm, 'b:' + sm]
        body = [setup] + uses(rng, name, 'c', [])
        if rng.random() < 0.5:
            body.insert(0, 'import %s' % cm)
            body.append('%s.%s' % (cm, name))
    else:
        pool = rng.choice([COMPILED_MODULES, COMPILED_MODULES, COMPILED_MEMBERS, NAMESPACES])
        ia, a, attrs_a = rng.choice(pool)
        kinds.append('a:' + ('module' if pool is COMPILED_MODULES else 'member' if pool is COMPILED_MEMBERS else 'namespace'))
        rb = rng.random()
        if rb < 0.7:
            ib, b, attrs_b = rng.choice(SOURCE_VALUES)
            kinds.append('b:source')
        elif rb < 0.85:
            ib, b, attrs_b = rng.choice(NAMESPACES)
            kinds.append('b:namespace')
        else:
            ib, b, attrs_b = rng.choice(COMPILED_MODULES + COMPILED_MEMBERS)
            kinds.append('b:compiled')
        if rng.random() < 0.5:
            a, b, ia, ib, attrs_a, attrs_b = b, a, ib, ia, attrs_b, attrs_a
        head = [ia] + ([ib] if ib != ia else [])
        form = rng.choice(sorted(JOIN_FORMS))
        kinds.append('join:' + form)
        setup, name = JOIN_FORMS[form](rng, a, b)
        common_attrs = [x for x in attrs_a if x in attrs_b] or (attrs_a + attrs_b)
        body = [setup] + uses(rng, name, rng.choice([a, b, 'c']), common_attrs)
        # the two values used on their own as well
        body.append(a)
        body.append(b)
    if rng.random() < 0.25:
        # everything inside a function / class / conditional block
        wname, wrap = rng.choice([('def', 'def outer(c, d):\n%s'), ('class', 'class Outer:\n%s'), ('if', 'if c:\n%s'),
                                  ('async-def', 'async def co(c):\n%s')])
        body = [wrap % indent('\n'.join(body))]
        kinds.append('wrap:' + wname)
    src = '\n'.join(head + body) + '\n'
    return src, kinds


PATHS = [None, None, 'script.py', 'other.py', 'pkg/script.py', 'nsp/script.py', '../outside/script.py']


def programs(rng, n):
    """n items; the path kinds rotate so that every seed has path-less and path-ful Scripts,
    the project given explicitly or found by jedi (the worker's cwd is the project)"""
    items = []
    seen = set()
    k = 0
    while len(items) < n and k < 20 * n:
        k += 1
        src, kinds = program(rng)
        if src in seen:
            continue
        seen.add(src)
        i = len(items)
        path = PATHS[i % len(PATHS)]
        items.append({'id': 'm%d' % i, 'source': src, 'path': path,
                      'project': 'explicit' if (i // len(PATHS)) % 3 != 2 else 'default',
                      'kinds': kinds + ['path:' + ('none' if path is None else 'outside' if path.startswith('..')
                                                   else 'existing' if path in LAYOUT else 'new')]})
    return items


def edits(rng, src):
    """code being typed / small edits of the program: a prefix that ends inside a line, a line
    deleted, a colon / bracket dropped"""
    out = []
    lines = src.split('\n')
    if len(lines) > 3:
        cut = rng.randrange(2, len(lines))
        last = lines[cut - 1]
        out.append(('prefix', '\n'.join(lines[:cut - 1] + [last[:rng.randint(1, max(1, len(last)))]])))
        d = rng.randrange(1, len(lines) - 1)
        out.append(('line-deleted', '\n'.join(lines[:d] + lines[d + 1:])))
    pos = [i for i, ch in enumerate(src) if ch in ':()[],=.']
    if pos:
        p = rng.choice(pos)
        out.append(('char-deleted', src[:p] + src[p + 1:]))
    return out


def positions(source):
    """(line, column, what) for every name / keyword / dot of the source: inside the token (after
    its first character) and at its end.  Computed with the stdlib tokenizer on whatever
    tokenizes; falls back to a regex for broken text."""
    import io
    import keyword
    import re
    import tokenize
    out = []
    try:
        toks = list(tokenize.generate_tokens(io.StringIO(source).readline))
        for t in toks:
            if t.type == tokenize.NAME:
                what = 'keyword' if keyword.iskeyword(t.string) else 'name'
                out.append((t.start[0], t.start[1] + 1, what))
                if len(t.string) > 1:
                    out.append((t.end[0], t.end[1], what))
            elif t.type == tokenize.OP and t.string in ('.', '(', '['):
                out.append((t.end[0], t.end[1], 'op'))
    except (tokenize.TokenError, IndentationError, SyntaxError):
        out = []
        for li, l in enumerate(source.split('\n'), 1):
            for m in re.finditer(r'[A-Za-z_]\w*|[.(\[]', l):
                w = m.group(0)
                what = 'op' if w in '.([' else 'keyword' if keyword.iskeyword(w) else 'name'
                out.append((li, m.start() + 1, what))
                if len(w) > 1:
                    out.append((li, m.end(), what))
    seen = set()
    res = []
    for p in out:
        if p[:2] not in seen:
            seen.add(p[:2])
            res.append(p)
    return res

"""C01: several small statements on ONE line (`a = 1; b = a; c`), valid and half-typed.

The statement separator `;` is the one place where parso's error recovery and jedi's own
re-reading of error nodes (`imports.follow_error_node_imports_if_possible`: "where does the
statement of this name start?", `helpers.parse_dotted_names`) have to agree on statement
boundaries INSIDE a broken line.  What decides is which token stands directly in front of / behind
a `;` and how the line goes on after the last `;`.

Below a fixed, valid head (HEAD) one line is generated:

    <context prefix> piece SEP piece SEP ... piece <SEP tail>

  piece    a small statement, classified by its LAST token (name, attribute name, closing bracket,
           number, string, keyword, module name of an import)
  SEP      `;` with / without a blank in front and behind (`a;`, `a ;`, `;b`, `; b`)
  tail     how the line goes on after the last piece: nothing, a trailing `;`, `;;`, a stray closing
           bracket, a keyword that cannot continue the line (`else`, `def`, `class`, `except` ...),
           an unfinished import / assignment / call / operator, junk -- or the same without a `;`
  context  module level, the one-line body of if / class / def / for / while / with / try / else,
           an indented body, the last line of the file without newline, text following

  lines(rng, n_random, all_contexts) -> items {'id', 'kinds', 'line', 'ctx', 'source', 'row', 'col0'}
  positions(item, every_column)      -> [(line, column, what)] inside the generated line
  head_positions(item)               -> positions in HEAD of the names the line uses

The systematic part is independent of the seed in WHAT it covers: every tail after a piece that
ends in a name, with and without a blank in front of the `;` (the seed picks the pieces, the
other separators and the context); every kind of last token x every separator; every context.

Nothing here needs typeshed: no True / False / None, no results of builtin calls, no import of
an existing module."""
import re

HEAD = '''def f(p):
    return p


class K:
    x = 1

    def m(self, q):
        return q


a = f(1)
k = K()
n = 3
'''

# small statements by the kind of their last token
PIECES = {
    'name': ['b = a', 'a', 'c = n', 'b += n', 'assert a', 'del a', 'b = c = a', 'b: K = k', 'b = -n', 'b = n + a',
             'b, c = a, n', 'b = not a'],
    'attr': ['k.x', 'b = k.x', 'k.y = k.x', 'b = k.m'],
    'bracket': ['f(a)', 'c = f(n)', 'k.m(a)', 'b = [a, n]', 'b = (a)', 'f(a)(n)', 'b = {a: n}'],
    'number': ['b = 1', 'n = 0x1f', 'b = a + 1'],
    'string': ["c = 's'", "b = f'{a}'", '"""d"""'],
    'keyword': ['pass', 'break', 'continue', 'return', 'yield', 'raise'],
    'import': ['import zq', 'from zq import zr', 'import zq.zs as zt', 'from . import zq', 'from .zq import zr as a'],
    'flow-name': ['return a', 'raise a', 'yield n', 'global n', 'nonlocal a', 'await a'],
}
KINDS = sorted(PIECES)

# (blank in front of `;`, blank behind)
SEPS = [(False, True), (False, False), (True, True), (True, False)]

# how the line goes on after the last piece.  (name, needs a `;` first, text)
TAILS = [
    ('nothing', False, ''),
    ('trailing-semicolon', True, ''),
    ('double-semicolon', True, ';'),
    ('triple-semicolon', True, '; ;'),
    ('close-paren', True, ')'),
    ('close-bracket', True, ']'),
    ('close-brace', True, '}'),
    ('else', True, 'else'),
    ('else-colon', True, 'else: pass'),
    ('elif', True, 'elif a: pass'),
    ('except', True, 'except K: pass'),
    ('finally', True, 'finally'),
    ('def', True, 'def'),
    ('def-head', True, 'def g(z): return z'),
    ('class', True, 'class'),
    ('if', True, 'if'),
    ('if-line', True, 'if a: b = a'),
    ('for', True, 'for i in'),
    ('import', True, 'import'),
    ('from', True, 'from'),
    ('import-dot', True, 'import zq.'),
    ('from-dot', True, 'from zq.'),
    ('from-import', True, 'from zq import'),
    ('from-import-paren', True, 'from zq import (zr,'),
    ('equals', True, '='),
    ('dot', True, '.'),
    ('open-paren', True, '('),
    ('open-assign', True, 'b ='),
    ('open-call', True, 'b = f('),
    ('open-attr', True, 'k.'),
    ('open-binary', True, '1 +'),
    ('lambda', True, 'lambda'),
    ('two-names', True, 'a n'),
    ('decorator', True, '@'),
    ('colon', True, ':'),
    ('in', True, 'in'),
    ('not', True, 'not'),
    ('star', True, '*'),
    ('arrow', True, '->'),
    ('walrus', True, ':='),
    ('string-open', True, "'un"),
    ('comment', True, '# c; a'),
    ('backslash', True, '\\'),
    ('no-semi-close-paren', False, ' )'),
    ('no-semi-else', False, ' else: pass'),
    ('no-semi-name', False, ' a'),
    ('no-semi-equals', False, ' ='),
    ('no-semi-dot', False, '.'),
    ('no-semi-comma', False, ','),
]

# where the line stands: (name, template with one %s, needs the body to be simple statements)
CONTEXTS = [
    ('module', '%s\n'),
    ('if', 'if a: %s\n'),
    ('if-else', 'if a: %s\nelse: pass\n'),
    ('class', 'class Q: %s\n'),
    ('def', 'def g(z): %s\n'),
    ('for', 'for i in a: %s\n'),
    ('while', 'while n: %s\n'),
    ('with', 'with k as w: %s\n'),
    ('try', 'try: %s\nexcept K: pass\n'),
    ('else', 'if a:\n    pass\nelse: %s\n'),
    ('def-body', 'def g(z):\n    %s\n'),
    ('class-body', 'class Q:\n    %s\n'),
    ('method-body', 'class Q:\n    def h(self):\n        %s\n        return a\n'),
    ('last-line', '%s'),
    ('text-follows', 'c = a\n%s\nb = a; c = n\n'),
    ('async-def', 'async def co(z): %s\n'),
    ('if-body-else', 'if a:\n    %s\nelse:\n    c = a\n'),
]
# junk that may stand where a piece is expected (a broken piece in front / in the middle)
JUNK = [')', ']', '=', '.', 'else', 'def', 'import', 'from zq.', '(', 'a n', 'lambda', '1 +', 'class', ':', 'in']


def pick(rng, xs):
    return xs[rng.randrange(len(xs))]


def sep_text(sep):
    return (' ' if sep[0] else '') + ';' + (' ' if sep[1] else '')


def join_line(pieces, seps, tail, tail_sep):
    """pieces p0..pk, seps between them, then the tail (with `tail_sep` in front when it needs a `;`)"""
    s = pieces[0]
    for p, sp in zip(pieces[1:], seps):
        s += sep_text(sp) + p
    name, needs, text = tail
    if needs:
        t = sep_text(tail_sep)
        s += (t if text else t.rstrip(' ')) + text
    else:
        s += text
    return s


def make(ctx, line, kinds, ident):
    cname, tpl = ctx
    at = tpl.index('%s')
    source = HEAD + tpl % line
    before = HEAD + tpl[:at]
    row = before.count('\n') + 1
    col0 = len(before) - (before.rfind('\n') + 1)
    return {'id': ident, 'kinds': kinds + ['ctx:' + cname], 'line': line, 'ctx': cname, 'source': source,
            'row': row, 'col0': col0}


def random_line(rng, last_kind=None, tail=None, tail_sep=None, broken_piece=None):
    n = rng.randint(1, 3)
    kinds = [pick(rng, KINDS) for _ in range(n)]
    if last_kind is not None:
        kinds[-1] = last_kind
    pieces = [pick(rng, PIECES[k]) for k in kinds]
    if broken_piece is None:
        broken_piece = rng.random() < 0.15
    if broken_piece:
        pieces.insert(rng.randrange(len(pieces)), pick(rng, JUNK))
        kinds = ['junk-piece'] + kinds
    seps = [pick(rng, SEPS) for _ in pieces[1:]]
    tail = tail or pick(rng, TAILS)
    tail_sep = tail_sep or pick(rng, SEPS)
    line = join_line(pieces, seps, tail, tail_sep)
    labels = ['last:' + kinds[-1], 'tail:' + tail[0]]
    if tail[1]:
        labels.append('blank-before-semicolon' if tail_sep[0] else 'no-blank-before-semicolon')
    if broken_piece:
        labels.append('junk-piece')
    return line, labels


def lines(rng, n_random, all_contexts=False, all_kinds=False, blank_share=1.0):
    items = []
    ctxs = list(CONTEXTS)

    def ctx_for(i):
        # module level and the one-line bodies most often; the seed decides
        return ctxs[i % len(ctxs)] if rng.random() < 0.5 else pick(rng, ctxs[:9])

    k = 0
    # every tail after a piece that ends in a name, with and without a blank in front of the `;`
    for tail in TAILS:
        blanks = (False, True) if tail[1] else (False,)
        for blank in blanks:
            if blank and rng.random() >= blank_share:      # the control; all of them: thorough
                continue
            last = pick(rng, ['name', 'name', 'attr', 'flow-name'])
            line, labels = random_line(rng, last, tail, (blank, rng.random() < 0.6), broken_piece=False)
            items.append(make(ctx_for(k), line, ['sys-tail'] + labels, 's%d' % k))
            k += 1
    # every kind of last token x every separator, random tail (all of them: thorough)
    for kind in KINDS:
        for sep in (SEPS if all_kinds else [pick(rng, SEPS)]):
            line, labels = random_line(rng, kind, None, sep)
            items.append(make(ctx_for(k), line, ['sys-last'] + labels, 's%d' % k))
            k += 1
    # every context once (a third of them in the quick tier)
    for j, c in enumerate(ctxs):
        if not all_contexts and rng.random() < 0.66:
            continue
        line, labels = random_line(rng)
        items.append(make(c, line, ['sys-ctx'] + labels, 's%d' % k))
        k += 1
    for _ in range(n_random):
        line, labels = random_line(rng)
        items.append(make(pick(rng, ctxs), line, ['random'] + labels, 's%d' % k))
        k += 1
    return items


WORD = re.compile(r'[^\W\d]\w*')


def positions(item, every_column=False, inside=True):
    """(line, column, what) inside the generated line: the end (and, `inside`, for longer words
    the second character, else the start) of every word, directly behind every `;`, the end of
    the line"""
    row, col0, line = item['row'], item['col0'], item['line']
    first = line.split('\n')[0]
    if every_column:
        return [(row, col0 + c, 'column') for c in range(len(first) + 1)]
    out = []
    for m in WORD.finditer(first):
        out.append((row, col0 + m.end(), 'word-end'))
        if not inside:
            continue
        if m.end() - m.start() > 1:
            out.append((row, col0 + m.start() + 1, 'word-inside'))
        else:
            out.append((row, col0 + m.start(), 'word-start'))
    for m in re.finditer(';', first):
        out.append((row, col0 + m.end(), 'after-semicolon'))
    out.append((row, col0 + len(first), 'line-end'))
    return sorted(set(out))


def head_positions(item):
    """positions in HEAD of the names the line uses: a reference search started elsewhere in the
    file visits the occurrences on the generated line"""
    used = set(WORD.findall(item['line']))
    out = []
    for r, text in enumerate(HEAD.split('\n'), 1):
        for m in WORD.finditer(text):
            if m.group(0) in used and m.group(0) in ('a', 'k', 'n', 'f', 'K', 'x', 'm'):
                out.append((r, m.start(), m.group(0)))
    seen = set()
    res = []
    for r, c, w in out:
        if w not in seen:
            seen.add(w)
            res.append((r, c, w))
    return res

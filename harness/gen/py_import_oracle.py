"""Ground truth for C10, run in a clean interpreter (`python -S -E py_import_oracle.py < queries.json`).

Each query: {"sys_path": [...], "package": "a.b" | None, "modname": "a.b.m" | None, "level": n,
"names": [...], "from_name": str | None, "star_name": str | None}.  Generated module names all
start with "zq"; they are purged from sys.modules between queries so every query sees a fresh
interpreter as far as those modules are concerned."""
import importlib
import json
import sys
import types


def describe(obj):
    if isinstance(obj, types.ModuleType):
        f = getattr(obj, '__file__', None)
        if f:
            return {'kind': 'module', 'file': f}
        return {'kind': 'namespace', 'paths': list(obj.__path__)}
    if isinstance(obj, type):
        return {'kind': 'class', 'file': sys.modules[obj.__module__].__file__, 'name': obj.__name__}
    return {'kind': 'other', 'repr': repr(obj)}


def run(q):
    for k in [k for k in sys.modules if k.split('.')[0].startswith('zq')]:
        del sys.modules[k]
    sys.path[:] = q['sys_path']
    sys.path_importer_cache.clear()
    importlib.invalidate_caches()
    g = {'__name__': q.get('modname') or '__main__', '__package__': q.get('package')}
    name = '.'.join(q['names'])
    try:
        if q.get('star_name'):
            mod = importlib.__import__(name, g, None, ['*'], q['level'])
            return describe(getattr(mod, q['star_name']))
        if q.get('from_name') is None:
            if q['level']:
                return {'error': 'SyntaxError'}
            return describe(importlib.import_module(name))
        mod = importlib.__import__(name, g, None, [q['from_name']], q['level'])
        try:
            return describe(getattr(mod, q['from_name']))
        except AttributeError:
            return {'error': 'ImportError', 'msg': 'cannot import name'}
    except ModuleNotFoundError as e:
        return {'error': 'ModuleNotFoundError', 'msg': str(e)}
    except ImportError as e:
        return {'error': 'ImportError', 'msg': str(e)}
    except Exception as e:   # noqa
        return {'error': type(e).__name__, 'msg': str(e)}


if __name__ == '__main__':
    queries = json.load(sys.stdin)
    keep = list(sys.path)
    out = [run(q) for q in queries]
    sys.path[:] = keep
    json.dump(out, sys.stdout)

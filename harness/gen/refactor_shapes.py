"""Root-cause classification of refactoring inputs (used ONLY to key known findings of C06).

`shape_of(src, request, stream, observed)` returns exactly one shape string for a failure that the
direct oracle found: the first rule of RULES whose *syntactic predicate on the input* holds and whose
list of manifestations contains (stream, error class of the failure); `'unclassified'` otherwise -
an unrelated new defect therefore stays a VIOLATION.

Every predicate is an explicit rule over the parso tree of the INPUT (never of the output) and is a
condition under which the named root cause in jedi/api/refactoring is reached.  The rules:

  inline-slot-without-parentheses    a reference of the inlined name sits in a slot that binds tighter
        than the right-hand side, and `inline` looks only at `parent.type in EXPRESSION_PARTS`: value or
        condition of a conditional expression, operand of `*x` / `{**x}`, iterable or condition of a
        comprehension                                  (fixed by proposed_fixes/c06-1-inline-parenthesize-slots.diff)
  inline-attribute-reference-slot    the reference is `obj.name` (last trailer): `inline` inspects the
        trailer, not the slot `obj.name` sits in        (fixed by proposed_fixes/c06-2-inline-attribute-reference-slot.diff)
  inline-rhs-name-rebound-before-reference   `x = a * 3; a -= 1; y = x`: a name read by the right-hand side is bound
        again between the definition and a reference; `inline` moves the evaluation behind the rebinding
  inline-definition-first-on-semicolon-line   `x = 1; y = x`: the statement and the `;` are removed, the
        blank after `;` stays and the indentation is dropped (pinned by jedi's own test `semicolon`)
  extract-after-semicolon-uses-earlier-binding   the selection is in a later small statement of a
        `a = f(); b = a or a` line and mentions a name bound earlier on that line: the new line goes in
        front of the whole physical line
  extract-multiline-selection-loses-brackets   the selected text contains a line break that is only legal
        because of brackets around the selection, which stay behind
  extract-range-drops-unary-operator  explicit range whose first / last operand is `-x`, `+x`, `~x`:
        `_remove_unwanted_expression_nodes` computes start_index = 0 - 1 for the prefix operator
                                                        (fixed by proposed_fixes/c06-3-extract-keep-unary-operator.diff)
  extract-range-regroups-operator-chain   explicit range = operands k.. (k >= 1) of a left-associative chain
        `a - b - c`, `a // b % c`: documented behaviour of `_remove_unwanted_expression_nodes`, regroups
  extract-function-defining-name / -range-ends-at-statement-text / -until-next-line-start /
  extract-function-crlf-blank-line   statement ranges: see known_findings.d/C06.json
"""
import re

PARTS = ('or_test and_test not_test comparison expr xor_expr and_expr shift_expr arith_expr term factor '
         'power atom_expr').split()

# binding level of an expression by parso node type (the higher the tighter) - same scale as the
# Lean table `allRhs`
LEVEL = {'testlist_star_expr': -1, 'testlist': -1, 'lambdef': 0, 'test': 1, 'or_test': 2, 'and_test': 3,
         'not_test': 4, 'comparison': 5, 'expr': 6, 'xor_expr': 7, 'and_expr': 8, 'shift_expr': 9,
         'arith_expr': 10, 'term': 11, 'factor': 12, 'power': 13, 'atom_expr': 14}
CHAIN_REQ = {'or_test': (3, 3), 'and_test': (4, 4), 'comparison': (6, 6), 'expr': (6, 7), 'xor_expr': (7, 8),
             'and_expr': (8, 9), 'shift_expr': (9, 10), 'arith_expr': (10, 11), 'term': (11, 12)}


def level(node):
    return LEVEL.get(node.type, 15)


def slot_req(node):
    """weakest level the slot of `node` accepts without parentheses (None: not a slot known here)"""
    p = node.parent
    t = p.type
    first = p.children[0] is node
    if t in CHAIN_REQ:
        return CHAIN_REQ[t][0 if first else 1]
    if t == 'not_test':
        return 4
    if t == 'factor':
        return 12
    if t == 'power':
        return 14 if first else 12
    if t == 'atom_expr':
        return 14
    if t == 'test':
        return 0 if p.children[-1] is node else 2
    if t == 'star_expr':
        return 6
    if t == 'dictorsetmaker':
        prev = node.get_previous_sibling()
        return 6 if prev is not None and prev.type == 'operator' and prev.value == '**' else 0
    if t in ('sync_comp_for', 'comp_for'):
        return 2
    if t == 'comp_if':
        return 2
    return None


def jedi_unfixed_parens(rhs, name):
    """the rule of the unchanged `inline`"""
    p = name.parent
    return rhs.type == 'testlist_star_expr' or p.type in PARTS or \
        (p.type == 'trailer' and p.get_next_sibling() is not None)


def _leaves(mod):
    l = mod.get_first_leaf()
    while l is not None:
        yield l
        l = l.get_next_leaf()


def _name_at(mod, pos):
    for l in _leaves(mod):
        if l.type == 'name' and l.start_pos <= tuple(pos) < l.end_pos:
            return l
    return None


def _inline_facts(mod, pos):
    """(definition expr_stmt, rhs, [reference name leaves]) by name equality, or None"""
    leaf = _name_at(mod, pos)
    if leaf is None:
        return None
    same = [l for l in _leaves(mod) if l.type == 'name' and l.value == leaf.value]
    defs = [l for l in same if l.is_definition()]
    if len(defs) != 1:
        return None
    st = defs[0].get_definition()
    if st is None or st.type != 'expr_stmt':
        return None
    try:
        rhs = st.get_rhs()
    except Exception:
        return None
    return st, rhs, [l for l in same if not l.is_definition()]


def _is_attr_ref(name):
    p = name.parent
    return p.type == 'trailer' and p.children[0].type == 'operator' and p.children[0].value == '.' \
        and p.get_next_sibling() is None and p.parent.type == 'atom_expr'


# ------------------------------------------------------------------ inline predicates

def inline_slot_without_parentheses(mod, req):
    f = _inline_facts(mod, (req['line'], req['column']))
    if f is None:
        return False
    st, rhs, refs = f
    for r in refs:
        if r.parent.type == 'trailer':
            continue
        q = slot_req(r)
        if q is not None and level(rhs) < q and not jedi_unfixed_parens(rhs, r):
            return True
    return False


def inline_attribute_reference_slot(mod, req):
    f = _inline_facts(mod, (req['line'], req['column']))
    if f is None:
        return False
    st, rhs, refs = f
    for r in refs:
        if _is_attr_ref(r):
            q = slot_req(r.parent.parent)
            if q is not None and level(rhs) < q and rhs.type != 'testlist_star_expr':
                return True
    return False


def inline_definition_first_on_semicolon_line(mod, req):
    f = _inline_facts(mod, (req['line'], req['column']))
    if f is None:
        return False
    st = f[0]
    simple = st.parent
    if simple.type != 'simple_stmt' or simple.children[0] is not st:
        return False
    nxt = st.get_next_leaf()
    return nxt is not None and nxt.type == 'operator' and nxt.value == ';'


def inline_rhs_name_rebound_before_reference(mod, req):
    """a name that the right-hand side of the inlined definition reads is bound again (assignment, augmented
    assignment, for target, ...) between the definition and one of the references: the inlined expression is
    evaluated after the rebinding"""
    f = _inline_facts(mod, (req['line'], req['column']))
    if f is None:
        return False
    st, rhs, refs = f
    if not refs:
        return False
    last_ref = max(r.start_pos for r in refs)
    read = set()
    for l in _leaves(rhs) if hasattr(rhs, 'children') else [rhs]:
        if l.start_pos >= rhs.end_pos:
            break
        if l.type == 'name' and not l.is_definition() and \
                not (l.parent.type == 'trailer' and l.parent.children[0] == '.'):
            read.add(l.value)
    for l in _leaves(mod):
        if l.type == 'name' and l.value in read and l.is_definition() \
                and st.end_pos <= l.start_pos < last_ref:
            return True
    return False


# ------------------------------------------------------------------ extract predicates

def _selection(mod, req):
    """(start, end) of an explicit range, None for cursor-only requests"""
    if req.get('until_line') is None or req.get('until_column') is None:
        return None
    return (req['line'], req['column']), (req['until_line'], req['until_column'])


def _leaves_in(mod, start, end):
    return [l for l in _leaves(mod) if l.start_pos >= start and l.end_pos <= end and l.type != 'endmarker']


def _cover(mod, start, end):
    """smallest node that covers the leaves of the range"""
    ls = _leaves_in(mod, start, end)
    if not ls:
        return None, ls
    n = ls[0]
    while n.parent is not None and not (n.start_pos <= ls[0].start_pos and n.end_pos >= ls[-1].end_pos):
        n = n.parent
    return n, ls


def _cursor_node(mod, pos):
    """the node a cursor-only extract request selects (the walk of extract._find_nodes, until_pos=None)"""
    n = mod.get_leaf_for_position(pos, include_prefixes=True)
    if n is None:
        return None
    if n.type == 'operator':
        nxt = n.get_next_leaf()
        if nxt is not None and nxt.start_pos == pos:
            n = nxt
    if n.type == 'operator' or (n.type == 'keyword' and n.value not in ('None', 'True', 'False')):
        n = n.parent
    if n.parent is None:
        return None
    if n.parent.type == 'trailer':
        n = n.parent.parent
    while n.parent is not None and n.parent.type in PARTS:
        n = n.parent
    return n


def extract_after_semicolon_uses_earlier_binding(mod, req):
    pos = (req['line'], req['column'])
    leaf = mod.get_leaf_for_position(pos, include_prefixes=True)
    if leaf is None:
        return False
    if leaf.end_pos == pos and leaf.get_next_leaf() is not None:
        leaf = leaf.get_next_leaf()
    n = leaf
    while n.parent is not None and n.parent.type != 'simple_stmt':
        n = n.parent
    if n.parent is None:
        return False
    simple = n.parent
    small = [c for c in simple.children if c.type not in ('operator', 'newline')]
    if n not in small or small.index(n) == 0:
        return False
    bound = set()
    for s in small[:small.index(n)]:
        for l in _leaves(s) if hasattr(s, 'children') else [s]:
            if l.start_pos >= s.end_pos:
                break
            if l.type == 'name' and l.is_definition():
                bound.add(l.value)
    sel = _selection(mod, req)
    if sel is None:
        m = _cursor_node(mod, pos)
        if m is None:
            return False
        used = {l.value for l in _leaves_in(mod, m.start_pos, m.end_pos) if l.type == 'name'}
    else:
        used = {l.value for l in _leaves_in(mod, sel[0], sel[1]) if l.type == 'name'}
    return bool(bound & used)


def extract_multiline_selection_loses_brackets(mod, req, lines):
    sel = _selection(mod, req)
    if sel is None:
        m = _cursor_node(mod, (req['line'], req['column']))
        if m is None:
            return False
        ls = _leaves_in(mod, m.start_pos, m.end_pos)
    else:
        ls = _leaves_in(mod, sel[0], sel[1])
    if any(l.type == 'newline' for l in ls):
        return False                    # a statement range, not an expression
    depth = 0
    for a, b in zip(ls, ls[1:]):
        if a.type == 'operator' and a.value in '([{':
            depth += 1
        if a.type == 'operator' and a.value in ')]}':
            depth -= 1
        if depth <= 0 and b.start_pos[0] > a.end_pos[0]:
            return True
    return False


def _edge_factor(top, start, end):
    """a `factor` (unary operator) strictly inside `top` that starts at the first or ends at the
    last selected leaf"""
    def rec(n):
        if not hasattr(n, 'children'):
            return False
        if n is not top and n.type == 'factor' and n.children[0].type == 'operator' \
                and (n.start_pos == start or n.end_pos == end) and n.start_pos >= start and n.end_pos <= end:
            return True
        return any(rec(c) for c in n.children if c.end_pos > start and c.start_pos < end)
    return rec(top)


def extract_range_drops_unary_operator(mod, req):
    sel = _selection(mod, req)
    if sel is None:
        return False
    top, ls = _cover(mod, *sel)
    if top is None or top.type not in PARTS:
        return False
    return _edge_factor(top, ls[0].start_pos, ls[-1].end_pos)


def extract_range_regroups_operator_chain(mod, req):
    """the range is inside an operator chain but is neither one whole sub-expression node nor the
    operands 0..j of the chain (which is how a left-associative chain groups)"""
    sel = _selection(mod, req)
    if sel is None:
        return False
    top, ls = _cover(mod, *sel)
    if top is None or top.type not in PARTS or not hasattr(top, 'children'):
        return False
    if top.get_first_leaf() is ls[0] and top.get_last_leaf() is ls[-1]:
        return False                    # one whole node
    if top.type in CHAIN_REQ and top.get_first_leaf() is ls[0]:
        ends = [o.get_last_leaf() for o in top.children[0::2]]
        if any(e is ls[-1] for e in ends):
            return False                # operands 0..j
    return True


def _statement_range(mod, req):
    """the range starts at the first leaf of a statement of a suite and is not one expression"""
    sel = _selection(mod, req)
    if sel is None:
        return None
    leaf = mod.get_leaf_for_position(sel[0], include_prefixes=True)
    if leaf is None:
        return None
    if leaf.end_pos == sel[0] and leaf.get_next_leaf() is not None:
        leaf = leaf.get_next_leaf()
    n = leaf
    while n.parent is not None and n.parent.type not in ('suite', 'file_input'):
        n = n.parent
    if n.parent is None or n.get_first_leaf() is not leaf:
        return None
    return n, sel


def extract_function_defining_name(mod, req):
    sel = _selection(mod, req)
    if sel is None:
        return False
    ls = _leaves_in(mod, *sel)
    return len(ls) == 1 and ls[0].type == 'name' and ls[0].is_definition()


def extract_function_range_ends_at_statement_text(mod, req):
    r = _statement_range(mod, req)
    if r is None:
        return False
    n, (start, end) = r
    last = mod.get_leaf_for_position(end, include_prefixes=True)
    if last is not None and last.type != 'newline' and last.end_pos == end:
        last = last.get_next_leaf()
    if last is None or last.type != 'newline' or not (last.get_start_pos_of_prefix() <= end <= last.start_pos):
        return False
    # the whole range = whole statements, the final line break excluded
    st = last.parent
    while st.parent is not None and st.parent.type not in ('suite', 'file_input'):
        st = st.parent
    return st.parent is n.parent and st.start_pos >= n.start_pos


def extract_function_until_next_line_start(mod, req):
    r = _statement_range(mod, req)
    if r is None:
        return False
    n, (start, end) = r
    return end[1] == 0 and end[0] > start[0]


def extract_function_crlf_blank_line(mod, req, lines):
    r = _statement_range(mod, req)
    if r is None:
        return False
    n, (start, end) = r
    if n.parent.type != 'suite':
        return False
    # textwrap.dedent finds no common margin when an empty line ends in \r\n
    return any(lines[k - 1] in ('\r\n',) for k in range(start[0], min(end[0] + 1, len(lines)) + 1)
               if 0 < k <= len(lines))


# ------------------------------------------------------------------ C07 (text preservation)

EXPRESSION_TYPES = PARTS + ('atom testlist_star_expr testlist test lambdef lambdef_nocond keyword name number '
                            'string fstring').split()


def extract_function_range_starts_mid_statement(mod, req):
    """statement-range mode (the covering node of the range is not an expression) and the range starts
    on a later line than the first selected statement: _suite_nodes_to_string calls
    _split_prefix_at(first_leaf, pos[0] - 1) with a line count <= 0, `lines[:-0]` is empty, so the
    whole prefix of the statement (blank / comment lines in front of it) moves into the new function"""
    sel = _selection(mod, req)
    if sel is None or req.get('kind') != 'extract_function':
        return False
    start = mod.get_leaf_for_position(sel[0], include_prefixes=True)
    if start is None:
        return False
    if start.end_pos == sel[0] and start.get_next_leaf() is not None:
        start = start.get_next_leaf()
    if start.type == 'operator' or (start.type == 'keyword' and start.value not in ('None', 'True', 'False')):
        start = start.parent
    end = mod.get_leaf_for_position(sel[1], include_prefixes=True)
    if end is None:
        return False
    if end.start_pos > sel[1] and end.get_previous_leaf() is not None:
        end = end.get_previous_leaf()
    parent = start
    while parent.parent is not None and parent.end_pos < end.end_pos:
        parent = parent.parent
    if parent.type in EXPRESSION_TYPES:
        return False                    # expression mode
    # the first node jedi selects: the covering node, or the first child of a covering suite in range
    stmt = parent
    if parent.type in ('suite', 'file_input'):
        inr = [c for c in parent.children if c.end_pos > sel[0]]
        if not inr:
            return False
        stmt = inr[0]
    return stmt.start_pos[0] < sel[0][0]


def c07_shape_of(src, request):
    """root-cause shape of a text-preservation failure (C07 oracle-bytes)"""
    import parso
    try:
        if extract_function_range_starts_mid_statement(parso.parse(src), request):
            return 'extract-function-range-starts-mid-statement'
    except Exception:
        pass
    return 'unclassified'


# ------------------------------------------------------------------ the table

SYNTAX = ('SyntaxError', 'IndentationError', 'TabError')


def _err(observed):
    """error class of a failure: the compile error, or the exception class of the new run, or 'differs'"""
    if not isinstance(observed, dict):
        return ''
    e = observed.get('error')
    if isinstance(e, str):
        return e.split(':')[0]
    d = observed.get('differences')
    if isinstance(d, dict) and isinstance(d.get('new'), (list, tuple)) and len(d['new']) > 1:
        return str(d['new'][1])
    return 'differs'


# shape -> (kinds, predicate, {stream: allowed error classes or None for any})
ANY = None
RULES = [
    # rules of root causes that stay (no fix proposed) come before those of proposed fixes, so that on a tree
    # with the fixes applied a failure is never attributed to a root cause that is gone
    ('inline-definition-first-on-semicolon-line', ('inline',),
     lambda m, r, ls: inline_definition_first_on_semicolon_line(m, r),
     {'oracle-compile': ('IndentationError',), 'oracle-roundtrip': ('IndentationError',)}),
    ('inline-slot-without-parentheses', ('inline',), lambda m, r, ls: inline_slot_without_parentheses(m, r),
     {'oracle-compile': ('SyntaxError',), 'oracle-equiv': ANY, 'oracle-parens': ANY}),
    ('inline-attribute-reference-slot', ('inline',), lambda m, r, ls: inline_attribute_reference_slot(m, r),
     {'oracle-compile': ('SyntaxError',), 'oracle-equiv': ANY}),
    ('inline-rhs-name-rebound-before-reference', ('inline',),
     lambda m, r, ls: inline_rhs_name_rebound_before_reference(m, r), {'oracle-equiv': ANY}),
    ('extract-function-defining-name', ('extract_function',),
     lambda m, r, ls: extract_function_defining_name(m, r), {'oracle-compile': ('SyntaxError',)}),
    ('extract-multiline-selection-loses-brackets', ('extract_variable', 'extract_function'),
     lambda m, r, ls: extract_multiline_selection_loses_brackets(m, r, ls),
     {'oracle-compile': ('SyntaxError', 'IndentationError')}),
    ('extract-function-crlf-blank-line', ('extract_function',),
     lambda m, r, ls: extract_function_crlf_blank_line(m, r, ls), {'oracle-compile': ('IndentationError',)}),
    ('extract-function-until-next-line-start', ('extract_function',),
     lambda m, r, ls: extract_function_until_next_line_start(m, r),
     {'oracle-compile': ('SyntaxError', 'IndentationError')}),
    ('extract-function-range-ends-at-statement-text', ('extract_function',),
     lambda m, r, ls: extract_function_range_ends_at_statement_text(m, r), {'oracle-compile': ('SyntaxError',)}),
    ('extract-after-semicolon-uses-earlier-binding', ('extract_variable', 'extract_function'),
     lambda m, r, ls: extract_after_semicolon_uses_earlier_binding(m, r),
     {'oracle-equiv': ('UnboundLocalError', 'NameError', 'differs')}),
    ('extract-range-regroups-operator-chain', ('extract_variable', 'extract_function'),
     lambda m, r, ls: extract_range_regroups_operator_chain(m, r), {'oracle-equiv': ANY}),
    ('extract-range-drops-unary-operator', ('extract_variable', 'extract_function'),
     lambda m, r, ls: extract_range_drops_unary_operator(m, r),
     {'oracle-compile': ('SyntaxError',), 'oracle-equiv': ANY}),
]


def split_keepends(s):
    return re.findall(r'[^\r\n]*(?:\r\n|\n|\r)|[^\r\n]+', s)


def shapes_of(src, request):
    """every rule whose predicate holds on the input (in table order)"""
    import parso
    mod = parso.parse(src)
    lines = split_keepends(src)
    out = []
    for shape, kinds, pred, _ in RULES:
        if request.get('kind') in kinds:
            try:
                if pred(mod, request, lines):
                    out.append(shape)
            except Exception:           # a rule that cannot read the input does not explain it
                continue
    return out


def shape_of(src, request, stream, observed):
    err = _err(observed)
    hold = shapes_of(src, request)
    for shape, kinds, pred, manifest in RULES:
        if shape in hold and stream in manifest:
            allowed = manifest[stream]
            if allowed is None or err in allowed:
                return shape
    return 'unclassified'

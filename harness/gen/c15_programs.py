"""Program generators for C15 (and reused by C16): self-referential definition graphs and
scaling families.  Pure functions of an rng / a size; no jedi import.

Sandbox note: typeshed is empty, so generated programs avoid True/False/None literals and do
not rely on results of builtin calls."""


# ------------------------------------------------------------------ scaling families

def fam_assign_chain(n):
    return "a0 = 1\n" + "".join("a%d = a%d\n" % (i, i - 1) for i in range(1, n + 1)) + "a%d" % n


def fam_call_chain(n):
    return ("def f0():\n    return 1\n"
            + "".join("def f%d():\n    return f%d()\n" % (i, i - 1) for i in range(1, n + 1))
            + "x = f%d()\nx" % n)


def fam_call_diamond(n):
    return ("def f0():\n    return 1\n"
            + "".join("def f%d():\n    if zz:\n        return f%d()\n    return f%d()\n" % (i, i - 1, i - 1)
                      for i in range(1, n + 1))
            + "x = f%d()\nx" % n)


def fam_assign_diamond(n):
    return ("a0 = 1\n" + "".join("a%d = a%d or a%d\n" % (i, i - 1, i - 1) for i in range(1, n + 1))
            + "a%d" % n)


def fam_call_tree(n):
    """binary call tree with n functions: f_i returns f_{2i+1}() or f_{2i+2}() (both branches live)"""
    s = ""
    for i in range(n):
        kids = [c for c in (2 * i + 1, 2 * i + 2) if c < n]
        if len(kids) == 2:
            s += "def f%d():\n    if zz:\n        return f%d()\n    return f%d()\n" % (i, kids[0], kids[1])
        elif len(kids) == 1:
            s += "def f%d():\n    return f%d()\n" % (i, kids[0])
        else:
            s += "def f%d():\n    return %d\n" % (i, i)
    return s + "x = f0()\nx"


def fam_class_chain(n):
    return ("class C0:\n    a = 1\n" + "".join("class C%d(C%d): pass\n" % (i, i - 1) for i in range(1, n + 1))
            + "x = C%d().a\nx" % n)


def fam_attr_chain(n):
    s = "class K:\n    def __init__(self, v):\n        self.v = v\n"
    s += "o0 = K(1)\n" + "".join("o%d = K(o%d)\n" % (i, i - 1) for i in range(1, n + 1))
    return s + "y = o%d%s\ny" % (n, ".v" * min(n, 6))


def fam_self_calls(n):
    """one function calling itself n times in its body (unbounded recursion, fan-out n)"""
    return "def f(a):\n    return " + " or ".join(["f(a)"] * n) + " or a\nx = f(1)\nx"


def fam_mutual_ring(n):
    """ring of n mutually recursive functions"""
    s = "".join("def g%d(a):\n    return g%d(a)\n" % (i, (i + 1) % n) for i in range(n))
    return s + "x = g0(1)\nx"


def fam_assign_ring(n):
    return "".join("r%d = r%d\n" % (i, (i + 1) % n) for i in range(n)) + "r0"


def wide_tuple(n):
    """n module-level names all inferred by one query at shallow depth (iteration over a tuple)"""
    return ("".join("a%d = %d\n" % (i, i) for i in range(n)) + "y = (" + ", ".join("a%d" % i for i in range(n))
            + ")\nfor z in y:\n    z")


FAMILIES = {
    'assign_chain': fam_assign_chain, 'call_chain': fam_call_chain, 'call_diamond': fam_call_diamond,
    'assign_diamond': fam_assign_diamond, 'call_tree': fam_call_tree, 'class_chain': fam_class_chain,
    'attr_chain': fam_attr_chain, 'self_calls': fam_self_calls, 'mutual_ring': fam_mutual_ring,
    'assign_ring': fam_assign_ring,
}


# ------------------------------------------------------------------ inheritance scaling families
# Each returns (source, number of classes, attribute defined on the root class).  The source ends
# in `x = <Top>()\nx.` ; the queries append an attribute name / prefix (see inherit_queries).
# Every class defines one method so that completion has to visit every class of the MRO.

def _cls(name, bases, i):
    head = "class %s(%s):\n" % (name, ", ".join(bases)) if bases else "class %s:\n" % name
    return head + "    def m_%s(self): return self\n" % name.lower()


def inh_chain(n):
    """C_n(C_{n-1}) ... C_0: n+1 classes"""
    s = _cls("C0", [], 0)
    for i in range(1, n + 1):
        s += _cls("C%d" % i, ["C%d" % (i - 1)], i)
    return s + "x = C%d()\nx." % n, n + 1, "m_c0"


def inh_diamonds(n):
    """n nested diamonds: C_i(A_i, B_i), A_i(C_{i-1}), B_i(C_{i-1}); 3n+1 classes, 2^n paths"""
    s = _cls("C0", [], 0)
    for i in range(1, n + 1):
        s += _cls("A%d" % i, ["C%d" % (i - 1)], i)
        s += _cls("B%d" % i, ["C%d" % (i - 1)], i)
        s += _cls("C%d" % i, ["A%d" % i, "B%d" % i], i)
    return s + "x = C%d()\nx." % n, 3 * n + 1, "m_c0"


def inh_mixin_ladder(n):
    """L_i(L_{i-1}, M_i) with every mixin M_i(Root) and L_0(Root): 2n+2 classes, Root reachable
    through n+1 paths"""
    s = _cls("Root", [], 0) + _cls("L0", ["Root"], 0)
    for i in range(1, n + 1):
        s += _cls("M%d" % i, ["Root"], i)
        s += _cls("L%d" % i, ["L%d" % (i - 1), "M%d" % i], i)
    return s + "x = L%d()\nx." % n, 2 * n + 2, "m_root"


def inh_lattice(n):
    """two classes per level, each inheriting from both classes of the level below: 2n+1 classes,
    2^n paths from the top to the root"""
    s = _cls("R", [], 0)
    prev = ["R"]
    for i in range(1, n + 1):
        s += _cls("X%d" % i, prev, i) + _cls("Y%d" % i, prev, i)
        prev = ["X%d" % i, "Y%d" % i]
    s += _cls("Top", prev, 0)
    return s + "x = Top()\nx.", 2 * n + 2, "m_r"


def inh_tree(n):
    """binary tree of multiple inheritance with n classes: T_i(T_{2i+1}, T_{2i+2})"""
    s = ""
    for i in reversed(range(n)):
        kids = ["T%d" % c for c in (2 * i + 1, 2 * i + 2) if c < n]
        s += _cls("T%d" % i, kids, i)
    return s + "x = T0()\nx.", n, "m_t%d" % (n - 1)


def inh_shared_mixins(n):
    """n classes that all list the same n mixins: K_i(K_{i-1}, M_1 .. M_n); 2n+1 classes, n^2 edges"""
    s = "".join(_cls("M%d" % j, [], j) for j in range(1, n + 1)) + _cls("K0", [], 0)
    ms = ["M%d" % j for j in range(1, n + 1)]
    for i in range(1, n + 1):
        s += _cls("K%d" % i, ["K%d" % (i - 1)] + ms, i)
    return s + "x = K%d()\nx." % n, 2 * n + 1, "m_k0"


INHERIT_FAMILIES = {
    'inh_chain': inh_chain, 'inh_diamonds': inh_diamonds, 'inh_mixin_ladder': inh_mixin_ladder,
    'inh_lattice': inh_lattice, 'inh_tree': inh_tree, 'inh_shared_mixins': inh_shared_mixins,
}


def inherit_queries(src, root_attr):
    """[(query, source, line, column)]: complete after `x.m_`, infer / goto of the attribute that
    only the last class of the MRO defines"""
    out = []
    for q, tail in (('complete', 'm_'), ('infer', root_attr), ('goto', root_attr)):
        text = src + tail
        line, col = last_pos(text)
        out.append((q, text, line, col))
    return out


def last_pos(src):
    lines = src.split('\n')
    return len(lines), len(lines[-1])


# ------------------------------------------------------------------ fixed cyclic shapes

FIXED = [
    ("cyclic-assign", "a = b\nb = a\na"),
    ("cyclic-assign-3", "a = b\nb = c\nc = a\nc"),
    ("self-assign", "a = a\na"),
    ("unbounded-recursion", "def f(x):\n    return f(x)\nf(1)"),
    ("recursion-growing", "def f(x):\n    return f([x])\ny = f(1)\ny"),
    ("mutual-recursion", "def f(x):\n    return g(x)\ndef g(x):\n    return f(x)\nz = f(1)\nz"),
    ("self-inheritance", "class A(A):\n    x = 1\nA().x"),
    ("cyclic-inheritance", "class A(B):\n    a = 1\nclass B(A):\n    b = 2\nB().a"),
    ("cyclic-inheritance-complete", "class A(B):\n    a = 1\nclass B(A):\n    b = 2\nB()."),
    ("list-contains-itself", "x = []\nx.append(x)\nx[0]"),
    ("list-literal-self", "x = [x]\nx[0]"),
    ("dict-self", "d = {'k': d}\nd['k']"),
    ("tuple-swap", "a, b = b, a\na"),
    ("recursive-decorator", "def deco(f):\n    return deco(f)\n@deco\ndef g():\n    return 1\ng()"),
    ("self-decorator", "@h\ndef h(f):\n    return f\nh"),
    ("decorator-cycle", "@q\ndef p(f):\n    return f\n@p\ndef q(f):\n    return f\nq(1)"),
    ("recursive-property", "class P:\n    @property\n    def v(self):\n        return self.v\nP().v"),
    ("mutual-property", "class P:\n    @property\n    def v(self):\n        return self.w\n    @property\n"
                        "    def w(self):\n        return self.v\nP().w"),
    ("recursive-generator", "def gen():\n    yield from gen()\n    yield 1\nfor q in gen():\n    q"),
    ("generator-of-self", "def gen():\n    for i in gen():\n        yield i\nfor q in gen():\n    q"),
    ("recursive-getattr", "class G:\n    def __getattr__(self, name):\n        return self.other\nG().foo"),
    ("getattr-getattr", "class G:\n    def __getattr__(self, name):\n        return getattr(self, name)\nG().foo"),
    ("self-attribute-cycle", "class S:\n    def __init__(self):\n        self.a = self.b\n        self.b = self.a\nS().a"),
    ("instance-of-instance", "class T:\n    def m(self):\n        return T().m()\nT().m()"),
    ("lambda-self", "l = lambda: l()\nl()"),
    ("comprehension-self", "c = [c for c in c]\nc"),
    ("default-arg-cycle", "def d1(a=d2):\n    return a\ndef d2(a=d1):\n    return a\nd1()"),
    ("call-result-cycle", "def k1():\n    return k2\ndef k2():\n    return k1\nk1()()()()()"),
    ("class-attr-cycle", "class U:\n    x = V.y\nclass V:\n    y = U.x\nU.x"),
    ("while-rebind", "w = 1\nwhile w:\n    w = [w]\nw"),
    ("for-rebind", "it = [1]\nfor it in it:\n    it = [it]\nit"),
    ("star-import-self", "from . import *\nfoo"),
    ("global-recursion", "def gg():\n    global gv\n    gv = gg()\n    return gv\ngv"),
    ("super-cycle", "class X1(X2):\n    def m(self):\n        return super().m()\nclass X2(X1):\n"
                    "    def m(self):\n        return super().m()\nX1().m()"),
    ("metaclass-self", "class M(type, metaclass=M):\n    pass\nM"),
    ("nested-self-call", "def n1(f):\n    return f(f)\nn1(n1)"),
    ("type-comment-self", "foo = int\nfoo = foo  # type: foo\nfoo"),
    ("type-comment-self-in-function", "def k():\n    bar = int\n    bar = bar  # type: bar\n    bar"),
    ("annotation-self", "ann: ann = ann\nann"),
    ("annotation-cycle", "p1: p2 = 1\np2: p1 = 2\np1"),
    ("augmented-self", "q = 1\nq += q\nq"),
    ("with-self", "with w1 as w1:\n    w1"),
    ("except-self", "try:\n    pass\nexcept e1 as e1:\n    e1"),
    ("y-combinator", "def Y(f):\n    return (lambda x: x(x))(lambda x: f(lambda *a: x(x)(*a)))\nY(Y)"),
]


# positions (besides the last one) that are always queried, also in the quick tier
EXTRA_POSITIONS = {"comprehension-self": [(1, 6)]}


# ------------------------------------------------------------------ random definition graphs

EDGE_KINDS = ['assign', 'call', 'inherit', 'attr', 'container', 'either', 'default', 'decorate',
              'generator', 'property']


def gen_graph_program(rng, nmax=40):
    """random definition graph: node i is one top-level definition `v<i>` whose right-hand side /
    body refers to other nodes (any direction, so cycles and self loops are frequent)."""
    n = rng.randint(2, nmax)
    lines = []
    kinds = []
    edges = []

    def ref():
        j = rng.randrange(n)
        return j

    for i in range(n):
        k = rng.choice(EDGE_KINDS)
        j = ref()
        j2 = ref()
        kinds.append(k)
        edges.append((i, j, k))
        if k == 'assign':
            lines.append("v%d = v%d" % (i, j))
        elif k == 'call':
            lines.append("def v%d(*a):\n    return v%d(*a)" % (i, j))
        elif k == 'inherit':
            lines.append("class v%d(v%d):\n    at%d = v%d" % (i, j, i, j2))
            edges.append((i, j2, 'classattr'))
        elif k == 'attr':
            lines.append("v%d = v%d.at%d" % (i, j, j2))
        elif k == 'container':
            lines.append(rng.choice(["v%d = [v%d]", "v%d = (v%d, 1)", "v%d = {'k': v%d}", "v%d = v%d[0]"]) % (i, j))
        elif k == 'either':
            lines.append("v%d = v%d or v%d" % (i, j, j2))
            edges.append((i, j2, 'either'))
        elif k == 'default':
            lines.append("def v%d(p=v%d):\n    return p" % (i, j))
        elif k == 'decorate':
            lines.append("@v%d\ndef v%d(f):\n    return f" % (j, i))
        elif k == 'generator':
            lines.append("def v%d():\n    yield from v%d()\n    yield v%d" % (i, j, j2))
            edges.append((i, j2, 'yield'))
        elif k == 'property':
            lines.append("class v%d:\n    @property\n    def at%d(self):\n        return v%d().at%d\n"
                         "    def __getattr__(self, name):\n        return self.at%d"
                         % (i, i, j, j2, i))
    body = '\n'.join(lines) + '\n'
    nbody = body.count('\n')
    uses = []
    use_lines = []
    for _ in range(rng.randint(2, 6)):
        i = rng.randrange(n)
        form = rng.choice(['v%d', 'v%d()', 'v%d.at%d', 'v%d()()', 'v%d[0]', 'v%d().at%d'])
        text = form % ((i, rng.randrange(n)) if form.count('%d') == 2 else (i,))
        use_lines.append(text)
        uses.append((nbody + len(use_lines), len(text), text))
    src = body + '\n'.join(use_lines)
    cyclic = _has_cycle(n, edges)
    return src, uses, {'n': n, 'kinds': sorted(set(kinds)), 'cyclic': cyclic, 'edges': len(edges)}


def _has_cycle(n, edges):
    adj = {}
    for a, b, _ in edges:
        adj.setdefault(a, []).append(b)
    color = [0] * n
    for s in range(n):
        if color[s]:
            continue
        stack = [(s, iter(adj.get(s, [])))]
        color[s] = 1
        while stack:
            v, it = stack[-1]
            for w in it:
                if color[w] == 1:
                    return True
                if color[w] == 0:
                    color[w] = 1
                    stack.append((w, iter(adj.get(w, []))))
                    break
            else:
                color[v] = 2
                stack.pop()
    return False


def import_cycle_project(rng, k):
    """files of a package-less project whose modules import each other in a ring / at random"""
    files = {}
    for i in range(k):
        j = (i + 1) % k if rng.random() < 0.6 else rng.randrange(k)
        style = rng.choice(['from', 'import', 'star'])
        if style == 'from':
            files['m%d.py' % i] = "from m%d import val as other\nval = other\n" % j
        elif style == 'import':
            files['m%d.py' % i] = "import m%d\nval = m%d.val\n" % (j, j)
        else:
            files['m%d.py' % i] = "from m%d import *\nval = val\n" % j
    main = "import m0\nfrom m%d import val\nm0.val\nval" % rng.randrange(k)
    return files, main


# ------------------------------------------------------------------ star-import graphs

def star_reach(star, v):
    """modules whose names `from m<v> import *` hands on, statically: transitive closure over the
    star edges, `v` itself excluded unless it is on a cycle"""
    seen, todo = [], list(star[v])
    while todo:
        w = todo.pop(0)
        if w not in seen:
            seen.append(w)
            todo += star[w]
    return seen


def star_project(rng, k):
    """a project of k modules m0..m{k-1} + main.py whose import statements form a graph with at
    least one cycle of length L (1 <= L <= k); the edges are `from mJ import *` or `import mJ`.
    Every module defines one class with one method and an instance; the uses of foreign names sit
    in a function that is never called, so the real interpreter imports every module whatever
    the order.  Returns (files, uses, meta): uses[file] = [(line, column, name)] at the END of
    names that are not defined in that file (found through star filters / module attributes)."""
    L = rng.randint(1, k)
    ring = rng.sample(range(k), L)
    cyc_style = rng.choice(['star', 'star', 'mixed'])
    edges = {i: [] for i in range(k)}       # i -> [(j, style)]
    for a, b in zip(ring, ring[1:] + ring[:1]):
        edges[a].append((b, 'star' if cyc_style == 'star' or rng.random() < 0.5 else 'import'))
    for _ in range(rng.randint(0, k)):
        a, b = rng.randrange(k), rng.randrange(k)
        if all(b != j for j, _s in edges[a]):
            edges[a].append((b, rng.choice(['star', 'star', 'import'])))
    for i in range(k):
        rng.shuffle(edges[i])
    star = {i: [j for j, s in edges[i] if s == 'star'] for i in range(k)}
    files, uses = {}, {}
    for i in range(k):
        lines = []
        for j, s in edges[i]:
            lines.append('from m%d import *' % j if s == 'star' else 'import m%d' % j)
        lines += ['class C%d:' % i, '    def meth%d(self):' % i, '        return self', 'obj%d = C%d()' % (i, i),
                  'def use%d():' % i]
        exprs = []
        for j in star_reach(star, i):
            if j != i:
                exprs.append('C%d().meth%d' % (j, j))
        for j, s in edges[i]:
            if s == 'import':
                exprs.append('m%d.C%d().meth%d' % (j, j, j))
                for t in star_reach(star, j)[:2]:
                    exprs.append('m%d.obj%d.meth%d' % (j, t, t))
        exprs.append('obj%d.meth%d' % (i, i))
        rng.shuffle(exprs)
        u = []
        for e in exprs[:4]:
            lines.append('    ' + e)
            u.append((len(lines), len(lines[-1]), e))
            # and the end of the first name of the expression (class / module / instance)
            first = e.split('.')[0].split('(')[0]
            u.append((len(lines), 4 + len(first), first))
        files['m%d.py' % i] = '\n'.join(lines) + '\n'
        uses['m%d.py' % i] = u
    r = ring[0]
    lines = ['from m%d import *' % r, 'def use_main():']
    u = []
    for j in ([r] + [x for x in star_reach(star, r) if x != r])[:4]:
        lines.append('    C%d().meth%d' % (j, j))
        u.append((len(lines), len(lines[-1]), lines[-1].strip()))
    files['main.py'] = '\n'.join(lines) + '\n'
    uses['main.py'] = u
    star_cycle = _star_cycle_len(k, star) > 0
    meta = {'k': k, 'ring': ring, 'edges': {str(i): edges[i] for i in range(k)},
            'star_cycle_len': _star_cycle_len(k, star), 'star_cycle': star_cycle}
    return files, uses, meta


def _star_cycle_len(k, star):
    """length of the longest simple star-import cycle found by walking from every module (0: none)"""
    best = 0
    for s in range(k):
        stack = [(s, [s])]
        while stack:
            v, path = stack.pop()
            for w in star[v]:
                if w == s:
                    best = max(best, len(path))
                elif w not in path and len(path) < k:
                    stack.append((w, path + [w]))
    return best


def star_chain(n):
    files = {'a0.py': 'class Base:\n    def meth(self):\n        return self\n'}
    for i in range(1, n + 1):
        files['a%d.py' % i] = 'from a%d import *\n' % (i - 1)
    return files, 'from a%d import *\nBase().meth' % n


def star_diamond(n):
    """n nested diamonds: a_i star-imports b_i and c_i, which both star-import a_{i-1}"""
    files = {'a0.py': 'class Base:\n    def meth(self):\n        return self\n'}
    for i in range(1, n + 1):
        files['b%d.py' % i] = 'from a%d import *\n' % (i - 1)
        files['c%d.py' % i] = 'from a%d import *\n' % (i - 1)
        files['a%d.py' % i] = 'from b%d import *\nfrom c%d import *\n' % (i, i)
    return files, 'from a%d import *\nBase().meth' % n


def star_ring(n):
    """a_0 -> a_1 -> ... -> a_n -> a_0, every module with a class of its own"""
    files = {}
    for i in range(n + 1):
        files['a%d.py' % i] = 'from a%d import *\nclass K%d:\n    def meth(self):\n        return self\n' % (
            (i + 1) % (n + 1), i)
    return files, 'from a0 import *\nK%d().meth' % n


STAR_FAMILIES = {'star_chain': star_chain, 'star_diamond': star_diamond, 'star_ring': star_ring}
